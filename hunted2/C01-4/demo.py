"""C01: a sequence of steps in which the same (stateless) step object occurs at two positions, e.g.
check = validate(); Flow(data, check, fix, check), cannot be run chained: the step object itself stores
its upstream link, the second occurrence overwrites the first one, the chain becomes a cycle and the run
ends in 'maximum recursion depth exceeded'.  Evaluated one step at a time the very same step objects
give the expected rows; with the check written as a row function instead of validate() the chained
flow works, too."""
import sys

from dataflows import Flow, validate, DataStream, ResourceWrapper
from datapackage import Package


def data():
    return [{'a': 1}, {'a': 2}]


def double(row):
    row['a'] *= 2


def step_by_step(steps):
    descriptor, rows = {'resources': []}, []
    for step in steps:
        dp = Package(descriptor)
        ds = DataStream(dp, [ResourceWrapper(res, iter(r)) for res, r in zip(dp.resources, rows)])
        out = Flow(step).datastream(ds)
        rows = [list(r) for r in out.res_iter]
        descriptor = out.dp.descriptor
    return rows


def main():
    check = validate()          # checks every row against the schema; keeps no state between rows
    steps = [data(), check, double, check]

    expected = step_by_step(steps)
    try:
        observed = Flow(*steps).results()[0]
    except Exception as e:
        observed = 'ERROR %s: %s' % (type(e).__name__, str(e)[:120])

    print('steps: [{a:1},{a:2}], check, double, check      with check = validate()')
    print('expected (one step at a time):', expected)
    print('observed (chained Flow)      :', observed)
    if observed == expected:
        print('OK: chained execution equals step-by-step evaluation')
        return 0
    print('VIOLATION: the chained flow cannot be run although every link is a valid step')
    return 1


if __name__ == '__main__':
    sys.exit(main())
