"""C09 Dump statistics describe the bytes on disk.

Oracle: io-lab computes size / md5 / data-row count from the written bytes (directory or zip member)
and compares with what the written descriptor records under the configured counter names, with the
package totals, with the stats returned by process(), and with a second dump of the same data.
"""
import copy
import json
import os

from vlib import boot, gen, iolab, lab

PROPERTY = 'C09'
LEVEL = 'exploration'
RULE = ('seeded generation: 1..3 resources (multi-byte text, empty resources, 0..40 rows) x format {csv,json; fewer cases '
        'of xlsx/excel,geojson} x '
        '{dump_to_path, dump_to_zip} x counters {default, renamed, dotted, some disabled} x add_filehash_to_path x '
        'pretty_descriptor; each case dumps twice (hash reproducibility); distinct = case hash; non-trivial = >=1 '
        'non-empty resource whose recorded bytes, hash and row count were all compared with the written file')
ASSUMPTIONS = [
    'a counter configured as None must simply be absent',
    'the package-level hash is only required to be reproducible (its definition is undocumented)',
    'package totals are compared with the sums over the resources recorded in the written descriptor',
    'xlsx: the data-row count is the number of sheet rows minus the header row (openpyxl reader); the second dump of a '
    'few xlsx cases happens 2.1 s after the first (zip member / document timestamps have 1-2 s resolution)',
]
REQUIRED_COUNTERS = ['files_measured', 'stats_compared']


def gen_cases(tier, seed):
    n = {'quick': 400, 'thorough': 8000}[tier]
    for i in range(n):
        yield {'family': ['csv', 'json'][i % 2] + ['/path', '/zip'][(i // 2) % 2], 'idx': i, 'seed': seed}
    for i in range(2):
        yield {'family': 'hashseed', 'idx': 10 ** 6 + i, 'seed': seed}
    # the other documented formats: the recorded numbers must describe those files too
    for i in range({'quick': 24, 'thorough': 400}[tier]):
        yield {'family': ['xlsx', 'geojson', 'excel'][i % 3] + ['/path', '/zip'][(i // 3) % 2], 'idx': n + i, 'seed': seed,
               'pause': i < 4}


HASHSEED_SCRIPT = r'''
import json
import dataflows as d
rows = [{'id': i, 'day': '2020-01-0%d' % (i % 3 + 1), 'kind': ['x', 'y', 'z'][i % 3], 'n': '1,5'} for i in range(6)]
fields = [{'name': 'id', 'type': 'integer'},
          {'name': 'day', 'type': 'date', 'constraints': {'enum': ['2020-01-01', '2020-01-02', '2020-01-03', '2021-12-31']}},
          {'name': 'kind', 'type': 'string', 'constraints': {'enum': ['x', 'y', 'z', 'w']}},
          {'name': 'n', 'type': 'number', 'decimalChar': ',', 'constraints': {'enum': ['1,5', '2,5', '3,5']}}]
desc = {'resources': [{'name': 'res', 'path': 'res.csv', 'schema': {'fields': fields}}]}
dp, stats = d.Flow(d.load((desc, [iter(rows)])), d.dump_to_path('hs_out', format='FMT')).process()
print('RESULT ' + json.dumps({'stats_hash': stats.get('hash'), 'descriptor': open('hs_out/datapackage.json').read()}))
'''


def run_hashseed(case):
    """The same dump in two interpreter processes whose string hashing differs (PYTHONHASHSEED): same numbers, same
    descriptor bytes."""
    import subprocess
    counters = {'files_measured': 0, 'stats_compared': 0}
    fmt = ['csv', 'json'][case['idx'] % 2]
    outs = []
    for hs in ('1', '2', '77'):
        env = dict(os.environ, PYTHONPATH=boot.REPO, PYTHONHASHSEED=hs)
        try:
            p = subprocess.run([boot.PY, '-W', 'ignore', '-c', HASHSEED_SCRIPT.replace('FMT', fmt)], capture_output=True, text=True,
                               timeout=120, env=env, cwd=os.getcwd())
        except subprocess.TimeoutExpired:
            return dict(nontrivial=False, violations=[], counters=counters, cov={'config': {}}, inconclusive='subprocess timed out')
        line = next((ln for ln in p.stdout.splitlines() if ln.startswith('RESULT ')), None)
        if line is None:
            return dict(nontrivial=False, violations=[], counters=counters, cov={'config': {}},
                        inconclusive='no result from the subprocess: %s' % p.stderr[-300:])
        outs.append(json.loads(line[7:]))
        import shutil
        shutil.rmtree('hs_out', ignore_errors=True)
    counters['files_measured'] += 3
    counters['stats_compared'] += 3
    viol = []
    if any(o != outs[0] for o in outs[1:]):
        viol.append({'kind': 'hash_unstable', 'mech': 'hash_unstable/%s/hashseed' % fmt, 'config': {'format': fmt},
                     'msg': 'the same dump in processes with PYTHONHASHSEED=1/2/77 gives different package hashes / descriptors: %r'
                     % [o['stats_hash'] for o in outs]})
    return dict(nontrivial=True, violations=viol, counters=counters,
                cov={'config': {'%s/path/interpreter_hash_seeds' % fmt: 1}}, sample={'format': fmt})


def get_attr(obj, prop):
    if prop is None:
        return None
    cur = obj
    for part in prop.split('.'):
        if not isinstance(cur, dict) or part not in cur:
            return None
        cur = cur[part]
    return cur


COUNTER_SETS = {
    'default': {},
    'renamed': {'datapackage-rowcount': 'rows', 'datapackage-bytes': 'size', 'datapackage-hash': 'md5',
                'resource-rowcount': 'rows', 'resource-bytes': 'size', 'resource-hash': 'md5'},
    'dotted': {'datapackage-rowcount': 'stats.rows', 'datapackage-bytes': 'stats.bytes',
               'datapackage-hash': 'stats.hash', 'resource-rowcount': 'stats.rows',
               'resource-bytes': 'stats.size.bytes', 'resource-hash': 'stats.hash'},
    'no_rowcount': {'datapackage-rowcount': None, 'resource-rowcount': None},
    'no_bytes': {'datapackage-bytes': None, 'resource-bytes': None},
    'no_res_rowcount': {'resource-rowcount': None},        # (the package total does not depend on the per-resource counter)
    'no_pkg_hash': {'datapackage-hash': None},
    'no_res_hash': {'resource-hash': None},
}
DEFAULTS = {'datapackage-rowcount': 'count_of_rows', 'datapackage-bytes': 'bytes', 'datapackage-hash': 'hash',
            'resource-rowcount': 'count_of_rows', 'resource-bytes': 'bytes', 'resource-hash': 'hash'}


def xlsx_equal_but_for_timestamps(a, b):
    """Both are zip containers with the same members whose contents are equal once the created / modified
    timestamps of docProps/core.xml are blanked (member mtimes are not content)."""
    import io
    import re
    import zipfile
    if a is None or b is None:
        return False
    try:
        za, zb = zipfile.ZipFile(io.BytesIO(a)), zipfile.ZipFile(io.BytesIO(b))
    except Exception:
        return False
    if za.namelist() != zb.namelist():
        return False
    stamp = re.compile(rb'<dcterms:(created|modified)[^>]*>[^<]*</dcterms:(created|modified)>')
    for n in za.namelist():
        ca, cb = za.read(n), zb.read(n)
        if n == 'docProps/core.xml':
            ca, cb = stamp.sub(b'', ca), stamp.sub(b'', cb)
        if ca != cb:
            return False
    return True


def run_case(case):
    if case['family'] == 'hashseed':
        return run_hashseed(case)
    rng = boot.rng(case['seed'], 'C09', case['idx'])
    d = lab.df()
    fmt, kind = case['family'].split('/')
    counters = {'files_measured': 0, 'stats_compared': 0}
    cov = {'config': {}}
    viol = []
    cset = rng.choice(sorted(COUNTER_SETS))
    cnames = dict(DEFAULTS, **COUNTER_SETS[cset])
    filehash = rng.random() < 0.3
    pretty = rng.random() < 0.5
    nres = rng.choice([1, 2, 3])
    res = []
    for r in range(nres):
        fields = [('id', 'integer'), ('t', 'string'), ('n', 'number'), ('d', 'date')][:rng.randint(2, 4)]
        nrows = rng.choice([0, 0, 1, 3, 17, 40])
        rows = gen.table(rng, fields, nrows, classes={'string': ['plain', 'unicode', 'nonbmp', 'quote', 'newline',
                                                                 'delim'],
                                                      'integer': ['small', 'negative', 'big'],
                                                      'number': ['decimal', 'float'], 'date': ['plain', 'early']})
        for i, row in enumerate(rows):
            row['id'] = i
        res.append({'name': 'res%d' % r, 'fields': gen.schema_fields(fields), 'rows': rows})
    opts = {'format': fmt, 'pretty_descriptor': pretty}
    rng_v = boot.rng(case['seed'], 'C09', 'validator', case['idx'])
    dropped_rows = 0
    bad_res = None
    want_drop = fmt in ('csv', 'json') and rng_v.random() < 0.15 and any(r['rows'] for r in res)
    early_stop = fmt in ('csv', 'json') and rng_v.random() < 0.15
    if early_stop:
        cov['config']['later_step_stops_reading_early'] = 1
    if COUNTER_SETS[cset]:
        opts['counters'] = dict(COUNTER_SETS[cset])
    if filehash:
        opts['add_filehash_to_path'] = True
    cfg = {'format': fmt, 'kind': kind, 'counters': cset, 'add_filehash_to_path': filehash, 'pretty': pretty,
           'rows': [len(r['rows']) for r in res], 'validator_drops_rows': dropped_rows,
           'later_step_stops_reading_early': early_stop}
    cov['config']['%s/%s/%s%s' % (fmt, kind, cset, '/filehash' if filehash else '')] = 1

    # history of the measured dump: fresh / written over an earlier dump of other data / a re-dump of a loaded dump
    history = 'fresh'
    if fmt in ('csv', 'json'):
        history = rng.choice(['fresh', 'fresh', 'same_target', 'redump', 'redump_twice', 'same_step_object'])
    if history == 'same_step_object' and kind == 'zip':
        history = 'same_target'     # (a dump_to_zip object holds its archive from construction on: a second run is refused loudly)
    cfg['history'] = history
    if want_drop and history == 'fresh':
        # the dumper's own validator drops a row that does not conform: the numbers describe what was WRITTEN
        opts['validator_options'] = {'on_error': d.schema_validator.drop}
        r_ = rng_v.choice([r for r in res if r['rows']])
        r_['rows'][rng_v.randrange(len(r_['rows']))]['id'] = 'not-a-number'
        bad_res = r_['name']
        dropped_rows = 1
        cfg['validator_drops_rows'] = 1
        cov['config']['validator_drops_a_row'] = 1
    cov['config']['history/%s/%s%s' % (history, kind, '/filehash' if filehash else '')] = 1

    # force_format=False: a resource whose extension the dumper does not write is left out of the dump - and of its totals
    discarded = None
    if fmt == 'csv' and history == 'fresh' and nres >= 2 and boot.rng(case['seed'], 'C09', 'noforce', case['idx']).random() < 0.15:
        discarded = res[rng.randrange(nres)]['name']
        opts['force_format'] = False
        cfg['force_format_false_discards'] = discarded
        cov['config']['force_format_false/one_resource_discarded'] = 1

    # resources whose paths differ only in their extension: every resource still has a file - and numbers - of its own
    same_stem = fmt in ('csv', 'json') and history == 'fresh' and nres >= 2 and not discarded and \
        boot.rng(case['seed'], 'C09', 'stem', case['idx']).random() < 0.2
    if same_stem:
        cfg['paths_differ_only_in_extension'] = True
        cov['config']['paths_differ_only_in_extension'] = 1

    # a source resource declares a legacy text encoding of its own: what the dump records describes what it wrote
    declared_enc = None
    if fmt in ('csv', 'json') and history == 'fresh' and boot.rng(case['seed'], 'C09', 'enc', case['idx']).random() < 0.15:
        declared_enc = boot.rng(case['seed'], 'C09', 'enc/which', case['idx']).choice(['cp1252', 'latin-1', 'utf-16', 'cp1250'])
        cfg['source_declares_encoding'] = declared_enc
        cov['config']['source_declares_encoding/' + declared_enc] = 1
    # the target directory holds a DIRECTORY where a data file has to go: the dump is refused or writes a regular file
    # there - it does not 'succeed' with the file somewhere else
    obstacle = kind == 'path' and fmt in ('csv', 'json') and history == 'fresh' and not same_stem and not filehash and \
        boot.rng(case['seed'], 'C09', 'obstacle', case['idx']).random() < 0.1
    if obstacle:
        cfg['directory_where_a_data_file_goes'] = True
        cov['config']['directory_where_a_data_file_goes'] = 1
        os.makedirs(os.path.join('o1', res[0]['name'] + '.' + fmt, 'part-0'))

    reused_step = {}

    def dump(out, sources=None):
        steps = sources or [lab.source(r['name'], r['fields'], r['rows']) for r in res]
        if declared_enc:
            steps.append(d.update_resource(res[0]['name'], encoding=declared_enc))
        if discarded:
            steps.append(d.update_resource(discarded, path=discarded + '.tsv'))
        if same_stem:
            for r_, ext_ in zip(res, ['.json', '.csv', '.tsv', '.txt', '.dat']):
                steps.append(d.update_resource(r_['name'], path='data/report' + ext_))
        steps.append(d.update_package(name='pkg'))
        if out in reused_step:
            steps.append(reused_step[out])          # the step OBJECT of an earlier run into the same target
        else:
            steps.append(d.dump_to_path(out, **copy.deepcopy(opts)) if kind == 'path'
                         else d.dump_to_zip(out, **copy.deepcopy(opts)))
            if history == 'same_step_object':
                reused_step[out] = steps[-1]
        if early_stop:
            import itertools

            def first_two(rows):
                return itertools.islice(rows, 2)
            steps.append(first_two)
        try:
            with boot.quiet():
                dp, stats = d.Flow(*steps).process()
            return dp, stats, None
        except Exception as e:
            return None, None, e

    # the earlier dumps of a history either use this dump's counter configuration or the default one
    hist_default_counters = boot.rng(case['seed'], 'C09', 'histcounters', case['idx']).random() < 0.5
    cfg['history_dumps_use_default_counters'] = hist_default_counters

    def dump_path(out, sources=None):
        steps = sources or [lab.source(r['name'], r['fields'], r['rows']) for r in res]
        o_ = copy.deepcopy(opts)
        if hist_default_counters:
            o_.pop('counters', None)
        steps.append(d.dump_to_path(out, **o_))
        try:
            with boot.quiet():
                dp, stats = d.Flow(*steps).process()
            return dp, stats, None
        except Exception as e:
            return None, None, e

    def add(kind_, msg, mech, **kw):
        viol.append(dict({'kind': kind_, 'mech': mech, 'msg': '%r: %s' % (cfg, msg), 'config': cfg}, **kw))
    out1, out2 = ('o1', 'o2') if kind == 'path' else ('o1.zip', 'o2.zip')
    if history in ('same_target', 'same_step_object'):
        # the target already holds a dump of other data (fewer / other rows, same resource names)
        other = [lab.source(r['name'], r['fields'], [dict(x, id=x['id'] + 1000) for x in r['rows'][:len(r['rows']) // 2]] or
                            [dict(r['rows'][0], id=-5)] if r['rows'] else [])
                 for r in res]
        dump(out1, other)
    sources = None
    if history.startswith('redump'):
        chain = ['h0', 'h1'] if history == 'redump_twice' else ['h0']
        prev = None
        for h in chain:
            src_ = None if prev is None else [d.load(prev + '/datapackage.json')]
            _, _, e_ = (dump_path(h, src_))
            if e_ is not None:
                add('dump_failed', 'history dump failed: %s: %s' % (type(e_).__name__, str(e_)[:300]), 'dump_failed/history')
                return dict(nontrivial=False, violations=viol, cov=cov, counters=counters)
            prev = h
        sources = [d.load(prev + '/datapackage.json')]
    dp, stats, err = dump(out1, sources)
    if err is not None and obstacle and isinstance(getattr(err, 'cause', err), OSError):
        counters['files_measured'] += 1         # refused: nothing claims to describe a file
        return dict(nontrivial=True, violations=viol, cov=cov, counters=counters, sample={'config': cfg})
    if err is not None:
        add('dump_failed', 'dump failed: %s: %s' % (type(err).__name__, str(err)[:300]), 'dump_failed/' + cset)
        return dict(nontrivial=False, violations=viol, cov=cov, counters=counters)
    w = iolab.Written(out1, is_zip=(kind == 'zip'))
    nontrivial = False
    try:
        wd = w.descriptor()
        desc_size = len(w.read('datapackage.json'))
        tot_bytes = tot_rows = 0
        hashes1 = {}
        bytes1 = {}
        listed = [rd_['name'] for rd_ in wd['resources']]
        want_listed = [r_['name'] for r_ in res if r_['name'] != discarded]
        if listed != want_listed:
            add('resources_listed', 'written descriptor lists %r, expected %r' % (listed, want_listed), 'resources_listed')
        by_name = {r_['name']: r_ for r_ in res}
        for rd, r in [(rd_, by_name[rd_['name']]) for rd_ in wd['resources'] if rd_['name'] in by_name]:
            path = rd.get('path')
            if not w.exists(path):
                add('path', 'recorded path %r is not a written file (%r)' % (path, w.listing()), 'recorded_path_missing')
                continue
            data = w.read(path)
            counters['files_measured'] += 1
            full = True
            if fmt in ('csv', 'json'):
                try:
                    data.decode(rd.get('encoding', 'utf-8'))
                except Exception as e_:
                    add('encoding', 'resource %s: the written file does not decode under the recorded encoding %r: %s'
                        % (rd['name'], rd.get('encoding'), str(e_)[:100]), 'recorded_encoding_wrong/' + fmt)
                    continue
            for key, actual, label in (('resource-bytes', len(data), 'bytes'),
                                       ('resource-hash', iolab.md5(data), 'hash'),
                                       ('resource-rowcount', iolab.count_data_rows(rd, data), 'rowcount')):
                cname = cnames[key]
                rec = get_attr(rd, cname)
                if cname is None:
                    full = False
                    continue
                if rec is None:
                    add('resource_counter_missing', 'resource %s: counter %r (%s) not recorded in the written '
                        'descriptor' % (rd['name'], cname, label), 'resource_%s_not_recorded' % label, field=label)
                    full = False
                elif rec != actual:
                    add('resource_counter', 'resource %s: recorded %s=%r, file has %r' % (rd['name'], label, rec, actual),
                        'resource_%s_wrong/%s' % (label, fmt), field=label)
            # whatever the counters are called in THIS dump: a default-named counter property found in the written
            # descriptor (e.g. carried in by a loaded dump) must describe the written file, too
            for prop, key, actual in (('bytes', 'resource-bytes', len(data)), ('hash', 'resource-hash', iolab.md5(data)),
                                      ('count_of_rows', 'resource-rowcount', iolab.count_data_rows(rd, data))):
                if cnames[key] != prop and prop in rd and rd[prop] != actual:
                    add('stale_counter', 'resource %s: written descriptor carries %s=%r (not written by this dump, which '
                        'records it as %r), the file has %r' % (rd['name'], prop, rd[prop], cnames[key], actual),
                        'stale_default_counter/%s' % prop, field=prop)
            if cnames['resource-rowcount'] is not None and \
                    len(r['rows']) - (1 if r['name'] == bad_res else 0) != iolab.count_data_rows(rd, data):
                add('rows_written', 'resource %s: %d rows entered, file holds %d' %
                    (rd['name'], len(r['rows']), iolab.count_data_rows(rd, data)), 'rows_written/' + fmt)
            if filehash and cnames['resource-hash'] and iolab.md5(data) not in path:
                add('path', 'add_filehash_to_path: path %r lacks the file hash' % path, 'filehash_not_in_path')
            tot_bytes += len(data)
            tot_rows += iolab.count_data_rows(rd, data)
            hashes1[rd['name']] = iolab.md5(data)
            if fmt in ('xlsx', 'excel'):
                bytes1[rd['name']] = data
            if full and r['rows']:
                nontrivial = True
        # package totals in the written descriptor
        for key, actual, label in (('datapackage-bytes', tot_bytes, 'bytes'), ('datapackage-rowcount', tot_rows, 'rowcount')):
            cname = cnames[key]
            if cname is None:
                if get_attr(wd, DEFAULTS[key]) is not None and cset.startswith('no_'):
                    add('disabled_counter_present', 'package counter %s disabled but %r present' % (label, DEFAULTS[key]),
                        'disabled_counter_present')
                continue
            rec = get_attr(wd, cname)
            counters['stats_compared'] += 1
            if rec != actual:
                add('package_total', 'written descriptor %s=%r, sum over written files %r' % (label, rec, actual),
                    'package_%s_total/%s' % (label, fmt), field=label)
        # stats returned by process() vs written descriptor
        for key, skey in (('datapackage-rowcount', 'count_of_rows'), ('datapackage-bytes', 'bytes'),
                          ('datapackage-hash', 'hash')):
            cname = cnames[key]
            rec = get_attr(wd, cname) if cname else None
            counters['stats_compared'] += 1
            if stats.get(skey) != rec:
                mech = 'stats_%s_vs_descriptor' % skey
                if skey == 'bytes' and isinstance(stats.get(skey), int) and isinstance(rec, int) and \
                        stats[skey] - rec == desc_size:
                    mech = 'stats_bytes_include_descriptor_size'
                add('stats_vs_descriptor', 'process() stats[%r]=%r but written descriptor records %r'
                    % (skey, stats.get(skey), rec), mech, field=skey)
        if stats.get('dataset_name') != 'pkg':
            add('stats_vs_descriptor', 'stats dataset_name %r' % stats.get('dataset_name'), 'stats_dataset_name')
        pkg_hash1 = get_attr(wd, cnames['datapackage-hash']) if cnames['datapackage-hash'] else None
    finally:
        w.close()
    # second dump of the same data: identical hashes
    if case.get('pause') and fmt in ('xlsx', 'excel'):
        import time
        time.sleep(2.1)
    dp2, stats2, err2 = dump(out2, [d.load(prev + '/datapackage.json')] if history.startswith('redump') else None)
    if err2 is not None:
        add('dump_failed', 'second dump failed: %s' % err2, 'dump_failed/second')
    else:
        w2 = iolab.Written(out2, is_zip=(kind == 'zip'))
        try:
            wd2 = w2.descriptor()
            only_stamps = fmt in ('xlsx', 'excel')      # every byte difference explained by container timestamps?
            for rd in wd2['resources']:
                if w2.exists(rd['path']) and hashes1.get(rd['name']) != iolab.md5(w2.read(rd['path'])):
                    mech = 'hash_unstable/' + fmt
                    if only_stamps and xlsx_equal_but_for_timestamps(bytes1.get(rd['name']), w2.read(rd['path'])):
                        mech = 'xlsx_container_timestamps'
                    else:
                        only_stamps = False
                    add('hash_unstable', 'resource %s bytes differ between two dumps of equal data' % rd['name'], mech)
                rh = cnames['resource-hash']
                if rh and get_attr(rd, rh) != get_attr(next(x for x in wd['resources'] if x['name'] == rd['name']), rh):
                    add('hash_unstable', 'resource %s recorded hash differs between two dumps' % rd['name'],
                        'xlsx_container_timestamps' if only_stamps else 'recorded_hash_unstable/' + fmt)
            if cnames['datapackage-hash'] and get_attr(wd2, cnames['datapackage-hash']) != pkg_hash1:
                add('hash_unstable', 'package hash differs between two dumps of equal data',
                    'xlsx_container_timestamps' if only_stamps else 'package_hash_unstable/' + fmt)
        finally:
            w2.close()
    sample = {'config': cfg, 'written_descriptor_counters': {k: get_attr(wd, v) for k, v in cnames.items() if v and k.startswith('datapackage')},
              'stats': {k: stats.get(k) for k in ('count_of_rows', 'bytes', 'hash')}}
    return dict(nontrivial=nontrivial, violations=viol, cov=cov, counters=counters, sample=sample)
