"""C13: load() of a plain 7-bit ASCII (hence valid UTF-8) CSV returns altered cell text,
because the guessed encoding (UTF-7 / HZ-GB-2312) is trusted although the bytes are valid UTF-8.
"""
import csv
import os
import shutil
import sys
import tempfile

from dataflows import Flow, load

CASES = {
    'UTF-7 look-alike (product code)': 'SKU+ABCD1234-X',
    'UTF-7 look-alike (reference)': 'Ref+INVOICE1-A',
    'HZ-GB-2312 look-alike (template text)': 'x~{AB~}y',
}


def load_rows(path):
    seen = []

    def spy(rows):
        for row in rows:
            seen.append(dict(row))
            yield row

    Flow(load(path, infer_strategy=load.INFER_STRINGS, cast_strategy=load.CAST_TO_STRINGS, strip=False),
         spy).process()
    return seen


def main():
    cwd = os.getcwd()
    tmp = tempfile.mkdtemp()
    failures = 0
    try:
        os.chdir(tmp)
        for title, cell in CASES.items():
            table = [['id', 'code'], ['1', cell], ['2', 'plain']]
            with open('t.csv', 'w', newline='', encoding='ascii') as f:   # pure ASCII file
                csv.writer(f).writerows(table)
            expected = [dict(zip(table[0], r)) for r in table[1:]]
            try:
                observed = load_rows('t.csv')
            except Exception as e:
                observed = 'EXCEPTION %r' % (e,)
            print('%s\n  file bytes: %r\n  expected: %r\n  observed: %r' % (
                title, open('t.csv', 'rb').read(), expected, observed))
            if observed != expected:
                failures += 1
                print('  -> VIOLATION: cell text not preserved')
    finally:
        os.chdir(cwd)
        shutil.rmtree(tmp, ignore_errors=True)
    if failures:
        print('FAIL: %d of %d well-formed ASCII CSV files were not reproduced faithfully' % (failures, len(CASES)))
        sys.exit(1)
    print('OK')


if __name__ == '__main__':
    main()
