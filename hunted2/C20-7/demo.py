"""C20: mapping one resource to two tables in a single dump_to_sql silently writes only one."""
import os
import shutil
import sqlite3
import sys
import tempfile

from dataflows import Flow, dump_to_sql, update_resource

tmp = tempfile.mkdtemp()
db = os.path.join(tmp, 'a.db')
violated = False
try:
    Flow(
        [{'k': 1}, {'k': 2}],
        update_resource(-1, name='res'),
        dump_to_sql({
            'current': {'resource-name': 'res', 'mode': 'rewrite'},
            'history': {'resource-name': 'res', 'mode': 'append'},
        }, engine='sqlite:///' + db),
    ).process()
    con = sqlite3.connect(db)
    tables = sorted(name for name, in con.execute("select name from sqlite_master where type = 'table'"))
    con.close()
    print("expected: tables ['current', 'history'], each holding the 2 dumped rows (or an error)")
    print('observed: tables', tables, '- no error')
    violated = tables != ['current', 'history']
finally:
    shutil.rmtree(tmp, ignore_errors=True)
sys.exit(1 if violated else 0)
