"""C20: dump_to_sql(mode='update') without explicit update_keys takes them from the schema's
primaryKey - but when the primary key is declared as a string (valid Table Schema, handled by
the other processors) it iterates over its characters and the dump crashes."""
import os
import shutil
import sqlite3
import sys
import tempfile

from dataflows import Flow, dump_to_sql, update_resource, update_schema

workdir = tempfile.mkdtemp(prefix='c20_3_')
db = os.path.join(workdir, 'demo.db')
engine = 'sqlite:///' + db


def table():
    conn = sqlite3.connect(db)
    try:
        return conn.execute('SELECT id, v FROM t ORDER BY id').fetchall()
    finally:
        conn.close()


def dump(rows, primary_key):
    Flow(
        [dict(r) for r in rows],
        update_resource(-1, name='res'),
        update_schema(-1, primaryKey=primary_key),
        dump_to_sql({'t': {'resource-name': 'res', 'mode': 'update'}}, engine=engine),
    ).process()


failed = False
try:
    for pk in (['id'], 'id'):
        if os.path.exists(db):
            os.remove(db)
        expected = [(1, 'new'), (2, 'old'), (3, 'new')]
        print('primaryKey = %r' % (pk,))
        print('  expected table:', expected)
        try:
            dump([{'id': 1, 'v': 'old'}, {'id': 2, 'v': 'old'}], pk)
            dump([{'id': 1, 'v': 'new'}, {'id': 3, 'v': 'new'}], pk)
            got = table()
            print('  observed table:', got)
            if got != expected:
                failed = True
                print('  -> VIOLATION')
        except Exception as e:
            failed = True
            print('  observed: %s: %s' % (type(e).__name__, str(e).strip()[:200]))
            try:
                print('  table:', table())
            except Exception as e2:
                print('  table:', repr(e2))
            print('  -> VIOLATION: update keys from a (string) primary key are not honoured')
finally:
    shutil.rmtree(workdir, ignore_errors=True)

sys.exit(1 if failed else 0)
