"""join: a key given as a LIST of fields merges distinct key tuples.

The key is the pair (first, last).  ('x:y', 'z') and ('x', 'y:z') are two different
pairs, yet join treats them as the same key, because it renders a field list as
':'.join(str(value)) - both pairs render as 'x:y:z'.
"""
import sys
import warnings

from dataflows import Flow, join, join_with_self

warnings.simplefilter('ignore')

source = [
    {'first': 'x:y', 'last': 'z', 'amount': 1},
    {'first': 'x', 'last': 'y:z', 'amount': 10},
]
target = [
    {'first': 'x:y', 'last': 'z'},
    {'first': 'x', 'last': 'y:z'},
]
fields = {'total': {'name': 'amount', 'aggregate': 'sum'}, 'n': {'aggregate': 'count'}}

joined = Flow(
    (dict(r) for r in source),
    (dict(r) for r in target),
    join('res_1', ['first', 'last'], 'res_2', ['first', 'last'], fields),
).results()[0][0]

dedup = Flow(
    (dict(r) for r in source),
    join_with_self('res_1', ['first', 'last'],
                   {'first': None, 'last': None, 'n': {'aggregate': 'count'}}),
).results()[0][0]

expected = [
    {'first': 'x:y', 'last': 'z', 'total': 1, 'n': 1},
    {'first': 'x', 'last': 'y:z', 'total': 10, 'n': 1},
]
print('expected join      :', expected)
print('observed join      :', joined)
print('expected dedup rows: 2 (two distinct (first, last) pairs)')
print('observed dedup rows:', len(dedup), dedup)

if joined != expected or len(dedup) != 2:
    print('VIOLATION: source rows with a different (first, last) key were aggregated together')
    sys.exit(1)
print('ok')
