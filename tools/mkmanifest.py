#!/usr/bin/env python3
"""Regenerates /verif/MANIFEST.json from the table below (one place to keep it consistent)."""
import json
import os
import subprocess

HERE = os.path.dirname(os.path.dirname(os.path.abspath(__file__)))
PYTEST = ("cd /repo && /venv/bin/python -m pytest -ra -q -p no:cacheprovider --timeout=900 "
          "--continue-on-collection-errors")

# id: (engine, category, technique, level text, level note, design ref)
CHECKS = {
    'C10': ('pipeline-lab', 'exploration',
            'runtime monitor: reference selector model + differential single-resource effect + '
            'function-level contract on ResourceMatcher.match',
            'Every selector-taking processor x every selector form x seeded name sets is executed on '
            'the real code; the set of resources that changed is compared with an independent '
            'selector model (re.fullmatch / membership / index) and unselected resources with the '
            'run without the step. Finite product explored completely per name set; name sets sampled.',
            'Trusted: the 20-line selector model; the effect on a selected resource is taken from the '
            'same processor run alone (selector semantics only are judged here).', '3/C10'),
}

NOT_BUILT_REASON = 'check not built yet in this round (design in DESIGN.md section 3); no claim made'


def main():
    props = [json.loads(l)['id'] for l in open(os.path.join(HERE, 'properties.jsonl'))]
    fixes = []
    try:
        out = subprocess.run(['git', '-C', '/repo', 'log', '--format=%h %s'], capture_output=True,
                             text=True).stdout
        fixes = [l.split()[0] for l in out.splitlines() if l.split(' ', 1)[1].startswith('hook:')]
    except Exception:
        pass
    man = {
        'version': 1,
        'setup_cmd': '/venv/bin/python /verif/vcheck --selftest',
        'hooks': {
            'guard': 'DATAFLOWS_VERIF',
            'enable': 'none needed: all instrumentation is attached from /verif at run time by '
                      'rebinding module-level names, wrapping methods, probe steps, sys.monitoring '
                      'and strace; no source line in /repo reads the guard',
            'baseline_off_cmd': PYTEST,
            'source_commits': fixes,
            'add_only': True,
        },
        'engines': [
            {'name': 'pipeline-lab', 'path': 'vlib/lab.py', 'kind_free_text':
             'generated pipelines run on the real library; reference-model and differential oracles'},
        ],
        'checks': [],
        'not_applicable': [],
        'notes': 'Runtime monitoring only. ./vcheck <id> --tier quick|thorough; exit 0 held, 1 VIOLATION, '
                 '2 INCONCLUSIVE. known_findings.json lists recorded/fixed defects.',
    }
    served = {}
    for pid in props:
        if pid in CHECKS:
            eng, cat, tech, text, note, ref = CHECKS[pid]
            served.setdefault(eng, []).append(pid)
            man['checks'].append({
                'property_id': pid,
                'quick_cmd': '/venv/bin/python /verif/vcheck %s --tier quick' % pid,
                'thorough_cmd': '/venv/bin/python /verif/vcheck %s --tier thorough' % pid,
                'evidence_file': '/verif/evidence/%s.json' % pid,
                'replay_cmd_template': '/venv/bin/python /verif/vcheck %s --replay {path}' % pid,
                'engine': eng,
                'level_claimed': {'category': cat, 'text': text, 'design_ref': 'DESIGN.md §' + ref},
                'level_note': note,
                'technique': tech,
            })
        else:
            man['not_applicable'].append({'property_id': pid, 'reason': NOT_BUILT_REASON})
    for e in man['engines']:
        e['serves_properties'] = served.get(e['name'], [])
    with open(os.path.join(HERE, 'MANIFEST.json'), 'w') as f:
        json.dump(man, f, indent=1)
    print('MANIFEST.json: %d checks, %d not_applicable' % (len(man['checks']), len(man['not_applicable'])))


if __name__ == '__main__':
    main()
