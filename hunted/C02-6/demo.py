"""C02: rename_fields / delete_fields / select_fields / unpivot leave schema.primaryKey pointing at fields
that no longer exist -> the emitted Table Schema is invalid and built-in steps relying on it crash."""
import sys
from dataflows import (Flow, set_primary_key, rename_fields, delete_fields, select_fields, unpivot,
                       deduplicate)

DATA = [{'id': 1, 'a': 'x', 'b': 2}, {'id': 2, 'a': 'y', 'b': 3}]

CASES = {
    "rename_fields({'id': 'key'})": lambda: rename_fields({'id': 'key'}),
    "delete_fields(['id'])": lambda: delete_fields(['id']),
    "select_fields(['a', 'b'])": lambda: select_fields(['a', 'b']),
    "unpivot id -> (k, v)": lambda: unpivot([dict(name='id', keys={'k': 'id'})],
                                            [dict(name='k', type='string')],
                                            dict(name='v', type='integer')),
}

print('expected: the emitted descriptor is a valid Data Package, i.e. every primaryKey entry names a declared '
      'field (Table Schema: "primaryKey value must be found in the schema field names"), and a following '
      'deduplicate() works')
ok = True
for label, step in CASES.items():
    _, dp, _ = Flow(DATA, set_primary_key(['id']), step()).results()
    schema = dp.descriptor['resources'][0]['schema']
    names = [f['name'] for f in schema['fields']]
    pk = schema.get('primaryKey', [])
    pk = [pk] if isinstance(pk, str) else pk
    dangling = [k for k in pk if k not in names]
    line = 'observed %s: fields=%r primaryKey=%r dangling=%r' % (label, names, pk, dangling)
    try:
        Flow(DATA, set_primary_key(['id']), step(), deduplicate()).results()
        line += ' | deduplicate(): ok'
    except Exception as e:
        line += ' | deduplicate(): raised %s' % str(e).replace('\n', ' ')[:120]
        ok = False
    print(line)
    if dangling:
        ok = False

if ok:
    print('OK: property holds')
    sys.exit(0)
print('VIOLATION: emitted schema has a primaryKey that references undeclared fields (invalid Table Schema)')
sys.exit(1)
