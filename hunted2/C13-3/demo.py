"""C13: infer_strategy=load.INFER_PYTHON_TYPES never infers a type: every column is declared 'any'.

PROCESSORS.md: "load.INFER_PYTHON_TYPES - All columns will get a datatype matching their python type".
The cells of a CSV file are python str, so the columns are to be 'string' (a JSON source with int /
float / bool / list / dict cells is to give integer / number / boolean / array / object).
"""
import json
import os
import shutil
import sys
import tempfile

from dataflows import Flow, load


def field_types(source, **kw):
    _, dp, _ = Flow(load(source, infer_strategy=load.INFER_PYTHON_TYPES, **kw)).results()
    return dict((f['name'], f['type']) for f in dp.descriptor['resources'][0]['schema']['fields'])


def main():
    cwd = os.getcwd()
    tmp = tempfile.mkdtemp()
    failures = 0
    try:
        os.chdir(tmp)
        with open('t.csv', 'w') as f:
            f.write('name,age\njohn,18\npaul,16\n')
        with open('t.json', 'w') as f:
            json.dump([dict(i=1, s='x', b=True, l=[1], o={'k': 1}), dict(i=2, s='y', b=False, l=[2], o={})], f)
        checks = [
            ('t.csv', dict(), dict(name='string', age='string')),
            ('t.csv', dict(cast_strategy=load.CAST_WITH_SCHEMA), dict(name='string', age='string')),
            ('t.json', dict(), dict(i='integer', s='string', b='boolean', l='array', o='object')),
        ]
        for source, kw, expected in checks:
            observed = field_types(source, **kw)
            print('%s %r\n  expected types: %r\n  observed types: %r' % (source, kw, expected, observed))
            if observed != expected:
                failures += 1
                print('  -> VIOLATION: the documented python-type inference did not happen')
    finally:
        os.chdir(cwd)
        shutil.rmtree(tmp, ignore_errors=True)
    if failures:
        print('FAIL')
        sys.exit(1)
    print('OK')


if __name__ == '__main__':
    main()
