"""C16: concatenate must leave the resources it does not select untouched (descriptor and rows).

When a non-selected resource shares its schema object with a selected one (one `schema` dict used for
several resource descriptors given to load((descriptor, iterators)), or update_resource(None, schema=...)),
concatenate renames the field of the NON-selected resource as well, and its rows get an invented null cell.
"""
import sys
from dataflows import Flow, load, concatenate, update_resource

failures = []


def check(title, flow, other_name, exp_fields, exp_rows):
    results, dp, _ = flow.results()
    names = [r['name'] for r in dp.descriptor['resources']]
    idx = names.index(other_name)
    got_fields = [f['name'] for f in dp.descriptor['resources'][idx]['schema']['fields']]
    got_rows = results[idx]
    print('---', title)
    print('resources             :', names)
    print('expected fields of %s  : %r' % (other_name, exp_fields))
    print('observed fields of %s  : %r' % (other_name, got_fields))
    print('expected rows of %s    : %r' % (other_name, exp_rows))
    print('observed rows of %s    : %r' % (other_name, got_rows))
    if got_fields != exp_fields or got_rows != exp_rows:
        failures.append(title)


# Variant 1: a (descriptor, iterators) source whose three resources use one schema dict
schema = {'fields': [{'name': 'a', 'type': 'integer'}, {'name': 'b', 'type': 'string'}]}
descriptor = {'name': 'p', 'resources': [
    {'name': n, 'path': n + '.csv', 'schema': schema, 'profile': 'tabular-data-resource'}
    for n in ('r1', 'r2', 'r3')
]}
iterators = [[{'a': i, 'b': n} for i in range(2)] for n in 'xyz']
check('load((descriptor, iterators)) with a shared schema dict',
      Flow(load((descriptor, iterators)),
           concatenate({'k': ['a'], 'b': []}, {'name': 'all', 'path': 'all.csv'}, resources=['r1', 'r2'])),
      'r3', ['a', 'b'], [{'a': 0, 'b': 'z'}, {'a': 1, 'b': 'z'}])

# Variant 2: built-in steps only
check('update_resource(None, schema=...) then concatenate of the first two',
      Flow([{'a': 1}], [{'a': 2}], [{'a': 3}],
           update_resource(None, schema={'fields': [{'name': 'a', 'type': 'integer'}]}),
           concatenate({'k': ['a']}, {'name': 'all', 'path': 'all.csv'}, resources=['res_1', 'res_2'])),
      'res_3', ['a'], [{'a': 3}])

if failures:
    print('VIOLATION: concatenate changed a resource it did not select:', failures)
    sys.exit(1)
print('OK')
