"""unpivot repeats the values of a kept field once per unpivoted field but leaves the kept field's
`unique: true` constraint in the schema: the emitted rows contradict the emitted schema, and a
dump of the result cannot be loaded back (UniqueKeyError)."""
import os
import shutil
import sys
import tempfile
from dataflows import Flow, unpivot, set_type, dump_to_path, load

DATA = [
    {'id': 1, 'm_2000': 1, 'm_2001': 2},
    {'id': 2, 'm_2000': 4, 'm_2001': 5},
]

tmp = tempfile.mkdtemp(dir='.')
bad = False
try:
    out = os.path.join(tmp, 'out')
    results, dp, _ = Flow(
        DATA,
        # a perfectly valid descriptor for the input: ids are unique there
        set_type('id', type='integer', constraints={'unique': True}),
        unpivot(
            [{'name': r'm_(\d+)', 'keys': {'year': r'\1'}}],
            [{'name': 'year', 'type': 'year'}],
            {'name': 'value', 'type': 'integer'},
        ),
        dump_to_path(out),
    ).results()
    rows = results[0]
    schema = dp.descriptor['resources'][0]['schema']
    id_field = [f for f in schema['fields'] if f['name'] == 'id'][0]
    ids = [r['id'] for r in rows]
    print('emitted id cells  :', ids)
    print('emitted id field  :', id_field)
    print('expected          : unpivot (which emits every kept cell once per unpivoted field) does not '
          'declare the kept field unique any more - as it already does for a primaryKey')
    if id_field.get('constraints', {}).get('unique') and len(set(ids)) != len(ids):
        print('observed          : schema says id is unique, rows hold each id twice')
        bad = True
    try:
        back = Flow(load(os.path.join(out, 'datapackage.json'))).results()[0][0]
        print('re-loaded dump    :', back)
    except Exception as e:
        print('expected          : the dumped result loads back')
        print('observed          : %r' % (e,))
        bad = True
finally:
    shutil.rmtree(tmp, ignore_errors=True)

sys.exit(1 if bad else 0)
