"""
C05 - dump_to_path / dump_to_zip / validate() are not transparent for the ROWS seen downstream:
they cast every row IN PLACE and pass the cast row on.  With load()'s default cast strategy
(CAST_DO_NOTHING) the rows of a CSV travel as (valid, castable) strings, so inserting one of
these "pass-through" steps changes the values every later step sees - and the final result.

Run in an empty cwd:  PYTHONPATH=<tree> /venv/bin/python demo.py
"""
import io
import contextlib
import os
import shutil
import sys

from dataflows import (Flow, load, sort_rows, dump_to_path, dump_to_zip, printer, checkpoint,
                       finalizer, update_stats, validate)

CSV, OUT, ZIP, CP = 'in_c05_4.csv', 'out_c05_4', 'out_c05_4.zip', '.checkpoints_c05_4'


def cleanup(all_=False):
    shutil.rmtree(OUT, ignore_errors=True)
    shutil.rmtree(CP, ignore_errors=True)
    if os.path.exists(ZIP):
        os.remove(ZIP)
    if all_ and os.path.exists(CSV):
        os.remove(CSV)


def run(*observer):
    seen = []

    def spy(row):
        # what an ordinary downstream step gets to see
        seen.append(tuple(sorted((k, type(v).__name__) for k, v in row.items())))

    with contextlib.redirect_stdout(io.StringIO()):
        rows, _, _ = Flow(load(CSV), *observer, spy, sort_rows('{n}')).results()
    return [r['n'] for r in rows[0]], sorted(set(seen))


cleanup(True)
with open(CSV, 'w') as f:
    f.write('n,price,day\n9,1.5,2020-01-02\n10,2.5,2020-01-03\n100,0.5,2020-01-01\n')

failures = []
try:
    base_order, base_types = run()
    print('WITHOUT observer: downstream sees', base_types)
    print('                  result order after sort_rows("{n}") :', base_order)
    observers = [
        ('dump_to_path', lambda: dump_to_path(OUT)),
        ('dump_to_zip', lambda: dump_to_zip(ZIP)),
        ('validate', lambda: validate()),
        ('printer', lambda: printer()),
        ('checkpoint (first run)', lambda: checkpoint('cp', checkpoint_path=CP)),
        ('finalizer', lambda: finalizer(lambda: None)),
        ('update_stats', lambda: update_stats({'x': 1})),
    ]
    for name, make in observers:
        cleanup()
        order, types = run(make())
        same = (order == base_order and types == base_types)
        print('\nWITH %s: %s' % (name, 'unchanged' if same else 'CHANGED'))
        if not same:
            failures.append(name)
            print('                  downstream sees', types)
            print('                  result order after sort_rows("{n}") :', order)
finally:
    cleanup(True)

print()
print('EXPECTED: rows seen downstream (and the final result) are the same with and without the '
      'pass-through step')
if not failures:
    print('OBSERVED: the same - OK')
    sys.exit(0)
print('OBSERVED: downstream rows / final result differ when inserting:', ', '.join(failures))
sys.exit(1)
