"""C02: a half-outer join (the default mode) copies the 'required' constraint of the source field
(aggregates any / first / last / median) to the target and fills unmatched target rows with nulls."""
import sys

from dataflows import Flow, set_type, join


def steps(mode):
    return [
        [{'code': 'fr', 'country': 'France'}, {'code': 'de', 'country': 'Germany'}],       # res_1: lookup table
        [{'city': 'Paris', 'code': 'fr'}, {'city': 'Oslo', 'code': 'no'}],                 # res_2: to be enriched
        # a valid descriptor: every row of the lookup table must have (and has) a country name
        set_type('country', resources='res_1', type='string', constraints={'required': True}),
        join('res_1', ['code'], 'res_2', ['code'], {'country': None}, mode=mode),
    ]


# control: the inputs conform to their schemas, and an inner join of them is fine
results, dp, _ = Flow(*steps('inner')[:3]).results()
results, dp, _ = Flow(*steps('inner')).results()
print('inner join          :', results[0])

results, dp, _ = Flow(*steps('half-outer')).results(on_error=None)   # no final validation, to look at it
field = [f for f in dp.descriptor['resources'][0]['schema']['fields'] if f['name'] == 'country'][0]
print('half-outer field    :', field)
print('half-outer rows     :', results[0])

failure = None
try:
    Flow(*steps('half-outer')).results()
except Exception as e:
    failure = e

print('EXPECTED: the rows join emits are valid for the schema join declares; results() passes validation')
nulls = [r for r in results[0] if r.get('country') is None]
if failure is not None or (field.get('constraints', {}).get('required') and nulls):
    print('OBSERVED: joined field is declared required=True, yet join itself emits %d unmatched row(s) with '
          'country=None; results() -> %s'
          % (len(nulls), 'ok' if failure is None else 'FAILS: ' + ' '.join(str(failure).split())[:150]))
    sys.exit(1)
print('OBSERVED: rows and schema agree')
sys.exit(0)
