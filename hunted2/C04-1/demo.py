"""C04: a failure at the exhaustion of the resource iterator handed to load((descriptor, resources_iterator))
never surfaces: process() returns normally and a dump placed after the load step is committed."""
import os
import shutil
import sys
import tempfile

from dataflows import Flow, load, dump_to_path, finalizer
from dataflows.base.exceptions import ProcessorError


class Boom(Exception):
    pass


DESCRIPTOR = dict(resources=[dict(
    name='data', path='data.csv', profile='tabular-data-resource',
    schema=dict(fields=[dict(name='a', type='integer')]))])


def resources_iterator():
    # documented load source: (datapackage_descriptor, resources_iterator)
    yield iter([dict(a=1), dict(a=2), dict(a=3)])
    # e.g. the connection the resources are fetched from breaks when asked whether there is more
    raise Boom('source failed when its stream of resources was exhausted')


def failing_callback():
    raise Boom('finalizer callback failed')


def run(label, make_flow, out):
    try:
        _, stats = make_flow().process()
        outcome = 'returned normally (stats: count_of_rows=%r)' % stats.get('count_of_rows')
        ok = False
    except ProcessorError as e:
        outcome = 'ProcessorError, cause=%r' % (e.cause,)
        ok = isinstance(e.cause, Boom)
    committed = os.path.exists(os.path.join(out, 'datapackage.json'))
    print('%-34s %s; %s/datapackage.json %s' % (label, outcome, out, 'COMMITTED' if committed else 'absent'))
    return ok and not committed


def main():
    cwd = os.getcwd()
    tmp = tempfile.mkdtemp()
    os.chdir(tmp)
    try:
        print('expected everywhere: ProcessorError with cause Boom, no datapackage.json')
        good = []
        # control: the same kind of fault (raise at exhaustion) in an ordinary step is reported
        good.append(run('control: finalizer inline', lambda: Flow(
            [dict(a=1)], finalizer(failing_callback), dump_to_path('out0')), 'out0'))
        # 1. the iterator of resources raises once the last resource was handed out
        good.append(run('load((dp, iterator)) raises at end', lambda: Flow(
            load((DESCRIPTOR, resources_iterator())), dump_to_path('out1')), 'out1'))
        # 2. a flow chained through load((dp, res_iter)): its finalizer callback raises at exhaustion
        inner = Flow([dict(a=1), dict(a=2)], finalizer(failing_callback)).datastream()
        good.append(run('chained flow, finalizer raises', lambda: Flow(
            load((inner.dp.descriptor, inner.res_iter)), dump_to_path('out2')), 'out2'))
    finally:
        os.chdir(cwd)
        shutil.rmtree(tmp, ignore_errors=True)
    if all(good):
        print('OK: property holds')
        return 0
    print('VIOLATION: a step failed at exhaustion, yet process() returned normally and the dump after it was committed')
    return 1


if __name__ == '__main__':
    sys.exit(main())
