"""sort_rows with a format-string key: the literal text between the {placeholders}
is silently dropped from the key, so the rows are not ordered by the string the
format string forms (PROCESSORS.md: 'a Python format string used to form the key
(e.g. {<field_name_1>}:{field_name_2})')."""
import sys
from dataflows import Flow, sort_rows

failed = False

rows = [
    {'last': 'li', 'first': 'zoe'},
    {'last': 'lin', 'first': 'adam'},
    {'last': 'li', 'first': 'adam'},
]

for key in ('{last}:{first}', '{last}, {first}', '{last}\t{first}'):
    for reverse in (False, True):
        # the key the format string forms (text fields only -> plain str.format)
        expected = sorted(rows, key=lambda r: key.format(**r), reverse=False)
        if reverse:
            expected = expected[::-1]
        observed = Flow(rows, sort_rows(key, reverse=reverse)).results()[0][0]
        print('key=%r reverse=%s' % (key, reverse))
        print('  expected keys:', [key.format(**r) for r in expected])
        print('  observed keys:', [key.format(**r) for r in observed])
        if observed != expected:
            failed = True

if failed:
    print('VIOLATION: output is not in ascending order of the key formed by the format string')
    sys.exit(1)
print('ok')
