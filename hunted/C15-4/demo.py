"""C15 - select_fields / delete_fields / rename_fields anchor patterns with '^(?:...)$'.
'$' also matches just before a trailing newline, so (even with regex=False) the name 'total'
also hits the distinct field 'total\\n' (a header cell with a trailing line break)."""
import io
import sys
import contextlib
from dataflows import Flow, select_fields, delete_fields, rename_fields

ROW = {'id': 1, 'total': 10, 'total\n': 20}   # 'total' is a prefix of 'total\n'; two distinct fields


def run(step):
    with contextlib.redirect_stdout(io.StringIO()):
        res, dp, _ = Flow([dict(ROW)], step).results()
    return [f['name'] for f in dp.descriptor['resources'][0]['schema']['fields']], res[0][0]


CASES = [
    ("delete_fields(['total'], regex=False)", delete_fields(['total'], regex=False),
     ['id', 'total\n'], {'id': 1, 'total\n': 20}),
    ("select_fields(['total'], regex=False)", select_fields(['total'], regex=False),
     ['total'], {'total': 10}),
]

failed = False
for title, step, exp_fields, exp_row in CASES:
    fields, row = run(step)
    ok = fields == exp_fields and row == exp_row
    print(title)
    print('   expected fields %r row %r' % (exp_fields, exp_row))
    print('   observed fields %r row %r  %s' % (fields, row, 'ok' if ok else 'MISMATCH'))
    failed |= not ok

# rename: the untouched field 'total\n' is renamed although only 'total' was requested
with contextlib.redirect_stdout(io.StringIO()):
    res, dp, _ = Flow([{'id': 1, 'total\n': 20}], rename_fields({'total': 'TOTAL'}, regex=False)).results()
fields = [f['name'] for f in dp.descriptor['resources'][0]['schema']['fields']]
ok = fields == ['id', 'total\n'] and res[0][0] == {'id': 1, 'total\n': 20}
print("rename_fields({'total': 'TOTAL'}, regex=False) on a table with fields ['id', 'total\\n']")
print("   expected fields ['id', 'total\\n'] (nothing named 'total' to rename)")
print('   observed fields %r row %r  %s' % (fields, res[0][0], 'ok' if ok else 'MISMATCH'))
failed |= not ok

if failed:
    print("VIOLATION: a literal field name also matches the different field name with a trailing newline")
    sys.exit(1)
print('OK')
