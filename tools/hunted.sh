#!/bin/bash
# hunted.sh [tree] : re-run every demo of /verif/hunted against a tree (default /repo) and compare with dispositions.json:
# a finding marked "fixed" must pass (exit 0); "known" / "out_of_scope" ones are expected to still show (exit 1).
tree=${1:-/repo}
bad=0
for d in /verif/hunted/C*/; do
  n=$(basename $d)
  st=$(python3 -c "import json;print(json.load(open('/verif/hunted/dispositions.json')).get('$n',{}).get('status','?'))")
  w=/tmp/hunted-$$-$n; mkdir -p $w
  (cd $w && PYTHONPATH=$tree timeout 180 /venv/bin/python $d/demo.py >/dev/null 2>&1); rc=$?
  rm -rf $w
  verdict=ok
  if [ "$st" = fixed ] && [ $rc != 0 ]; then verdict="REGRESSION (marked fixed, demo exit $rc)"; bad=1; fi
  if [ "$st" != fixed ] && [ $rc = 0 ]; then verdict="note: marked $st but the demo passes now"; fi
  echo "$n status=$st demo_exit=$rc $verdict"
done
exit $bad
