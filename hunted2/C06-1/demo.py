"""C06 - parallelize() reads its whole input ahead of the rows it delivers.

A pipeline   counting source -> parallelize(row_func) -> terminal rows function   is row-wise:
parallelize "runs a row processor over multiple processes" (PROCESSORS.md).  The property says the
number of rows pulled from the source ahead of the row being delivered is bounded by a constant
that does not grow with the size of the data.  With parallelize the look-ahead is the whole stream.
"""
import sys
import time

from dataflows import Flow, parallelize

NUM_PROCESSORS = 2
SIZES = (2000, 20000)
# generous constant: inference sample (100) + a fixed allowance per worker / queue hand-over
ALLOWED = 100 + 1000


def work(row):
    row['b'] = row['b'].upper()


def plain(row):
    row['b'] = row['b'].upper()


def measure(n, step):
    state = dict(pulled=0, delivered=0, max_ahead=0, pulled_at_first=None)

    def source():
        for i in range(n):
            state['pulled'] += 1
            yield dict(a=i, b='v%d' % i)

    def terminal(rows):
        for row in rows:
            state['delivered'] += 1
            if state['pulled_at_first'] is None:
                state['pulled_at_first'] = state['pulled']
            if state['delivered'] <= 100:
                # a consumer that needs a little time per row (e.g. writes it somewhere)
                time.sleep(0.005)
            state['max_ahead'] = max(state['max_ahead'], state['pulled'] - state['delivered'])
            yield row

    Flow(source(), step, terminal).process()
    assert state['delivered'] == n, state
    return state


if __name__ == '__main__':
    bad = False
    for n in SIZES:
        base = measure(n, plain)
        par = measure(n, parallelize(work, num_processors=NUM_PROCESSORS))
        print('stream of %6d rows: plain row function   -> max rows read ahead of delivery = %d'
              % (n, base['max_ahead']))
        print('stream of %6d rows: parallelize(row_func) -> max rows read ahead of delivery = %d '
              '(rows already pulled when the 1st row was delivered: %d)'
              % (n, par['max_ahead'], par['pulled_at_first']))
        if par['max_ahead'] > ALLOWED:
            bad = True
    print()
    print('EXPECTED: look-ahead bounded by a constant (<= %d) whatever the stream length' % ALLOWED)
    if bad:
        print('OBSERVED: parallelize pulls (nearly) the whole stream before / while the first rows are '
              'delivered; the look-ahead grows with the stream length -> property C06 violated')
        sys.exit(1)
    print('OBSERVED: look-ahead is bounded')
    sys.exit(0)
