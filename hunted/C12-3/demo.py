"""sort_rows on an integer field: an integer whose magnitude exceeds the float64
range (legal for the unbounded 'integer' type) makes the whole flow fail with
OverflowError instead of being sorted numerically."""
import sys
from dataflows import Flow, sort_rows

HUGE = 10 ** 400
rows = [{'id': 'x', 'v': 7}, {'id': 'y', 'v': HUGE}, {'id': 'z', 'v': -3}, {'id': 'w', 'v': -HUGE}]

# the rows are valid for the pipeline without sort_rows
plain, dp, _ = Flow(rows).results()
print('schema type of v :', dp.descriptor['resources'][0]['schema']['fields'][1]['type'])
print('rows pass as-is  :', plain[0] == rows)

expected = [r['id'] for r in sorted(rows, key=lambda r: r['v'])]
print('expected order   :', expected)

failed = False
for key in ('{v}', ['v']):
    try:
        observed = [r['id'] for r in Flow(rows, sort_rows(key)).results()[0][0]]
    except Exception as e:
        cause = e.__cause__ or e
        observed = 'EXCEPTION %s: %s' % (type(cause).__name__, cause)
    print('observed key=%-6r:' % (key,), observed)
    if observed != expected:
        failed = True

if failed:
    print('VIOLATION: sort_rows did not output the rows in numeric order (it raised)')
    sys.exit(1)
print('ok')
