#!/bin/bash
# seedtry.sh <seed id, e.g. C08-5> [check ids...] : apply the stored patch to a scratch worktree of its base and run the check(s)
id=$1; shift
dir=/verif/seeded/$id
base=$(python3 -c "import json;print(json.load(open('$dir/meta.json')).get('patch_base','HEAD'))")
prop=$(python3 -c "import json;print(json.load(open('$dir/meta.json'))['property'])")
wt=/tmp/st-$$-$id
git -C /repo worktree add -q --detach $wt $base || exit 3
git -C $wt apply $dir/patch.diff || { echo "PATCH DOES NOT APPLY on $base"; git -C /repo worktree remove --force $wt; exit 3; }
for c in ${@:-$prop}; do
  VERIF_REPO=$wt VERIF_EVIDENCE_DIR=/tmp/st-$$-ev /venv/bin/python /verif/vcheck $c --tier ${TIER:-quick} --seed ${SEED:-0} 2>&1 | grep "kind=\|tier=" | cut -c1-${WIDTH:-330}
done
git -C /repo worktree remove --force $wt; rm -rf /tmp/st-$$-ev
