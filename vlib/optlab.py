"""Interpreter-flag differential: the same small pipelines in a normal interpreter and in one with assertions disabled
(python -O); whatever a processor does, it does not do it inside an `assert`."""
import json
import os
import subprocess

from . import boot

SCRIPT = r'''
import json, sys
import dataflows as d
ONLY = set(sys.argv[1].split(','))
F = [{'name': 'id', 'type': 'integer'}, {'name': 'a', 'type': 'string'}, {'name': 'b', 'type': 'integer'}]


def src(name, rows):
    desc = {'resources': [{'name': name, 'path': name + '.csv', 'schema': {'fields': [dict(f) for f in F]}}]}
    return d.load((desc, [iter([dict(r) for r in rows])]), strip=False)


R1 = [{'id': i, 'a': 'x%d' % (i % 3), 'b': (i * 7) % 5} for i in range(6)]
R2 = [{'id': 10 + i, 'a': 'x%d' % (i % 2), 'b': i} for i in range(4)]


def keep(row):
    return row['b'] > 1


def plus(row):
    return row['b'] + 1


PIPES = {
    'select_fields': lambda: [src('r', R1), d.select_fields(['b', 'id'])],
    'delete_fields': lambda: [src('r', R1), d.delete_fields(['a'])],
    'rename_fields': lambda: [src('r', R1), d.rename_fields({'a': 'aa'})],
    'add_field': lambda: [src('r', R1), d.add_field('n', 'integer', plus)],
    'add_computed_field': lambda: [src('r', R1), d.add_computed_field([{'target': 's', 'operation': 'sum', 'source': ['id', 'b']}])],
    'find_replace': lambda: [src('r', R1), d.find_replace([{'name': 'a', 'patterns': [{'find': 'x', 'replace': 'y'}]}])],
    'set_type': lambda: [src('r', R1), d.set_type('a', type='string', constraints={'maxLength': 5})],
    'filter_rows': lambda: [src('r', R1), d.filter_rows(condition=keep)],
    'filter_equals': lambda: [src('r', R1), d.filter_rows(equals=[{'b': 0}], not_equals=[{'a': 'x1'}])],
    'deduplicate': lambda: [src('r', R1), d.set_primary_key(['a']), d.deduplicate()],
    'unpivot': lambda: [src('r', R1), d.unpivot([{'name': 'a', 'keys': {'k': 'A'}}], [{'name': 'k', 'type': 'string'}],
                                               {'name': 'v', 'type': 'string'})],
    'sort_rows': lambda: [src('r', R1), d.sort_rows('{b}{a}', reverse=True)],
    'join': lambda: [src('s', R2), src('t', R1), d.join('s', ['a'], 't', ['a'], {'m': {'name': 'b', 'aggregate': 'max'}})],
    'join_full_outer': lambda: [src('s', R2), src('t', R1), d.join('s', ['b'], 't', ['b'], {'c': {'aggregate': 'count'}},
                                                                 mode='full-outer')],
    'concatenate': lambda: [src('s', R2), src('t', R1), d.concatenate({'id': [], 'a': [], 'b': []}, target={'name': 'c', 'path': 'c.csv'})],
    'duplicate': lambda: [src('r', R1), d.duplicate('r', 'r_copy')],
    'delete_resource': lambda: [src('s', R2), src('t', R1), d.delete_resource('s')],
    'update_resource': lambda: [src('s', R2), src('t', R1), d.update_resource('t', title='T')],
    'update_schema': lambda: [src('r', R1), d.update_schema('r', missingValues=['', 'NA'])],
    'set_primary_key': lambda: [src('s', R2), src('t', R1), d.set_primary_key(['id'], resources='t')],
    'validate': lambda: [src('r', R1), d.validate('b', lambda v: v < 4, on_error=d.schema_validator.drop)],
    'selector_regex': lambda: [src('ab', R2), src('a', R1), d.add_field('z', 'integer', 1, resources='a')],
    'selector_int': lambda: [src('ab', R2), src('a', R1), d.delete_fields(['a'], resources=-1)],
    'load_limit': lambda: [d.load(({'resources': [{'name': 'r', 'path': 'r.csv', 'schema': {'fields': [dict(f) for f in F]}}]},
                                   [iter([dict(r) for r in R1])]), limit_rows=2)],
}
out = {}
for name, mk in PIPES.items():
    if name not in ONLY and 'all' not in ONLY:
        continue
    try:
        res, dp, _ = d.Flow(*mk()).results(on_error=None)
        out[name] = {'rows': res, 'schema': [[r['name'], r['schema'].get('primaryKey'), r['schema'].get('missingValues'),
                                             [[f['name'], f['type'], f.get('constraints')] for f in r['schema']['fields']]]
                                            for r in dp.descriptor['resources']]}
    except Exception as e:
        out[name] = 'RAISED ' + type(getattr(e, 'cause', e)).__name__ + ': ' + str(getattr(e, 'cause', e))[:120]
print('RESULT ' + json.dumps(out, sort_keys=True))
'''


def differential(names, timeout=150):
    """-> (list of (pipeline, normal outcome, optimized outcome) that differ, pipelines compared) or raises RuntimeError
    when a subprocess gave no result (inconclusive)."""
    outs = []
    for flags in ([], ['-O']):
        env = dict(os.environ, PYTHONPATH=boot.REPO)
        env.pop('PYTHONOPTIMIZE', None)
        p = subprocess.run([boot.PY, '-W', 'ignore'] + flags + ['-c', SCRIPT, ','.join(names)], capture_output=True, text=True,
                           timeout=timeout, env=env, cwd=os.getcwd())
        line = next((ln for ln in p.stdout.splitlines() if ln.startswith('RESULT ')), None)
        if line is None:
            raise RuntimeError('no result (%s): %s' % (' '.join(flags) or 'normal', p.stderr[-300:]))
        outs.append(json.loads(line[7:]))
    normal, opt = outs
    diffs = [(k, normal[k], opt.get(k)) for k in sorted(normal) if normal[k] != opt.get(k)]
    return diffs, sorted(normal)


def as_case_result(prop_names, counters, cov_key='optimized_differential'):
    """Helper for the checks: run and wrap into the result structure of a case."""
    viol = []
    try:
        diffs, compared = differential(prop_names)
    except (RuntimeError, subprocess.TimeoutExpired) as e:
        return dict(nontrivial=False, violations=[], counters=counters, cov={}, inconclusive='optimized differential: %s' % e)
    for name, a, b in diffs:
        viol.append({'kind': 'optimized_mode', 'mech': 'optimized_differs/%s' % name,
                     'msg': 'pipeline %s gives another outcome with assertions disabled (python -O): %r, normally %r'
                     % (name, str(b)[:300], str(a)[:300])})
    return dict(nontrivial=True, violations=viol, counters=counters,
                cov={cov_key: {n: 1 for n in compared}}, sample={'optimized_differential': compared})
