"""
C18 - parallelize must deliver EVERY input row exactly once (or fail); only the order may differ.

Rows are handed to the workers through a multiprocessing.Queue.  Queue.put() only appends the row to
a buffer; the row is pickled later, in the queue's feeder thread, and a row that cannot be pickled is
dropped there (multiprocessing prints a traceback to stderr and goes on).  parallelize never notices:
the flow ends 'successfully', with the row missing.  A cell of a field of type 'any' may hold any
Python object (that is what dataflows infers for objects it has no type for); here two of ten rows
carry such a value (a view of dictionary keys, an iterator) in a column the row function does not
even look at.
"""
import sys

from dataflows import Flow, parallelize

N = 10


def source():
    for i in range(N):
        row = {'id': i, 'doubled': None, 'extra': None}
        if i == 4:
            row['extra'] = {'x': 1, 'y': 2}.keys()      # a dict view: cannot be pickled
        if i == 7:
            row['extra'] = (c for c in 'abc')           # an iterator: cannot be pickled
        yield row


def double(row):
    row['doubled'] = row['id'] * 2


def run(step):
    results, package, _ = Flow(source(), step).results()
    types = dict((f['name'], f['type']) for f in package.descriptor['resources'][0]['schema']['fields'])
    return sorted((r['id'], r['doubled']) for r in results[0]), types


if __name__ == '__main__':
    sequential, types = run(double)
    error = None
    try:
        parallel, _ = run(parallelize(double, num_processors=2))
    except Exception as e:          # an error would be acceptable: silence is not
        error = e
    print('declared field types:', types)
    print('expected (sequential row step): %d rows, ids %r' % (len(sequential), [r[0] for r in sequential]))
    if error is not None:
        print('parallelize raised %r - acceptable' % (error,))
        sys.exit(0)
    print('observed (parallelize)        : %d rows, ids %r, no error'
          % (len(parallel), [r[0] for r in parallel]))
    if parallel != sequential:
        missing = sorted(set(sequential) - set(parallel))
        print('VIOLATION: rows %r were never delivered and the flow did not fail' % (missing,))
        sys.exit(1)
    print('no violation observed')
    sys.exit(0)
