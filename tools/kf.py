#!/usr/bin/env python3
"""kf.py fixed <prop> <commit> <slug> <what>   |   kf.py open <prop> <slug> '<match json>' <what>"""
import json, sys, os
P = os.path.join(os.path.dirname(os.path.dirname(os.path.abspath(__file__))), 'known_findings.json')
kf = json.load(open(P))
mode = sys.argv[1]
if mode == 'fixed':
    _, _, prop, commit, slug, what = sys.argv
    kf['findings'].append({'property': prop, 'slug': slug, 'status': 'fixed', 'commit': commit, 'what': what,
                           'line': 'fixed: property=%s %s %s' % (prop, commit, what)})
else:
    _, _, prop, slug, match, what = sys.argv
    kf['findings'].append({'property': prop, 'slug': slug, 'status': 'open', 'match': json.loads(match),
                           'what': what})
json.dump(kf, open(P, 'w'), indent=1)
print(len(kf['findings']), 'entries')
