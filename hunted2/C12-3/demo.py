"""C12: a text key holding an unpaired surrogate sorts fine while the table fits in the
10240-entry cache, but makes sort_rows fail as soon as one row more spills to the sqlite file.

json.loads('"\\ud83d"') (legal JSON) yields such a str; Table Schema's `string` accepts it and
validate() passes it.  The property says the result does not depend on whether the data fits in
the in-memory cache.
"""
import sys
import json
from dataflows import Flow, sort_rows, validate

ODD = json.loads('"\\ud83d"')        # str of length 1, an unpaired (high) surrogate


def table(n):
    yield dict(id=0, s=ODD)
    for i in range(1, n):
        yield dict(id=i, s='k%05d' % (n - i))


failed = False
for n in (10240, 10241):
    expected = [r['id'] for r in sorted(table(n), key=lambda r: r['s'])]   # python str order (code points)
    try:
        out = Flow(table(n), validate(), sort_rows('{s}')).results()[0][0]
        got = [r['id'] for r in out]
        ok = got == expected
        print('%5d rows: expected ids %s...%s, observed %s...%s  %s'
              % (n, expected[:2], expected[-2:], got[:2], got[-2:], 'ok' if ok else 'WRONG'))
        failed |= not ok
    except Exception as e:
        print('%5d rows: expected ids %s...%s, observed EXCEPTION %r' % (n, expected[:2], expected[-2:], getattr(e, 'cause', e)))
        failed = True

if failed:
    print('VIOLATION: the outcome of sort_rows depends on whether the rows fit in the in-memory cache')
    sys.exit(1)
print('no violation')
