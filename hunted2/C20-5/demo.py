"""C20: a field with an 'enum' constraint (or a date field with a 'maximum') makes dump_to_sql
fail on sqlite for perfectly conforming rows."""
import datetime
import os
import shutil
import sqlite3
import sys
import tempfile

from dataflows import Flow, dump_to_sql, set_type, update_resource, validate

tmp = tempfile.mkdtemp()
violated = False


def case(label, rows, field, **field_options):
    global violated
    db = os.path.join(tmp, label + '.db')
    src = [rows, update_resource(-1, name='res'), set_type(field, **field_options)]
    Flow(*src, validate()).process()
    print('%s: rows %r conform to %r (validate() passes)' % (label, rows, field_options))
    print('  expected: dump_to_sql stores the %d rows' % len(rows))
    try:
        Flow(*src, dump_to_sql({'t': {'resource-name': 'res'}}, engine='sqlite:///' + db)).process()
        con = sqlite3.connect(db)
        got = con.execute('select * from t').fetchall()
        con.close()
        print('  observed: table =', got)
        violated |= len(got) != len(rows)
    except Exception as e:
        violated = True
        print('  observed: %s: %s' % (type(e).__name__, str(e).splitlines()[0]))


try:
    case('enum', [{'id': 1, 'size': 'S'}, {'id': 2, 'size': 'L'}], 'size',
         type='string', constraints={'enum': ['S', 'M', 'L']})
    case('date-maximum', [{'id': 1, 'day': datetime.date(2020, 5, 1)}], 'day',
         type='date', constraints={'maximum': '2020-12-31'})
finally:
    shutil.rmtree(tmp, ignore_errors=True)

sys.exit(1 if violated else 0)
