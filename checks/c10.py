"""C10 Resource selectors mean the same thing in every processor.

Oracle: reference selection refmodel.sel (re.fullmatch / list membership / python index) decides
WHICH resources must change; the reference EFFECT on a selected resource is the same processor run
alone on a one-resource package with resources=None (differential), so that this check judges the
selector semantics only. Unselected resources must equal the run without the step.
"""
import copy
import itertools
import json
import os
import re

from vlib import boot, gen, lab, refmodel

PROPERTY = 'C10'
LEVEL = 'exploration'
EXHAUSTIVE = True
RULE = ('full product processor x selector form x name set (seeded sample of name sets per size); '
        'distinct = (processor, selector, names); non-trivial = the reference selection is a proper '
        'non-empty subset of the package and the with-step run was compared resource by resource')
ASSUMPTIONS = [
    'selected-resource effect is taken from the same processor run alone with resources=None',
    'empty selection / out-of-range integer: no-op or a raised error are both accepted',
    'non-consecutive selection for concatenate: the documented assertion is accepted',
]
REQUIRED_COUNTERS = ['resources_compared']      # the matcher contract is an extra monitor (reported, optional)

FIELDS = [{'name': 'id', 'type': 'integer'}, {'name': 'a', 'type': 'string'},
          {'name': 'b', 'type': 'integer'}, {'name': 'c', 'type': 'string'}]


def table(idx):
    base = [(5, 'x y'), (3, 'hello'), (5, 'x'), (8, 'zz'), (1, 'hello'), (3, 'q')]
    return [{'id': idx * 100 + i, 'a': str((i * 7 + idx) % 10), 'b': b + idx, 'c': c}
            for i, (b, c) in enumerate(base)]


def even(v):
    return v % 2 == 0


def keep(row):
    return row['b'] > 3


def bump(row):
    row['b'] += 1000


def upper_c(row):
    return row['c'].upper()


PROCS = ['validate', 'validate_schema', 'deduplicate', 'printer', 'set_type', 'sort_rows',
         'filter_rows', 'unpivot', 'concatenate', 'delete_resource', 'update_resource',
         'update_schema', 'set_primary_key', 'parallelize', 'add_computed_field', 'add_field',
         'find_replace', 'delete_fields', 'select_fields', 'rename_fields', 'load_tuple',
         'load_package', 'checkpoint', 'rename_fields_string_pk']


SEQ_PROCS = ('delete_resource', 'concatenate', 'filter_rows', 'deduplicate', 'sort_rows', 'update_resource', 'printer',
             'set_type')


def build(proc, s, log):
    """-> (pre_steps, step). Fresh objects on every call."""
    d = lab.df()
    pre = []
    if proc == 'validate':
        st = d.validate('b', even, resources=s, on_error=d.schema_validator.drop)
    elif proc == 'validate_schema':
        # make 'a' an integer field holding digit strings: validate() casts them
        pre = [d.update_schema(None, fields=[{'name': 'id', 'type': 'integer'},
                                             {'name': 'a', 'type': 'integer'},
                                             {'name': 'b', 'type': 'integer'},
                                             {'name': 'c', 'type': 'string'}])]
        st = d.validate(resources=s)
    elif proc == 'deduplicate':
        pre = [d.set_primary_key(['b'])]
        st = d.deduplicate(resources=s)
    elif proc == 'printer':
        st = d.printer(resources=s, header_print=lambda name, kw: log.append(name),
                       table_print=lambda data, kw: None)
    elif proc == 'set_type':
        st = d.set_type('a', type='integer', resources=s)
    elif proc == 'sort_rows':
        st = d.sort_rows('{b}', resources=s)
    elif proc == 'filter_rows':
        st = d.filter_rows(condition=keep, resources=s)
    elif proc == 'unpivot':
        st = d.unpivot([{'name': 'a', 'keys': {'k': 'A'}}, {'name': 'c', 'keys': {'k': 'C'}}],
                       [{'name': 'k', 'type': 'string'}], {'name': 'v', 'type': 'string'},
                       resources=s)
    elif proc == 'concatenate':
        st = d.concatenate({'id': [], 'a': [], 'b': [], 'c': []}, target={'name': 'concat'},
                           resources=s)
    elif proc == 'delete_resource':
        st = d.delete_resource(s)
    elif proc == 'update_resource':
        st = d.update_resource(s, title='T', custom={'k': 1})
    elif proc == 'update_schema':
        st = d.update_schema(s, missingValues=['', 'NA'])
    elif proc == 'set_primary_key':
        st = d.set_primary_key(['id'], resources=s)
    elif proc == 'parallelize':
        st = d.parallelize(bump, num_processors=1, resources=s)
    elif proc == 'add_computed_field':
        st = d.add_computed_field([{'target': 'n', 'operation': 'sum', 'source': ['id', 'b']}],
                                  resources=s)
    elif proc == 'add_field':
        st = d.add_field('n', 'string', upper_c, resources=s)
    elif proc == 'find_replace':
        st = d.find_replace([{'name': 'c', 'patterns': [{'find': 'l+', 'replace': 'L'}]}],
                            resources=s)
    elif proc == 'delete_fields':
        st = d.delete_fields(['c'], resources=s)
    elif proc == 'select_fields':
        st = d.select_fields(['b', 'id'], resources=s)
    elif proc == 'rename_fields':
        st = d.rename_fields({'c': 'cc'}, resources=s)
    elif proc == 'rename_fields_string_pk':
        # every resource declares its primary key in the single-name form: the unselected ones keep it as it is
        pre = [d.update_schema(None, primaryKey='id')]
        st = d.rename_fields({'id': 'ident'}, resources=s)
    else:
        raise KeyError(proc)
    return pre, st


def sel_form(s):
    if s is None:
        return 'none'
    if isinstance(s, int):
        return 'int'
    if isinstance(s, list):
        return 'list'
    if re.fullmatch(r'[\w\-]+', s):
        return 'str_exact'
    if s.startswith('(?'):
        return 'str_inline_flag'
    if '|' in s:
        return 'str_alternation'
    return 'str_regex'


def selectors(names):
    k = len(names)
    out = [None, names[0], names[-1], 'a.*', 'a.b', '[ab]+', 'a|ab', '(a|ab)', 'b|a', 'ab?c?',
           re.escape(names[-1]), 'zzz', '(?i)' + names[0].upper(), '(?i)A.*|zzz',
           # a string is ONE pattern, whatever characters it holds (a comma belongs to a quantifier or a class)
           'a{1,1}b{0,1}', '[a,b]+',
           [], [names[0]], list(names), [names[-1], 'nope'], 0, -1, k - 1, -k, k, -k - 1]
    if k > 1:
        out += [1, [names[0], names[-1]], names[:2], [names[1]],
                # a list is a SET of names: its order and repetitions mean nothing (the package order stays)
                list(reversed(names)), [names[-1], names[0], names[-1]]]
    seen, uniq = set(), []
    for s in out:
        key = json.dumps(s)
        if key not in seen:
            seen.add(key)
            uniq.append(s)
    return uniq


def gen_cases(tier, seed):
    # the processors of this property once more with assertions disabled (python -O) against a normal interpreter
    yield {'family': 'optimized_differential', 'idx': 9 * 10 ** 6, 'seed': seed, 'spill': False, 'big': False, 'proc': 'optimized_differential', 'names': ['a'], 'selector': None}
    rng = boot.rng(seed, 'C10', 'names')
    namesets = []
    for k in (1, 2, 3, 4):
        combos = list(itertools.permutations(gen.RES_NAMES[:7], k))
        rng.shuffle(combos)
        n = {'quick': {1: 1, 2: 2, 3: 2, 4: 2}, 'thorough': {1: 3, 2: 10, 3: 14, 4: 14}}[tier][k]
        namesets += [list(c) for c in combos[:n]]
    # always include the prefix/metachar set of the property text
    namesets.append(['a', 'ab', 'abc', 'a.b'])
    namesets.append(['abc', 'a', 'axb', 'ab'])
    for names in namesets:
        for proc in PROCS:
            for s in selectors(names):
                yield {'family': proc, 'proc': proc, 'names': names, 'selector': s}
    # a resource WITHOUT a schema (a non-tabular attachment) travels with the data, unselected
    for proc in PROCS:
        if proc in ('load_tuple', 'load_package', 'checkpoint', 'concatenate', 'rename_fields_string_pk'):
            continue
        for s in ('ab', ['ab'], 'a.', 1, 'a|ab'):
            yield {'family': 'schemaless_neighbour', 'proc': proc, 'names': ['notes', 'ab'], 'selector': s}


def run_schemaless(case):
    proc, s = case['proc'], case['selector']
    d = lab.df()
    counters = {'resources_compared': 0, 'matcher_calls': 0, 'matcher_contract_checked': 0}
    cov = {'proc_x_form': {'schemaless_neighbour/%s/%s' % (proc, sel_form(s)): 1}}
    notes = [{'line': 'first'}, {'line': 'second'}]

    def run(with_step):
        desc = {'resources': [{'name': 'notes', 'path': 'notes.txt'},
                              {'name': 'ab', 'path': 'ab.csv', 'schema': {'fields': copy.deepcopy(FIELDS)}}]}
        pre, st = build(proc, copy.deepcopy(s) if with_step else None, [])
        steps = [d.load((desc, [iter(copy.deepcopy(notes)), iter(table(1))]), strip=False)] + pre + ([st] if with_step else [])
        try:
            with boot.quiet():
                ds = d.Flow(*steps).datastream()
                rows = [list(r) for r in ds.res_iter]
            return copy.deepcopy(ds.dp.descriptor['resources']), rows
        except Exception as e:
            return e, None
    base_desc, base_rows = run(False)
    got_desc, got_rows = run(True)
    if base_rows is None or got_rows is None:
        # a step that cannot run next to a schema-less resource decides nothing here
        return dict(nontrivial=False, violations=[], cov={}, counters=counters)
    viol = []
    counters['resources_compared'] += 1
    gd = next((r for r in got_desc if r['name'] == 'notes'), None)
    if gd != base_desc[0]:
        viol.append({'kind': 'unselected_changed', 'mech': 'schemaless_neighbour/descriptor', 'proc': proc, 'form': sel_form(s),
                     'msg': '%s(resources=%r): descriptor of the unselected schema-less resource changed: %r -> %r'
                     % (proc, s, base_desc[0], gd)})
    elif got_rows[0] != base_rows[0]:
        viol.append({'kind': 'unselected_changed', 'mech': 'schemaless_neighbour/rows', 'proc': proc, 'form': sel_form(s),
                     'msg': '%s(resources=%r): rows of the unselected schema-less resource changed' % (proc, s)})
    return dict(nontrivial=True, violations=viol, cov=cov, counters=counters,
                sample={'names': ['notes', 'ab'], 'selector': s, 'proc': proc})


def legacy_sel(s, names):
    """Selection under the '^'+s+'$' reading (used only to NAME the mechanism of a violation)."""
    try:
        rx = re.compile('^' + s + '$')
    except re.error:
        return None
    return [n for n in names if rx.match(n)]


def run_case(case):
    if case['family'] == 'optimized_differential':
        from vlib import optlab
        return optlab.as_case_result(['selector_regex', 'selector_int', 'update_resource', 'update_schema', 'set_primary_key', 'validate'], {'resources_compared': 0, 'matcher_calls': 0, 'matcher_contract_checked': 0})
    if case['family'] == 'schemaless_neighbour':
        return run_schemaless(case)
    proc, names, s = case['proc'], case['names'], case['selector']
    d = lab.df()
    try:
        rm = boot.module('dataflows.helpers.resource_matcher')
        rm.ResourceMatcher.match, rm.ResourceMatcher.__init__
    except Exception:
        # the helper was renamed / restructured: the function-level contract is skipped, the behavioural oracle stays
        class _Dummy:
            class ResourceMatcher:
                def match(self, name):
                    return None

                def __init__(self, *a, **kw):
                    pass
        rm = _Dummy
    counters = {'resources_compared': 0, 'matcher_calls': 0, 'matcher_contract_checked': 0}
    cov = {'proc_x_form': {}}
    form = sel_form(s)
    viol = []
    tables = {n: table(i) for i, n in enumerate(names)}

    # a third of the cases: all resources are described by ONE schema object (aliasing between selected and
    # unselected resources must not let a step edit the unselected ones)
    shared = boot.rng(case.get('seed', 0), 'C10', 'shared', case.get('idx', 0)).random() < 0.33 and len(names) > 1

    def srcs(only=None):
        if shared and only is None:
            return [lab.shared_source(names, FIELDS, tables)]
        return [lab.source(n, FIELDS, tables[n]) for n in names if only is None or n == only]
    if shared:
        cov['proc_x_form']['resources_share_one_schema_object'] = 1

    try:
        want_sel = refmodel.sel(s, names)
        sel_err = None
    except refmodel.SelError as e:
        want_sel, sel_err = [], str(e)

    # function-level contract on ResourceMatcher.match (installed by the harness)
    contract_bad = []
    orig_match = rm.ResourceMatcher.match
    orig_init = rm.ResourceMatcher.__init__
    arm = {'on': False}
    skey = json.dumps(s)

    def init(self, resources, *a, **kw):
        try:
            self._verif_sel = json.dumps(resources)
        except Exception:
            self._verif_sel = None
        orig_init(self, resources, *a, **kw)

    def match(self, name):
        r = orig_match(self, name)
        counters['matcher_calls'] += 1
        # the contract applies to matchers built from the selector under test only
        if arm['on'] and sel_err is None and name in names \
                and getattr(self, '_verif_sel', None) == skey:
            counters['matcher_contract_checked'] += 1
            if bool(r) != (name in want_sel):
                contract_bad.append((name, bool(r)))
        return r
    rm.ResourceMatcher.match = match
    rm.ResourceMatcher.__init__ = init
    try:
        if proc in ('load_tuple', 'load_package', 'checkpoint'):
            return run_load(case, tables, want_sel, sel_err, counters, cov, form, arm, contract_bad)
        log = []
        pre, _ = build(proc, None, log)
        base = lab.run(srcs() + pre)
        assert base.ok, base.errstr()
        log = []
        pre, st = build(proc, copy.deepcopy(s), log)
        arm['on'] = True
        got = lab.run(srcs() + pre + [st])
        arm['on'] = False
        cov['proc_x_form']['%s/%s' % (proc, form)] = 1
        nonconsecutive = False
        if proc == 'concatenate' and want_sel:
            idx = [names.index(n) for n in want_sel]
            nonconsecutive = idx != list(range(idx[0], idx[0] + len(idx)))
        # an empty selection may be rejected by steps that need a target (set_type ...); concatenate has nothing to do then
        lenient_error = sel_err is not None or (not want_sel and proc != 'concatenate') or nonconsecutive

        def v(kind, msg, **kw):
            mech = None
            if isinstance(s, str) and '|' in s:
                leg = legacy_sel(s, names)
                if leg is not None and leg != want_sel:
                    mech = 'alternation_anchor'
            rec = {'kind': kind, 'mech': mech, 'proc': proc, 'form': form, 'msg': msg}
            rec.update(kw)
            if rec['mech'] is None:
                rec['mech'] = '/'.join(str(x) for x in (proc, form, kw.get('exc') or kw.get('role')) if x)
            viol.append(rec)

        if not got.ok:
            if not lenient_error:
                v('unexpected_error', '%s(resources=%r) on %r: %s' % (proc, s, names, got.errstr()),
                  exc=type(getattr(got.exc, 'cause', got.exc)).__name__)
            return dict(nontrivial=False, violations=viol, cov=cov, counters=counters)

        # expected package
        bb = base.by_name()
        exp_order, exp = list(base.names), {}
        if sel_err is not None:
            want_sel = []
        if proc == 'delete_resource':
            exp_order = [n for n in base.names if n not in want_sel]
            exp = {n: bb[n] for n in exp_order}
        elif proc == 'concatenate':
            if want_sel:
                first = names.index(want_sel[0])
                exp_order = names[:first] + ['concat'] + [n for n in names[first:] if n not in want_sel]
                exp = {n: bb[n] for n in exp_order if n != 'concat'}
                exp['concat'] = (None, [r for n in want_sel for r in bb[n][1]])
            else:
                # no selected resource: implementation appends an empty target; accept either
                exp_order = None
        else:
            for n in names:
                if n in want_sel:
                    log2 = []
                    pre1, st1 = build(proc, None, log2)
                    alone = lab.run(srcs(n) + pre1 + [st1])
                    assert alone.ok, alone.errstr()
                    exp[n] = alone.by_name()[n]
                else:
                    exp[n] = bb[n]
        if exp_order is not None:
            if got.names != exp_order:
                v('resource_set', '%s(resources=%r) on %r: resources %r expected %r'
                  % (proc, s, names, got.names, exp_order))
            else:
                gg = got.by_name()
                for n in exp_order:
                    counters['resources_compared'] += 1
                    edesc, erows = exp[n]
                    gdesc, grows = gg[n]
                    diffs = lab.rows_diff(erows, grows)
                    if edesc is not None and edesc != gdesc:
                        diffs.append('descriptor expected %r got %r' % (edesc, gdesc))
                    if diffs:
                        role = 'selected' if (n in want_sel or n == 'concat') else 'unselected'
                        v('resource_content', '%s(resources=%r) on %r: %s resource %r: %s'
                          % (proc, s, names, role, n, '; '.join(diffs)[:600]), role=role)
            if proc == 'printer' and sorted(log) != sorted(want_sel):
                v('printer_selection', 'printer(resources=%r) on %r printed %r expected %r'
                  % (s, names, log, want_sel))
        if contract_bad and not viol:
            v('matcher_contract', 'ResourceMatcher(%r).match disagreed with reference on %r'
              % (s, contract_bad[:4]))
        # the same step over a SEQUENTIAL single-handle source (unstream of one ndjson text): resources that are
        # skipped or dropped must still be read past, or the following ones receive their rows
        if proc in SEQ_PROCS and got.ok and not viol:
            import io
            buf = io.StringIO()

            class Keep(io.StringIO):
                def close(self):
                    pass
            sink = Keep()
            with boot.quiet():
                d.Flow(*(srcs() + [d.stream(sink)])).process()
            log3 = []
            pre3, st3 = build(proc, copy.deepcopy(s), log3)
            got3 = lab.run([d.unstream(io.StringIO(sink.getvalue()))] + pre3 + [st3])
            cov['proc_x_form']['%s/%s/unstream' % (proc, form)] = 1
            if got3.ok != got.ok or (got3.ok and (got3.names != got.names or any(
                    lab.rows_diff(a, b, 1) for a, b in zip(got.results, got3.results)))):
                dd = 'failed: %s' % got3.errstr() if not got3.ok else next(
                    ('resource %s: %s' % (n, lab.rows_diff(a, b, 1)[0]) for n, a, b in
                     zip(got.names, got.results, got3.results) if lab.rows_diff(a, b, 1)), 'resource names %r' % got3.names)
                v('sequential_source', '%s(resources=%r) on %r gives a different result when the package is read from one '
                  'sequential stream (unstream): %s' % (proc, s, names, dd[:300]))
        # the SAME step object used again, on a package whose resources come in another order: a positional selector
        # means the position in the package at hand (nothing learnt from the first package may stick to the object)
        if isinstance(s, int) and len(names) > 1 and got.ok and not viol and proc != 'parallelize':
            names2 = names[1:] + names[:1]
            srcs2 = lambda: [lab.source(n, FIELDS, tables[n]) for n in names2]      # noqa: E731
            log4, log5 = [], []
            pre4, _ = build(proc, copy.deepcopy(s), log4)
            again = lab.run(srcs2() + pre4 + [st])
            pre5, st5 = build(proc, copy.deepcopy(s), log5)
            fresh = lab.run(srcs2() + pre5 + [st5])
            cov['proc_x_form']['%s/int/step_object_reused_on_another_package' % proc] = 1
            counters['resources_compared'] += len(names2)
            if again.ok != fresh.ok or (fresh.ok and (again.names != fresh.names or again.dp != fresh.dp or any(
                    lab.rows_diff(a, b, 1) for a, b in zip(fresh.results, again.results)))):
                v('step_object_reuse', '%s(resources=%r): the step object used on %r and then on %r gives there %s, a fresh '
                  'step %s' % (proc, s, names, names2,
                               again.errstr() if not again.ok else [(n, len(r)) for n, r in zip(again.names, again.results)],
                               fresh.errstr() if not fresh.ok else [(n, len(r)) for n, r in zip(fresh.names, fresh.results)]),
                  role='reused_step_object')
        nontrivial = 0 < len(want_sel) < len(names)
        sample = {'names': names, 'selector': s, 'proc': proc, 'reference_selection': want_sel}
        return dict(nontrivial=nontrivial, violations=viol, cov=cov, counters=counters,
                    sample=sample)
    finally:
        rm.ResourceMatcher.match = orig_match
        rm.ResourceMatcher.__init__ = orig_init


def run_load(case, tables, want_sel, sel_err, counters, cov, form, arm, contract_bad):
    proc, names, s = case['proc'], case['names'], case['selector']
    d = lab.df()
    viol = []
    cov['proc_x_form']['%s/%s' % (proc, form)] = 1
    desc = {'name': 'pkg', 'resources': [
        {'name': n, 'path': n + '.csv', 'profile': 'tabular-data-resource',
         'schema': {'fields': copy.deepcopy(FIELDS)}} for n in names]}
    if proc == 'checkpoint':
        # documented: 'Limit the checkpointing only to specific resources, same semantics as load'
        step = d.Flow(*[lab.source(n, FIELDS, tables[n]) for n in names],
                      d.checkpoint('cp', resources=copy.deepcopy(s)))
    elif proc == 'load_tuple':
        step = d.load((desc, [iter(copy.deepcopy(tables[n])) for n in names]),
                      resources=copy.deepcopy(s), strip=False)
    else:
        with boot.quiet():
            d.Flow(*[lab.source(n, FIELDS, tables[n]) for n in names],
                   d.dump_to_path('pkg')).process()
        step = d.load('pkg/datapackage.json', resources=copy.deepcopy(s), strip=False)
    # the flow already holds a resource under the name of a SELECTED resource (the loaded one gets a free name): the
    # selection, and the rows of every selected resource, stay what the selector says
    taken = None
    pre_ = []
    if proc in ('load_tuple', 'load_package') and want_sel and sel_err is None and \
            boot.rng(case.get('seed', 0), 'C10', 'taken', proc, json.dumps(s), ','.join(names)).random() < 0.3:
        taken = want_sel[len(want_sel) // 2]
        pre_ = [lab.source(taken, [{'name': 'z', 'type': 'integer'}], [{'z': 1}])]
        cov['proc_x_form']['%s/%s/selected_name_already_in_the_flow' % (proc, form)] = 1
    arm['on'] = True
    got = lab.run(pre_ + [step], validate=True)
    arm['on'] = False

    def v(kind, msg, **kw):
        mech = None
        if isinstance(s, str) and '|' in s:
            leg = legacy_sel(s, names)
            if leg is not None and leg != want_sel:
                mech = 'alternation_anchor'
        rec = dict({'kind': kind, 'mech': mech, 'proc': proc, 'form': form, 'msg': msg}, **kw)
        if rec['mech'] is None:
            rec['mech'] = '/'.join(str(x) for x in (proc, form, kw.get('exc')) if x)
        viol.append(rec)
    if not got.ok:
        if sel_err is None and want_sel:
            v('unexpected_error', '%s(resources=%r) on %r: %s' % (proc, s, names, got.errstr()),
              exc=type(getattr(got.exc, 'cause', got.exc)).__name__)
        return dict(nontrivial=False, violations=viol, cov=cov, counters=counters)
    if sel_err is not None:
        want_sel = []
    if taken:
        if len(got.names) != len(want_sel) + 1 or [n for n in got.names[1:] if n != taken and n in want_sel] != \
                [n for n in want_sel if n != taken] or len(set(got.names)) != len(got.names):
            v('resource_set', '%s(resources=%r) on %r with %r already in the flow: resources %r, expected the selected %r after it'
              % (proc, s, names, taken, got.names, want_sel))
        else:
            for n, rows in zip(want_sel, got.results[1:]):
                counters['resources_compared'] += 1
                diffs = lab.rows_diff(tables[n], rows)
                if diffs:
                    v('resource_content', '%s(resources=%r) with %r already in the flow: resource %r: %s'
                      % (proc, s, taken, n, diffs))
        return dict(nontrivial=0 < len(want_sel) < len(names), violations=viol, cov=cov, counters=counters,
                    sample={'names': names, 'selector': s, 'proc': proc, 'reference_selection': want_sel, 'taken': taken})
    if got.names != want_sel:
        v('resource_set', '%s(resources=%r) on %r loaded %r expected %r'
          % (proc, s, names, got.names, want_sel))
    else:
        for n, rows in zip(got.names, got.results):
            counters['resources_compared'] += 1
            diffs = lab.rows_diff(tables[n], rows)
            if diffs:
                v('resource_content', '%s(resources=%r): resource %r: %s' % (proc, s, n, diffs))
    if proc == 'checkpoint' and not viol:
        # what was stored is what the selector names, and the run that resumes from it sees the same
        stored = []
        try:
            with open(os.path.join('.checkpoints', 'cp', 'stream.ndjson')) as f:
                stored = [r['name'] for r in json.loads(f.readline())['resources']]
        except Exception as e:
            stored = 'unreadable: %s' % e
        if stored != want_sel:
            v('checkpoint_stored_resources', 'checkpoint(resources=%r) on %r stored %r expected %r' % (s, names, stored, want_sel))
        again = lab.run([d.Flow(*[lab.source(n, FIELDS, [dict(r, c='changed') for r in tables[n]]) for n in names],
                                d.checkpoint('cp', resources=copy.deepcopy(s)))], validate=True)
        if not again.ok or again.names != got.names or any(lab.rows_diff(a, b, 1) for a, b in zip(got.results, again.results)):
            v('checkpoint_resumed', 'checkpoint(resources=%r) on %r: the resumed run gives %s' % (
                s, names, again.names if again.ok else again.errstr()))
    if contract_bad and not viol:
        v('matcher_contract', 'ResourceMatcher(%r).match disagreed with reference on %r'
          % (s, contract_bad[:4]))
    return dict(nontrivial=0 < len(want_sel) < len(names), violations=viol, cov=cov,
                counters=counters,
                sample={'names': names, 'selector': s, 'proc': proc, 'reference_selection': want_sel})
