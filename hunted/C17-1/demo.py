"""C17: deduplicate mis-reads a primary key that is declared as a single string.

The Table Schema spec allows `primaryKey` to be either a list of field names or a single
string (`"primaryKey": "code"`).  deduplicate() iterates over the value, i.e. over the
CHARACTERS of the string, so it either de-duplicates on the wrong fields (silently dropping
rows whose real key is distinct) or crashes with a KeyError.
"""
import csv
import json
import os
import shutil
import sys
import tempfile

from dataflows import Flow, load, deduplicate, update_schema

failed = False


def report(title, expected, observed):
    global failed
    ok = expected == observed
    failed = failed or not ok
    print('--- ' + title)
    print('expected:', expected)
    print('observed:', observed)
    print('OK' if ok else 'VIOLATION')


def first_of_each(rows, key_fields):
    seen, out = set(), []
    for row in rows:
        key = tuple(row[k] for k in key_fields)
        if key not in seen:
            seen.add(key)
            out.append(row)
    return out


tmp = tempfile.mkdtemp(prefix='c17-strpk-')
try:
    # -- case 1: data package loaded from disk, "primaryKey": "xy" ---------------------------
    rows = [
        # the key 'xy' is unique, so the package is valid and deduplicate() must be a no-op
        {'xy': 'k1', 'x': 1, 'y': 1, 'payload': 'only k1'},
        {'xy': 'k2', 'x': 1, 'y': 1, 'payload': 'only k2'},
        {'xy': 'k3', 'x': 2, 'y': 2, 'payload': 'only k3'},
        {'xy': 'k4', 'x': 1, 'y': 1, 'payload': 'only k4'},
    ]
    with open(os.path.join(tmp, 'data.csv'), 'w', newline='') as f:
        w = csv.DictWriter(f, ['xy', 'x', 'y', 'payload'])
        w.writeheader()
        w.writerows(rows)
    with open(os.path.join(tmp, 'datapackage.json'), 'w') as f:
        json.dump({
            'name': 'p',
            'resources': [{
                'name': 'data', 'path': 'data.csv',
                'schema': {
                    'fields': [
                        {'name': 'xy', 'type': 'string'},
                        {'name': 'x', 'type': 'integer'},
                        {'name': 'y', 'type': 'integer'},
                        {'name': 'payload', 'type': 'string'},
                    ],
                    'primaryKey': 'xy',     # valid Table Schema: a single string
                },
            }],
        }, f)

    expected = first_of_each(rows, ['xy'])
    try:
        results, dp, _ = Flow(load(os.path.join(tmp, 'datapackage.json')), deduplicate()).results()
        observed = results[0]
        print('primaryKey seen by deduplicate:', repr(dp.descriptor['resources'][0]['schema'].get('primaryKey')))
    except Exception as e:
        observed = 'exception: %r' % (e,)
    report('load(datapackage with "primaryKey": "xy") + deduplicate()', expected, observed)

    # -- case 2: in-memory rows, key declared through update_schema --------------------------
    rows2 = [{'id': 1, 'v': 'a'}, {'id': 1, 'v': 'b'}, {'id': 2, 'v': 'c'}]
    expected2 = first_of_each(rows2, ['id'])
    try:
        observed2 = Flow(rows2, update_schema(-1, primaryKey='id'), deduplicate()).results()[0][0]
    except Exception as e:
        observed2 = 'exception: %r' % (e,)
    report("update_schema(primaryKey='id') + deduplicate()", expected2, observed2)
finally:
    shutil.rmtree(tmp, ignore_errors=True)

sys.exit(1 if failed else 0)
