"""fault-lab: faulty steps that raise a chosen exception INSTANCE at a chosen phase, and source-free
failpoints (sys.monitoring LINE events) inside the built-in processors."""
import ast
import os
import sys

import tableschema.exceptions as tse

from . import boot, lab


class PrivateError(Exception):
    pass


class ErrorsMethodError(Exception):
    """a third-party exception whose `errors` is a METHOD (the pydantic style), not tableschema's list attribute"""
    def errors(self):
        return [{'loc': ('x',), 'msg': 'bad'}]


class ErrorsCountError(Exception):
    """... or a count"""
    errors = 3


def make_exception(cls_name, tag):
    d = lab.df()
    if cls_name == 'ValueError':
        return ValueError('injected ' + tag)
    if cls_name == 'KeyError':
        return KeyError('injected ' + tag)
    if cls_name == 'TypeError':
        return TypeError('injected ' + tag)
    if cls_name == 'IndexError':
        return IndexError('injected ' + tag)
    if cls_name == 'AttributeError':
        return AttributeError('injected ' + tag)
    if cls_name == 'ArithmeticError':
        return ArithmeticError('injected ' + tag)
    if cls_name == 'AssertionError':
        return AssertionError('injected ' + tag)
    if cls_name == 'PrivateError':
        return PrivateError('injected ' + tag)
    if cls_name == 'RuntimeError':
        return RuntimeError('injected ' + tag)
    if cls_name == 'OSError':
        return OSError(5, 'injected ' + tag)
    if cls_name == 'CastError':
        return tse.CastError('injected ' + tag)
    if cls_name == 'CastError_with_errors':
        return tse.CastError('injected ' + tag, errors=[tse.CastError('inner 1'), tse.CastError('inner 2')])
    if cls_name == 'TSValidationError':
        return tse.ValidationError('injected ' + tag)
    if cls_name == 'UniqueKeyError':
        return tse.UniqueKeyError('injected ' + tag)
    if cls_name == 'StopIteration':
        # e.g. a bare next() on an exhausted iterator inside a user step; inside generators PEP 479 turns it into a
        # RuntimeError whose __cause__ is this instance (accepted as "wrapped")
        return StopIteration('injected ' + tag)
    if cls_name == 'UnicodeDecodeError':
        # what a source that decodes as it reads raises on bad bytes (the reader underneath has a wrapper of its own for it)
        return UnicodeDecodeError('utf-8', b'\xff' + tag.encode()[:8], 0, 1, 'injected ' + tag)
    if cls_name == 'UnicodeEncodeError':
        return UnicodeEncodeError('ascii', 'ż' + tag[:8], 0, 1, 'injected ' + tag)
    if cls_name == 'ErrorsMethodError':
        return ErrorsMethodError('injected ' + tag)
    if cls_name == 'ErrorsCountError':
        return ErrorsCountError('injected ' + tag)
    if cls_name == 'DFValidationError':
        return d.ValidationError('res', {'a': 1}, 0, tse.CastError('inner'))
    raise KeyError(cls_name)


CLASSES = ['ValueError', 'KeyError', 'AssertionError', 'PrivateError', 'RuntimeError', 'OSError', 'CastError',
           'CastError_with_errors', 'TSValidationError', 'UniqueKeyError', 'DFValidationError', 'StopIteration',
           'UnicodeDecodeError', 'UnicodeEncodeError', 'ErrorsMethodError', 'ErrorsCountError']

SHAPES = ['package_fn', 'rows_fn', 'row_fn', 'processor']


class Fault:
    """One planned fault. phase: 'package' | ('row', j, k) | ('exhaust', j) | 'after_last'."""

    def __init__(self, exc, phase, shape):
        self.exc, self.phase, self.shape = exc, phase, shape
        self.fired = False

    def fire(self):
        self.fired = True
        raise self.exc

    def step(self):
        f = self
        d = lab.df()
        ph = self.phase
        shape = self.shape
        if shape == 'row_fn' and isinstance(ph, tuple) and ph[0] == 'row':
            # a row function has no notion of resources: it counts rows per resource through a side channel
            state = {'res': -1, 'n': 0}

            def marker(package):
                yield package.pkg
                for j, res in enumerate(package):
                    def it(res=res, j=j):
                        state['res'], state['n'] = j, 0
                        for row in res:
                            yield row
                    yield it()

            def faulty_row(row):
                if state['res'] == ph[1] and state['n'] == ph[2]:
                    f.fire()
                state['n'] += 1
            return [marker, faulty_row]
        if shape == 'rows_fn' and isinstance(ph, tuple):
            state = {'res': -1}

            def faulty_rows(rows):
                state['res'] += 1
                j = state['res']
                n = 0
                for row in rows:
                    if ph[0] == 'row' and j == ph[1] and n == ph[2]:
                        f.fire()
                    n += 1
                    yield row
                if ph[0] == 'exhaust' and j == ph[1]:
                    f.fire()
            return [faulty_rows]
        if shape == 'processor':
            class FaultyProcessor(d.DataStreamProcessor):
                def process_datapackage(self, dp):
                    if ph == 'package':
                        f.fire()
                    return dp

                def process_resources(self, resources):
                    for j, res in enumerate(resources):
                        yield self._res(j, res)
                    if ph == 'after_last':
                        f.fire()

                def _res(self, j, res):
                    n = 0
                    for row in res:
                        if isinstance(ph, tuple) and ph[0] == 'row' and j == ph[1] and n == ph[2]:
                            f.fire()
                        n += 1
                        yield row
                    if isinstance(ph, tuple) and ph[0] == 'exhaust' and j == ph[1]:
                        f.fire()
            return [FaultyProcessor()]

        def faulty(package):
            if ph == 'package':
                f.fire()
            yield package.pkg
            for j, res in enumerate(package):
                def it(res=res, j=j):
                    n = 0
                    for row in res:
                        if isinstance(ph, tuple) and ph[0] == 'row' and j == ph[1] and n == ph[2]:
                            f.fire()
                        n += 1
                        yield row
                    if isinstance(ph, tuple) and ph[0] == 'exhaust' and j == ph[1]:
                        f.fire()
                yield it()
            if ph == 'after_last':
                f.fire()
        return [faulty]


def classify(err, injected):
    """-> (verdict, detail) for an exception raised by process()/results()."""
    d = lab.df()
    PE = boot.module('dataflows.base.exceptions').ProcessorError
    if not isinstance(err, PE):
        return 'not_processor_error', '%s: %s' % (type(err).__name__, str(err)[:200])
    c = err.cause
    if c is injected:
        return 'ok', ''
    seen, cur = 0, c
    while cur is not None and seen < 4:
        if cur is injected:
            return 'ok_wrapped', type(c).__name__
        cur = cur.__cause__ or cur.__context__
        seen += 1
    return 'wrong_cause', '%s: %s' % (type(c).__name__, str(c)[:200])


# ---- source-free failpoints -------------------------------------------------------------------------

TOOL = 3


def _try_lines(path, body_only=False):
    """line numbers lexically inside a try body / handler / finally of the file (excluded from failpoints:
    an exception injected there may legitimately be handled by the library itself)."""
    out = set()
    try:
        tree = ast.parse(open(path).read())
    except Exception:
        return out
    for node in ast.walk(tree):
        if isinstance(node, ast.Try):
            for sub in (node.body if body_only else
                        node.body + [h for h in node.handlers] + node.finalbody + node.orelse):
                for n in ast.walk(sub):
                    if hasattr(n, 'lineno'):
                        out.add(n.lineno)
    return out


class Failpoints:
    """Counts LINE events in /repo/dataflows/{processors,helpers}/** ; optionally raises at the n-th."""

    def __init__(self, exclude_files=('parallelize.py',)):
        root = os.path.join(boot.REPO, 'dataflows')
        self.prefixes = (os.path.join(root, 'processors') + os.sep, os.path.join(root, 'helpers') + os.sep)
        self.exclude = exclude_files
        self.count = 0
        self.target = None
        self.exc = None
        self.fired_at = None
        self.sites = {}
        self._try = {}
        self._body = {}
        self.armed = False
        self.handled_in = None

    def _handled(self, code, offset, exc):
        # the library's own except clause caught the injected exception
        if exc is self.exc and self.handled_in is None:
            self.handled_in = (os.path.relpath(code.co_filename, boot.REPO), code.co_name)

    def _cb(self, code, line):
        fn = code.co_filename
        if not fn.startswith(self.prefixes) or os.path.basename(fn) in self.exclude:
            return sys.monitoring.DISABLE
        if not self.armed:
            return None
        if code.co_name in ('__init__', '__call__', '<module>', '_preprocess_chain', 'handle_flow_checkpoint'):
            return None     # step construction / chain building, not "a step raises"
        tl = self._try.get(fn)
        if tl is None:
            tl = self._try[fn] = _try_lines(fn)
        if line in tl:
            return None
        # dynamic extent: a caller frame inside dataflows/{processors,helpers} that is executing the BODY of a try
        # statement may legitimately handle the exception (e.g. join's `try: create_extra_by_key(key)`): skip
        fr = sys._getframe(1).f_back
        while fr is not None:
            ffn = fr.f_code.co_filename
            if fr.f_code.co_name in ('_preprocess_chain', 'handle_flow_checkpoint', '_chain', '__init__'):
                return None     # chain building / step construction is on the stack

            if ffn.startswith(self.prefixes):
                bl = self._body.get(ffn)
                if bl is None:
                    bl = self._body[ffn] = _try_lines(ffn, body_only=True)
                if fr.f_lineno in bl:
                    return None
            fr = fr.f_back
        self.count += 1
        if self.target is not None and self.count == self.target and self.fired_at is None:
            self.fired_at = (os.path.relpath(fn, boot.REPO), code.co_name, line)
            raise self.exc
        return None

    def __enter__(self):
        m = sys.monitoring
        m.use_tool_id(TOOL, 'verif-failpoints')
        m.register_callback(TOOL, m.events.LINE, self._cb)
        m.set_events(TOOL, m.events.LINE)
        return self

    def __exit__(self, *a):
        m = sys.monitoring
        m.set_events(TOOL, 0)
        m.register_callback(TOOL, m.events.LINE, None)
        m.free_tool_id(TOOL)
        m.restart_events()
