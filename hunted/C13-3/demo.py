"""C13 - load(limit_rows=0) does not limit anything: it streams ALL rows.

limit_rows=n is documented as 'how many rows of the source to stream' and
None as 'no limit'.  For n = 1, 2, 3 ... exactly the first n rows arrive,
but for n = 0 the whole file arrives instead of zero rows.
"""
import os
import sys
import tempfile
import shutil

from dataflows import Flow, load

workdir = tempfile.mkdtemp(prefix='c13-limit-')
failed = False
try:
    path = os.path.join(workdir, 'table.csv')
    data = [('r%d' % i, str(i)) for i in range(5)]
    with open(path, 'w', newline='', encoding='utf-8') as f:
        f.write('k,v\n' + ''.join('%s,%s\n' % kv for kv in data))

    for n in (3, 2, 1, 0):
        raw = []

        def capture(rows):
            for row in rows:
                raw.append(dict(row))
                yield row

        Flow(load(path, limit_rows=n, infer_strategy=load.INFER_STRINGS), capture).process()
        expected = [dict(k=k, v=v) for k, v in data[:n]]
        ok = raw == expected
        print('limit_rows=%d: expected %d row(s), observed %d row(s) %s'
              % (n, len(expected), len(raw), 'ok' if ok else '<-- VIOLATION'))
        if not ok:
            print('   expected rows:', expected)
            print('   observed rows:', raw)
            failed = True
finally:
    shutil.rmtree(workdir, ignore_errors=True)

sys.exit(1 if failed else 0)
