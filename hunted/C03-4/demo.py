"""C03: a field whose name starts or ends with whitespace (legal Table Schema name, e.g. a key
'Station ' coming from a scraped dict / SQL column / spreadsheet export) is written correctly, but
the dumped package does not load back:
  * format='json': load() silently returns None for EVERY value of that column,
  * format='csv' : load() raises "Table headers don't match schema field names".
"""
import json
import logging
import os
import shutil
import sys
import tempfile

from dataflows import Flow, dump_to_path, dump_to_zip, load, set_type, set_primary_key, update_resource

logging.disable(logging.CRITICAL)
workdir = tempfile.mkdtemp(prefix='c03-names-')
ROWS = [{'id': 1, 'Station ': 'Alpha', ' level': 10}, {'id': 2, 'Station ': 'Beta', ' level': 20}]


def source():
    return [
        [dict(r) for r in ROWS],
        update_resource(-1, name='levels', path='levels.csv'),
        set_type('id', type='integer'),
        set_type('Station ', type='string'),
        set_type(' level', type='integer'),
        set_primary_key(['Station ']),
    ]


failed = False
try:
    for fmt in ('json', 'csv'):
        for kind in ('path', 'zip'):
            out = os.path.join(workdir, 'out_%s_%s' % (fmt, kind))
            if kind == 'path':
                dumper, src, kw = dump_to_path(out, format=fmt), os.path.join(out, 'datapackage.json'), {}
            else:
                dumper, src, kw = dump_to_zip(out + '.zip', format=fmt), out + '.zip', dict(format='datapackage')
            entered = Flow(*source(), dumper).results()[0][0]
            print('format=%s via %s' % (fmt, kind))
            if kind == 'path':
                desc = json.load(open(src))['resources'][0]
                print('  written schema fields:', [f['name'] for f in desc['schema']['fields']],
                      'primaryKey:', desc['schema'].get('primaryKey'))
                print('  written data file    :', repr(open(os.path.join(out, desc['path']), newline='').read()))
            print('  expected (entered dumper):', entered)
            try:
                loaded = Flow(load(src, strip=False, **kw)).results()[0][0]
                print('  observed (load())        :', loaded)
                if loaded != entered:
                    failed = True
            except Exception as e:
                failed = True
                print('  observed (load())        : raises %s: %s' % (type(e).__name__, str(e).strip().splitlines()[-1]))
finally:
    shutil.rmtree(workdir, ignore_errors=True)

if failed:
    print('VIOLATION: field names / values of the dumped package are not what load() gives back')
    sys.exit(1)
print('no violation observed')
sys.exit(0)
