#!/usr/bin/env python3
"""seedstore.py : final pass over /tmp/seedwork/out/<Cxx>/<n>: confirm (demo on both trees), run the property's check
against a scratch worktree carrying the patch, and store everything under /verif/seeded/<Cxx>-<n>/ (patch.diff, demo.py,
meta.json). Test-suite confirmations are taken from the logs of tools/seedeval.sh / seedtests.sh (argument 2)."""
import json, os, re, shutil, subprocess, sys, tempfile

OUT = os.environ.get('SEED_OUT', '/tmp/seedwork/out')
OFFSET = int(os.environ.get('SEED_OFFSET', '0'))
BASES = json.loads(os.environ.get('SEED_BASES', '{}'))
MISSED_FIRST = json.loads(sys.argv[2]) if len(sys.argv) > 2 else {}
tests = {}
for log in os.environ.get('SEED_TESTLOGS', '/tmp/seedtests.log,/tmp/seedeval1.log').split(','):
    if not os.path.exists(log):
        continue
    cur = None
    for line in open(log):
        m = re.match(r'^(C\d\d/\d).*?:.*?(\d+ failed, \d+ passed)', line)
        if m:
            tests[m.group(1)] = m.group(2)
        m = re.match(r'^== /tmp/seedwork/out/(C\d\d/\d)', line)
        if m:
            cur = m.group(1)
        m = re.match(r'^tests: (\d+ failed, \d+ passed)', line)
        if m and cur:
            tests[cur] = m.group(1)
only = sys.argv[1].split(',') if len(sys.argv) > 1 and sys.argv[1] != 'all' else None
rows = []
for prop in sorted(os.listdir(OUT)):
    for n in sorted(os.listdir(os.path.join(OUT, prop))):
        sid = '%s/%s' % (prop, n)
        if only and sid not in only:
            continue
        src = os.path.join(OUT, prop, n)
        if not os.path.exists(os.path.join(src, 'patch.diff')):
            continue
        meta = json.load(open(os.path.join(src, 'meta.json')))
        wt = tempfile.mkdtemp(prefix='ss-')
        os.rmdir(wt)
        base = BASES.get(sid, 'HEAD')
        subprocess.run(['git', '-C', '/repo', 'worktree', 'add', '-q', '--detach', wt, base], check=True)
        orig = '/repo'
        if base != 'HEAD':
            orig = tempfile.mkdtemp(prefix='sso-'); os.rmdir(orig)
            subprocess.run(['git', '-C', '/repo', 'worktree', 'add', '-q', '--detach', orig, base], check=True)
        try:
            ap = subprocess.run(['git', '-C', wt, 'apply', os.path.join(src, 'patch.diff')])
            if ap.returncode != 0:
                print(sid, 'patch does not apply on HEAD')
                continue
            res = {}
            for label, tree in (('original', orig), ('patched', wt)):
                d = tempfile.mkdtemp(prefix='ssd-')
                r = subprocess.run(['/venv/bin/python', os.path.join(src, 'demo.py')], cwd=d, capture_output=True, text=True,
                                   env=dict(os.environ, PYTHONPATH=tree), timeout=180)
                res[label] = r.returncode
                if label == 'patched':
                    res['patched_message'] = (r.stdout + r.stderr).strip().splitlines()[-1][:300] if (r.stdout + r.stderr).strip() else ''
                shutil.rmtree(d, ignore_errors=True)
            chk = subprocess.run(['/venv/bin/python', '/verif/vcheck', prop, '--tier', 'quick'], capture_output=True, text=True,
                                 env=dict(os.environ, VERIF_REPO=wt))
            first = next((l.strip() for l in chk.stdout.splitlines() if l.strip().startswith('kind=')), '')
            dst = '/verif/seeded/%s-%d' % (prop, int(n) + OFFSET)
            os.makedirs(dst, exist_ok=True)
            shutil.copy(os.path.join(src, 'patch.diff'), dst)
            shutil.copy(os.path.join(src, 'demo.py'), dst)
            meta.update({
                'breaks_property': prop,
                'patch_base': (base if base != 'HEAD' else subprocess.run(['git', '-C', '/repo', 'rev-parse', '--short', 'HEAD'], capture_output=True, text=True).stdout.strip()),
                'confirmed_by_me': {
                    'test_suite_with_patch': tests.get(sid, 'not re-run'),
                    'demo_exit_on_original_tree': res['original'], 'demo_exit_on_patched_tree': res['patched'],
                    'demo_message_on_patched_tree': res.get('patched_message'),
                    'how': 'scratch git worktree of /repo HEAD + git apply patch.diff; demo run with PYTHONPATH=<tree>; '
                           'pytest -q -p no:cacheprovider -n 6..8 tests in the patched worktree',
                },
                'check_result': {'command': 'VERIF_REPO=<patched worktree> /venv/bin/python /verif/vcheck %s --tier quick' % prop,
                                 'exit': chk.returncode, 'first_violation': first[:400]},
                'missed_before_strengthening': MISSED_FIRST.get(sid),
            })
            json.dump(meta, open(os.path.join(dst, 'meta.json'), 'w'), indent=1)
            rows.append((sid, chk.returncode, res['original'], res['patched'], tests.get(sid), meta.get('summary', '')[:110]))
            print(rows[-1])
        finally:
            subprocess.run(['git', '-C', '/repo', 'worktree', 'remove', '--force', wt])
            if orig != '/repo':
                subprocess.run(['git', '-C', '/repo', 'worktree', 'remove', '--force', orig]); shutil.rmtree(orig, ignore_errors=True)
            shutil.rmtree(wt, ignore_errors=True)
subprocess.run(['git', '-C', '/verif', 'checkout', '--', 'evidence'])
