"""C02: rows leave load() as raw CSV strings (default cast strategy), so
(a) load -> dump_to_path fails validation for a CSV with lower-case booleans / ISO datetimes with 'Z',
(b) load -> join 'sum' over a number column emits a value that is not a number."""
import os
import shutil
import sys
import tempfile
from dataflows import Flow, load, dump_to_path, join_with_self

work = tempfile.mkdtemp(dir='.')
ok = True
try:
    flags = os.path.join(work, 'flags.csv')
    with open(flags, 'w') as f:
        f.write('id,active,seen\n1,true,2020-01-01T10:00:00Z\n2,false,2020-01-02T11:30:00Z\n')
    amounts = os.path.join(work, 'amounts.csv')
    with open(amounts, 'w') as f:
        f.write('k,amount\na,1.5\na,2.5\nb,3\n')

    _, dp, _ = Flow(load(flags)).results()
    print('inferred schema of flags.csv: %r' % [(f['name'], f['type']) for f in dp.descriptor['resources'][0]['schema']['fields']])
    print('expected (a): load -> dump_to_path validates (the file conforms to the schema load inferred '
          'for it) and emits rows id/active/seen that are valid integer/boolean/datetime values')
    try:
        rows, dp, _ = Flow(load(flags), dump_to_path(os.path.join(work, 'out'))).results()
        print('observed (a): rows=%r' % rows[0])
    except Exception as e:
        ok = False
        cause = getattr(e, 'cause', e)
        print('observed (a): raised %s: %s | cause: %s: %s' % (
            type(e).__name__, str(e).replace('\n', ' ')[:300],
            type(cause).__name__, getattr(cause, 'cast_error', '')))

    print('expected (b): total is declared number and holds 4.0 for k=a, 3 for k=b')
    errors = []

    def on_error(res_name, row, i, e):
        errors.append(str(e))
        return True

    rows, dp, _ = Flow(
        load(amounts),
        join_with_self('amounts', ['k'], dict(k=None, total=dict(name='amount', aggregate='sum'))),
    ).results(on_error=on_error)
    print('observed (b): fields=%r rows=%r validation errors=%r' % (
        [(f['name'], f['type']) for f in dp.descriptor['resources'][0]['schema']['fields']], rows[0], errors))
    if errors:
        ok = False
finally:
    shutil.rmtree(work, ignore_errors=True)

if ok:
    print('OK: property holds')
    sys.exit(0)
print('VIOLATION: results() fails validation on load -> dump_to_path, and load -> join(sum) emits a '
      'non-number under a number field')
sys.exit(1)
