"""
C18 - "Only the order of rows may differ from the sequential result": rows that merely pass through
parallelize must be untouched, rows selected by the predicate get the row function applied once.

The program sets the decimal context of its (main) thread - commercial rounding, ROUND_HALF_UP - and
an upstream step rounds a computed amount to cents.  With the row function as a plain sequential step
every amount is rounded half-up.  With parallelize(row_func) in its place all rows after the first one
come out rounded half-EVEN (Python's default): parallelize pulls the upstream rows from a helper thread,
which starts with a fresh default decimal context (contexts are thread-/contextvar-local), so the
upstream steps silently compute different values.  Nothing but the order of rows may differ.
"""
import decimal
import sys
from decimal import Decimal

from dataflows import Flow, add_field, parallelize

N = 40


def source():
    for i in range(N):
        yield {'id': i, 'net': Decimal(i) / 10, 'checked': False}


def gross(row):
    # 25 % VAT, rounded to cents with the rounding rule of the current decimal context
    return (row['net'] * Decimal('1.25')).quantize(Decimal('0.01'))


def check(row):
    row['checked'] = True


def run(step):
    rows = Flow(source(), add_field('gross', 'number', gross), step).results()[0][0]
    return sorted((r['id'], r['net'], r['gross'], r['checked']) for r in rows)


if __name__ == '__main__':
    decimal.getcontext().rounding = decimal.ROUND_HALF_UP      # the program's rounding rule

    sequential = run(check)
    parallel = run(parallelize(check, num_processors=2))

    print('expected (sequential row step): id, net, gross of the first rows:',
          [(r[0], str(r[1]), str(r[2])) for r in sequential[:6]])
    print('observed (parallelize)        : id, net, gross of the first rows:',
          [(r[0], str(r[1]), str(r[2])) for r in parallel[:6]])
    different = [(s, p) for s, p in zip(sequential, parallel) if s != p]
    print('rows delivered: %d sequential, %d parallel; rows whose content differs: %d'
          % (len(sequential), len(parallel), len(different)))
    for s, p in different[:5]:
        print('   id %d: net %s -> gross %s sequentially, %s through parallelize' % (s[0], s[1], s[2], p[2]))
    if sequential != parallel:
        print('VIOLATION: the rows delivered by parallelize differ from the sequential result in more than their order')
        sys.exit(1)
    print('no violation observed')
    sys.exit(0)
