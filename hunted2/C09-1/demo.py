"""C09: dump_to_path / dump_to_zip with force_format=False count the rows of resources they discard.

PROCESSORS.md: "force-format ... if False, format will be deduced from the file extension.
Resources with unknown extensions will be discarded."  The discarded resource is (correctly) left out
of the written datapackage.json and no file is written for it - but its rows are still added to the
package-level row count of the written descriptor and of the stats returned by process().
"""
import csv
import io
import json
import os
import shutil
import sys
import tempfile
import zipfile

from dataflows import Flow, dump_to_path, dump_to_zip, update_resource

KEPT = [{'id': i, 'name': 'kept-%d' % i} for i in range(3)]
DISCARDED = [{'id': i, 'name': 'discarded-%d' % i} for i in range(5)]


def csv_rows(data):
    return len(list(csv.reader(io.StringIO(data.decode('utf-8'), newline='')))) - 1


def run(kind, out):
    if kind == 'path':
        dumper = dump_to_path(out, force_format=False)
    else:
        dumper = dump_to_zip(out, force_format=False)
    _, stats = Flow(
        KEPT, DISCARDED,
        update_resource('res_1', path='kept.csv'),        # known extension: written as CSV
        update_resource('res_2', path='discarded.dat'),   # unknown extension: discarded from the dump
        dumper,
    ).process()
    if kind == 'path':
        def read(p):
            with open(os.path.join(out, p), 'rb') as f:
                return f.read()
    else:
        zf = zipfile.ZipFile(out)
        read = zf.read
    descriptor = json.loads(read('datapackage.json').decode('utf-8'))
    per_resource = [(r['name'], r['path'], r['count_of_rows'], csv_rows(read(r['path'])))
                    for r in descriptor['resources']]
    return descriptor, stats, per_resource


def main():
    tmp = tempfile.mkdtemp(prefix='c09-demo-', dir='.')
    failed = False
    try:
        for kind, out in (('path', os.path.join(tmp, 'out')), ('zip', os.path.join(tmp, 'out.zip'))):
            descriptor, stats, per_resource = run(kind, out)
            on_disk = sum(actual for _, _, _, actual in per_resource)
            recorded_sum = sum(recorded for _, _, recorded, _ in per_resource)
            print('--- dump_to_%s(force_format=False)' % kind)
            print('resources in the written descriptor (name, path, recorded rows, rows in file):', per_resource)
            print('expected package count_of_rows = sum over the written resources = %d (rows on disk: %d)'
                  % (recorded_sum, on_disk))
            print('observed package count_of_rows in datapackage.json = %r' % descriptor.get('count_of_rows'))
            print('observed stats["count_of_rows"] from process()    = %r' % stats.get('count_of_rows'))
            if descriptor.get('count_of_rows') != on_disk or stats.get('count_of_rows') != on_disk:
                failed = True
    finally:
        shutil.rmtree(tmp, ignore_errors=True)
    if failed:
        print('VIOLATION: the package-level row count includes the %d rows of the discarded resource, '
              'which is neither in the written descriptor nor on disk' % len(DISCARDED))
        sys.exit(1)
    print('OK: package totals are the sums over the written resources')


if __name__ == '__main__':
    main()
