"""C15 - add_computed_field rewrites the caller's field specification (target name -> {'name': ...})
while streaming, so the second use of the same specification / the second run of the same Flow
declares the computed field WITHOUT a type (i.e. 'string'), although the rows hold integers."""
import sys
from dataflows import Flow, add_computed_field

failed = False


def last_field(dp):
    return dp.descriptor['resources'][0]['schema']['fields'][-1]


# --- A: one Flow object (no load(), re-iterable list source) run twice -------------------------
flow = Flow(
    [dict(a=1, b=2), dict(a=3, b=4)],
    add_computed_field(target='total', operation='sum', source=['a', 'b']),
)
types = []
for run in (1, 2):
    dp, _ = flow.process()
    types.append(last_field(dp).get('type'))
print('A) same Flow processed twice, declared type of computed field "total" (sum of two integers)')
print('   expected: integer, integer')
print('   observed: %s, %s' % tuple(types))
if types != ['integer', 'integer']:
    failed = True

try:
    rows = flow.results()[0][0]
    print('   third run with results(): rows =', rows)
except Exception as e:
    failed = True
    print('   third run with results(): FAILS ->', type(e).__name__, str(e).strip().replace('\n', ' ')[:120])

# --- B: one specification reused for two independent Flows -------------------------------------
spec = [dict(target='total', operation='sum', source=['a', 'b'])]
spec_before = repr(spec)
out = []
for data in ([dict(a=1, b=2)], [dict(a=10, b=20)]):
    dp, _ = Flow(data, add_computed_field(spec)).process()
    out.append(last_field(dp).get('type'))
print('B) the same specification list given to two separate Flows')
print('   expected: integer, integer  (and the caller\'s specification left untouched)')
print('   observed: %s, %s' % tuple(out))
print('   specification before:', spec_before)
print('   specification after :', repr(spec))
if out != ['integer', 'integer'] or repr(spec) != spec_before:
    failed = True

if failed:
    print('VIOLATION: schema of the computed field and the row values are not in lockstep on reuse')
    sys.exit(1)
print('OK')
