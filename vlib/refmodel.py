"""Independent reference models (plain lists/dicts; no dataflows, no datapackage)."""
import decimal
import re


class SelError(Exception):
    """Selector cannot be resolved (e.g. integer out of range): an error is the expected outcome."""


def sel(selector, names):
    """Reference resource-selector semantics of C10 -> list of selected names (package order)."""
    if selector is None:
        return list(names)
    if isinstance(selector, bool):
        raise SelError('bool selector')
    if isinstance(selector, int):
        if -len(names) <= selector < len(names):
            return [names[selector]]
        raise SelError('index out of range')
    if isinstance(selector, str):
        return [n for n in names if re.fullmatch(selector, n) is not None]
    if isinstance(selector, (list, tuple)):
        return [n for n in names if n in selector]
    raise SelError('unknown selector form')


def match_fields(patterns, names, regex=True):
    """-> for each pattern (in order) the names it fully matches."""
    out = []
    for p in patterns:
        if regex:
            out.append([n for n in names if re.fullmatch(p, n) is not None])
        else:
            out.append([n for n in names if n == p])
    return out


def selfcheck():
    n = 0
    names = ['a', 'ab', 'abc', 'a.b']
    for s, want in [(None, names), ('a', ['a']), ('a.*', names), ('a|ab', ['a', 'ab']),
                    ('a.b', ['a.b']), (['ab', 'zz'], ['ab']), (0, ['a']), (-1, ['a.b']),
                    ([], []), ('[ab]+', ['a', 'ab'])]:
        assert sel(s, names) == want, (s, sel(s, names))
        n += 1
    for s in (4, -5):
        try:
            sel(s, names)
            assert False
        except SelError:
            n += 1
    assert match_fields(['a|b', 'a.'], ['a', 'ab', 'b']) == [['a', 'b'], ['ab']]
    n += 1
    n += _selfcheck_fields()
    n += _selfcheck_rows()
    return n


# ---------------------------------------------------------------------------------------------
# field-level processors (C15).  fields: list of field descriptors; rows: list of dicts.

class Expected(Exception):
    """The documented outcome of this configuration is an error."""


class Undefined(Exception):
    """The documentation does not define the outcome (any behaviour accepted)."""


def _fm(p, name, regex, legacy=False):
    if not regex:
        return name == p
    if legacy:   # '^' + p + '$' with re.match: only used to NAME a mechanism, never as the oracle
        return re.match('^' + p + '$', name) is not None
    return re.fullmatch(p, name) is not None


def select_fields(fields, rows, patterns, regex=True, legacy=False):
    names = [f['name'] for f in fields]
    chosen = []
    for p in patterns:
        for n in names:
            if n not in chosen and _fm(p, n, regex, legacy):
                chosen.append(n)
    if not chosen:
        raise Expected('nothing selected')
    byname = {f['name']: f for f in fields}
    return [byname[n] for n in chosen], [{k: v for k, v in r.items() if k in chosen} for r in rows]


def delete_fields(fields, rows, patterns, regex=True, legacy=False):
    keep = [f for f in fields if not any(_fm(p, f['name'], regex, legacy) for p in patterns)]
    kn = [f['name'] for f in keep]
    return keep, [{k: v for k, v in r.items() if k in kn} for r in rows]


def rename_fields(fields, rows, mapping, regex=True, legacy=False):
    """mapping: list of (src_pattern, target_template) in the user's dict order."""
    ren = {}
    for f in fields:
        n = f['name']
        for src, tgt in mapping:
            if _fm(src, n, regex, legacy):
                if regex:
                    m = re.fullmatch(src, n)
                    ren[n] = m.expand(tgt) if m is not None else re.sub('^' + src + '$', tgt, n)
                else:
                    ren[n] = tgt
                break
    new_names = [ren.get(f['name'], f['name']) for f in fields]
    if len(set(new_names)) != len(new_names):
        raise Undefined('name clash after rename')
    out_fields = [dict(f, name=ren.get(f['name'], f['name'])) for f in fields]
    return out_fields, [{ren.get(k, k): v for k, v in r.items()} for r in rows]


def computed_value(op, values, with_, row):
    """Documented add_computed_field operations over the row's non-null source values."""
    if callable(op):
        return op(row)
    if op == 'constant':
        return with_
    if op == 'format':
        return with_.format(**row)
    if op == 'join':
        return with_.join(str(v) for v in values)
    def total():
        t = values[0]
        for v in values[1:]:
            t = t + v
        return t
    if op == 'sum':
        return total() if values else 0
    if not values:
        return None         # nothing to aggregate: null (like join's aggregates over an all-null group)
    if op == 'avg':
        if all(isinstance(v, int) and not isinstance(v, bool) for v in values):
            # the exact average of integers (a `number`, i.e. a Decimal), also beyond 2**53
            return decimal.Decimal(total()) / len(values)
        return total() / len(values)
    if op == 'min':
        return min(values)
    if op == 'max':
        return max(values)
    if op == 'multiply':
        p = values[0]
        for v in values[1:]:
            p = p * v
        return p
    raise KeyError(op)


def add_computed(fields, rows, specs):
    """specs: [{'target': name|descriptor, 'operation', 'source', 'with'}]; new fields appended."""
    out_fields = list(fields)
    for s in specs:
        t = s['target']
        out_fields.append({'name': t} if isinstance(t, str) else dict(t))
    out_rows = []
    ftypes = {f['name']: f.get('type') for f in fields}
    for r in rows:
        r = dict(r)
        for s in specs:
            t = s['target'] if isinstance(s['target'], str) else s['target']['name']
            vals = [r.get(c) for c in s.get('source', []) if r.get(c) is not None]
            r[t] = computed_value(s['operation'], vals, s.get('with', ''), r)
            if s['operation'] == 'sum' and not vals and s.get('source') and \
                    all(ftypes.get(c) == 'duration' for c in s['source']):
                import datetime
                r[t] = datetime.timedelta(0)        # the sum of no durations
        out_rows.append(r)
    return out_fields, out_rows


def find_replace(fields, rows, specs, null_as_text=False):
    out = []
    for r in rows:
        r = dict(r)
        for s in specs:
            v = r[s['name']]
            if v is None and not null_as_text:
                continue
            v = str(v)
            for p in s.get('patterns', []):
                v = re.sub(str(p['find']), str(p['replace']), v)
            r[s['name']] = v
        out.append(r)
    return list(fields), out


def _selfcheck_fields():
    """Examples taken from PROCESSORS.md / tests/test_lib.py expectations."""
    F = [{'name': n, 'type': 'integer'} for n in ('a', 'b', 'c1', 'c2')]
    R = [{'a': 1, 'b': 2, 'c1': 3, 'c2': None}]
    f, r = select_fields(F, R, ['c.', 'a'])
    assert [x['name'] for x in f] == ['c1', 'c2', 'a'] and r == [{'a': 1, 'c1': 3, 'c2': None}]
    f, r = delete_fields(F, R, ['c\\d'])
    assert [x['name'] for x in f] == ['a', 'b'] and r == [{'a': 1, 'b': 2}]
    f, r = rename_fields(F, R, [('c(\\d)', 'C\\1'), ('a', 'A')])
    assert [x['name'] for x in f] == ['A', 'b', 'C1', 'C2'] and r == [{'A': 1, 'b': 2, 'C1': 3, 'C2': None}]
    f, r = add_computed(F, R, [{'target': 's', 'operation': 'sum', 'source': ['a', 'b', 'c2']},
                               {'target': 'j', 'operation': 'join', 'source': ['a', 'c1'], 'with': '-'},
                               {'target': 'f', 'operation': 'format', 'with': '{a}/{b}'}])
    assert r[0]['s'] == 3 and r[0]['j'] == '1-3' and r[0]['f'] == '1/2'
    assert [x['name'] for x in f][-3:] == ['s', 'j', 'f']
    f, r = find_replace([{'name': 't', 'type': 'string'}], [{'t': 'hello'}, {'t': None}],
                        [{'name': 't', 'patterns': [{'find': 'l+', 'replace': 'L'}, {'find': 'L', 'replace': 'x'}]}])
    assert r == [{'t': 'hexo'}, {'t': None}]
    return 6


# ---------------------------------------------------------------------------------------------
# row-level processors (C17)

def filter_rows(rows, condition=None, equals=(), not_equals=()):
    out = []
    for r in rows:
        if condition is not None:
            keep = bool(condition(r))
        else:
            keep = any(r[k] == v for o in equals for k, v in o.items()) or \
                any(r[k] != v for o in not_equals for k, v in o.items())
        if keep:
            out.append(r)
    return out


def deduplicate(rows, pk):
    if not pk:
        return list(rows)
    seen, out = [], []
    for r in rows:
        # (a boolean is not the number it compares equal to in Python: true / 1 are different values)
        key = tuple((isinstance(r[k], bool), r[k]) for k in pk)
        if key in seen:     # list membership: no hashing assumptions
            continue
        seen.append(key)
        out.append(r)
    return out


def unpivot(fields, rows, unpivot_fields, extra_keys, extra_value, regex=True):
    remaining = list(fields)
    plan = []   # (field name, {key: value})
    for u in unpivot_fields:
        hit, rest = [], []
        for f in remaining:
            m = re.fullmatch(u['name'], f['name']) if regex else (f['name'] == u['name'] or None)
            (hit if m else rest).append((f, m))
        remaining = [f for f, _ in rest]
        for f, m in hit:
            keys = {}
            for k, tmpl in u['keys'].items():
                keys[k] = m.expand(tmpl) if (regex and isinstance(tmpl, str)) else tmpl
            plan.append((f['name'], keys))
    kept = [f['name'] for f in remaining]
    out_fields = remaining + list(extra_keys) + [extra_value]
    out_rows = []
    for r in rows:
        for name, keys in plan:
            nr = {k['name']: None for k in extra_keys}      # every declared key field; null where the entry gives none
            nr.update(keys)
            for k in kept:
                nr[k] = r[k]
            nr[extra_value['name']] = r.get(name)
            out_rows.append(nr)
    return out_fields, out_rows, len(plan)


def _selfcheck_rows():
    """PROCESSORS.md unpivot example (row-major order as the property states) and test_lib cases."""
    data = [{'2000': 'a1', '2001': 'b1'}, {'2000': 'a2', '2001': 'b2'}]
    F = [{'name': '2000', 'type': 'string'}, {'name': '2001', 'type': 'string'}]
    f, r, n = unpivot(F, data, [{'name': '([0-9]{4})', 'keys': {'year': '\\1'}}],
                      [{'name': 'year', 'type': 'year'}], {'name': 'value', 'type': 'string'})
    assert r == [{'year': '2000', 'value': 'a1'}, {'year': '2001', 'value': 'b1'},
                 {'year': '2000', 'value': 'a2'}, {'year': '2001', 'value': 'b2'}] and n == 2
    assert [x['name'] for x in f] == ['year', 'value']
    rows = [{'a': 1, 'b': 'x'}, {'a': 2, 'b': 'x'}, {'a': 1, 'b': 'y'}]
    assert deduplicate(rows, ['a']) == rows[:2] and deduplicate(rows, ['a', 'b']) == rows
    assert filter_rows(rows, equals=[{'a': 1}]) == [rows[0], rows[2]]
    assert filter_rows(rows, not_equals=[{'a': 1}]) == [rows[1]]
    assert filter_rows(rows, equals=[{'a': 2}], not_equals=[{'b': 'x'}]) == [rows[1], rows[2]]
    return 6


# ---------------------------------------------------------------------------------------------
# join (C11)

def render_key(spec, row, n):
    if isinstance(spec, (list, tuple)):
        # a list names the key fields: two rows have the same key iff they agree on every rendered part
        return tuple(str(n if k == '#' else row[k]) for k in spec)
    return spec.format(**dict(row, **{'#': n}))


def key_fields(spec):
    if isinstance(spec, (list, tuple)):
        return list(spec)
    import string
    # the field a replacement field refers to: without conversion (!s), format spec (:03), attribute or index part
    return [re.split(r'[.\[]', name, 1)[0] for _, name, _, _ in string.Formatter().parse(spec) if name]


class AnyOf:
    """Aggregate `any`: every value of the group is acceptable."""
    def __init__(self, values):
        self.values = values


class AsSet:
    def __init__(self, values):
        self.values = values


class AsCounters:
    def __init__(self, values):
        self.values = values


class EitherOf:
    def __init__(self, *alts):
        self.alts = alts


def aggregate(agg, group, name, name_given=True):
    """Documented aggregate over the non-null values of `name` in the group's rows (in order)."""
    vals = [r.get(name) for r in group]
    nn = [v for v in vals if v is not None]
    if agg == 'count':
        return len(nn) if name_given else len(group)
    if agg == 'array':
        return list(nn)
    if agg == 'set':
        return AsSet(nn)
    if agg == 'counters':
        return AsCounters(nn)
    if not nn:
        return None
    if agg == 'sum':
        if isinstance(nn[0], str):
            return ''.join(nn)      # "for strings the concatenation of strings": in source order, like array
        t = nn[0]
        for v in nn[1:]:
            t = t + v
        return t
    if agg == 'avg':
        t = nn[0]
        for v in nn[1:]:
            t = t + v
        return t / len(nn)
    if agg == 'median':
        s = sorted(nn)
        m = len(s) // 2
        return s[m] if len(s) % 2 else (s[m - 1] + s[m]) / 2
    if agg == 'max':
        return max(nn)
    if agg == 'min':
        return min(nn)
    if agg == 'first':
        return nn[0]
    if agg == 'last':
        return nn[-1]
    if agg == 'any':
        if all(type(v) is type(nn[0]) and v == nn[0] for v in nn):
            return nn[0]        # a single candidate value: no ambiguity
        return AnyOf(nn)
    raise KeyError(agg)


def join(source_rows, target_rows, source_key, target_key, fields, mode, source_fields):
    """fields: {target_field: {'name':..., 'aggregate':..., '_name_given': bool}} already expanded.
    -> (ordered_rows, unordered_tail_rows). Rows are dicts whose values may be AnyOf/AsSet/... markers."""
    groups, order = {}, []
    for n, r in enumerate(source_rows, start=1):
        k = render_key(source_key, r, n)
        if k not in groups:
            groups[k] = []
            order.append(k)
        groups[k].append(r)

    def aggs(k):
        return {f: aggregate(s['aggregate'], groups[k], s['name'], s.get('_name_given', True))
                for f, s in fields.items()}
    if target_key is None:      # deduplication mode: one aggregated row per distinct key, unordered
        return [], [aggs(k) for k in order]
    out, used = [], set()
    for n, r in enumerate(target_rows, start=1):
        k = render_key(target_key, r, n)
        if k in groups:
            used.add(k)
            out.append(dict(r, **aggs(k)))
        elif mode == 'inner':
            continue
        else:
            out.append(dict(r, **{f: r.get(f) for f in fields}))
    tail = []
    if mode == 'full-outer':
        skf, tkf = key_fields(source_key), key_fields(target_key)
        for k in order:
            if k not in used:
                row = aggs(k)
                last = groups[k][-1]
                for sf, tf in zip(skf, tkf):
                    if tf == '#':
                        continue
                    vals = [g.get(sf) for g in groups[k]]
                    row[tf] = vals[0] if all(v == vals[0] and type(v) is type(vals[0]) for v in vals) \
                        else AnyOf(vals)
                tail.append(row)
    return out, tail
