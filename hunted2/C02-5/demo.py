"""C02: the automatically chosen names of concatenate ('concat') and duplicate ('<source>_copy') are not
checked against the names already in the package: two resources end up with one name."""
import os
import shutil
import sys
import tempfile

from dataflows import Flow, concatenate, duplicate, dump_to_path, load

tmp = tempfile.mkdtemp(prefix='c02_5_', dir='.')
try:
    def two_groups():
        return [
            [{'a': 1}], [{'a': 2}],                      # res_1, res_2: first group
            [{'b': 'x'}, {'b': 'y'}, {'b': 'z'}], [{'b': 'w'}],     # res_3, res_4: second group
            concatenate({'a': []}, resources=['res_1', 'res_2']),   # target omitted: named 'concat' (documented)
            concatenate({'b': []}, resources=['res_3', 'res_4']),   # target omitted: named 'concat' again
        ]

    results, dp, _ = Flow(*two_groups()).results()
    names = [r['name'] for r in dp.descriptor['resources']]
    print('two concatenate()   : resource names', names, 'rows', results)

    results2, dp2, _ = Flow([{'a': 1}], duplicate(), duplicate()).results()
    names2 = [r['name'] for r in dp2.descriptor['resources']]
    print('duplicate() twice   : resource names', names2)

    # consequence: such a package cannot be dumped (steps look resources up by name)
    try:
        _, dp3, _ = Flow(*two_groups(), dump_to_path(os.path.join(tmp, 'out'))).results()
        print('dumped              :', [(r['name'], r['path'], r.get('count_of_rows'))
                                        for r in dp3.descriptor['resources']], '(the streams have 2 and 4 rows)')
        back = Flow(load(os.path.join(tmp, 'out', 'datapackage.json'))).results()[0]
        print('loaded back         :', back)
    except Exception as e:
        print('dump / load back    : FAILS:', ' '.join(str(e).split())[:150])

    print('EXPECTED: the resulting package has unique resource names (a free name is picked, as load() and the '
          'iterable loader do)')
    if len(set(names)) != len(names) or len(set(names2)) != len(names2):
        print('OBSERVED: duplicate resource names %r / %r' % (names, names2))
        sys.exit(1)
    print('OBSERVED: names are unique')
    sys.exit(0)
finally:
    shutil.rmtree(tmp, ignore_errors=True)
