"""C03: a temporal field whose descriptor carries constraints (minimum / maximum / enum) cannot be dumped
and loaded back: the dumpers re-declare the field's `format` but leave the constraint values in the old
lexical form, so the written schema is no longer a valid Table Schema."""
import datetime
import os
import shutil
import sys
import tempfile

from dataflows import Flow, load, dump_to_path, update_resource, validate

CASES = [
    # label, field descriptor, value, dumper options
    ('datetime, default format, maximum in the spec\'s default lexical form (trailing Z)',
     dict(name='when', type='datetime', constraints={'maximum': '2030-01-01T00:00:00Z'}),
     datetime.datetime(2020, 1, 2, 3, 4, 5), {}),
    ('date with format %d/%m/%Y, minimum given in that format',
     dict(name='when', type='date', format='%d/%m/%Y', constraints={'minimum': '01/01/2000'}),
     datetime.date(2020, 1, 2), {}),
    ('date, ISO minimum, written with temporal_format_property (outputFormat=%d/%m/%Y)',
     dict(name='when', type='date', outputFormat='%d/%m/%Y', constraints={'minimum': '2000-01-01'}),
     datetime.date(2020, 1, 2), dict(temporal_format_property='outputFormat')),
]


def run(field, value, options, fmt, out):
    rows = [dict(id=1, when=value)]
    schema = dict(fields=[dict(name='id', type='integer'), field])
    stage = 'validate() on the incoming data'
    try:
        # the pipeline is well typed and the data conform: validate() accepts them
        Flow((dict(r) for r in rows), update_resource(-1, name='res', path='res.csv', schema=schema),
             validate()).process()
        stage = 'dump_to_path'
        Flow((dict(r) for r in rows), update_resource(-1, name='res', path='res.csv', schema=schema),
             validate(), dump_to_path(out, format=fmt, **options)).process()
        stage = 'load'
        back = Flow(load(os.path.join(out, 'datapackage.json'))).results()[0][0]
    except Exception as e:
        return '%s failed: %s' % (stage, str(e).strip().splitlines()[0][:150])
    return None if back == rows else 'loaded %r' % (back,)


def main():
    failures = 0
    tmp = tempfile.mkdtemp(prefix='c03demo')
    try:
        n = 0
        for label, field, value, options in CASES:
            for fmt in ('csv', 'json'):
                n += 1
                problem = run(field, value, options, fmt, os.path.join(tmp, str(n)))
                print('%-4s %s' % (fmt, label))
                print('     expected: the row {id: 1, when: %r} loads back' % (value,))
                print('     observed: %s' % (problem or 'round trip ok'))
                failures += problem is not None
    finally:
        shutil.rmtree(tmp, ignore_errors=True)
    if failures:
        print('VIOLATION: %d dump/load round trips of conforming data failed' % failures)
        return 1
    print('ok')
    return 0


if __name__ == '__main__':
    sys.exit(main())
