"""C07: an object-typed cell (or a row) that happens to contain one of the encoder's tag keys
('type{decimal}', 'type{date}', 'type{time}', 'type{datetime}', 'type{duration}', 'type{set}')
is a perfectly valid JSON object, is written to the checkpoint verbatim, and is then
*decoded as a tagged scalar* on resume: the resumed run returns other values than the first run
(or cannot be read at all).
"""
import contextlib
import io
import os
import shutil
import sys
import tempfile

from dataflows import Flow, checkpoint


def run(flow, **kw):
    with contextlib.redirect_stdout(io.StringIO()):
        return flow.results(**kw)


def main():
    failed = False
    cwd = os.getcwd()
    tmp = tempfile.mkdtemp(prefix='c07-demo-')
    os.chdir(tmp)
    try:
        cases = {
            'object cell, string payload': [{'id': 1, 'meta': {'type{date}': '2020-02-03', 'note': 'x'}}],
            'object cell, null payload': [{'id': 1, 'meta': {'type{decimal}': None}}],
            'nested deeper': [{'id': 1, 'meta': {'k': [{'type{set}': ['a', 'b']}]}}],
        }
        for i, (label, data) in enumerate(cases.items()):
            name = 'cp%d' % i

            def pipeline():
                return Flow([dict(r) for r in data], checkpoint(name))

            first = run(pipeline(), on_error=None)[0]
            print('%s\n    first run : %r' % (label, first))
            try:
                second = run(pipeline(), on_error=None)[0]
                print('    resumed   : %r' % (second,))
                if second != first:
                    print('    VIOLATION: rows differ')
                    failed = True
                # and with the default validation of results():
                try:
                    run(pipeline())
                except Exception as e:
                    print('    VIOLATION: default results() on the resumed run raises:',
                          type(e).__name__, str(e).strip().splitlines()[0])
                    failed = True
            except Exception as e:
                print('    resumed   : raised %s: %s' % (type(e).__name__, str(e).strip().splitlines()[0]))
                print('    VIOLATION: the saved checkpoint cannot be read back')
                failed = True
    finally:
        os.chdir(cwd)
        shutil.rmtree(tmp, ignore_errors=True)
    print('expected: the resumed run returns exactly the rows of the first run')
    if failed:
        print('FAIL')
        sys.exit(1)
    print('OK')


if __name__ == '__main__':
    main()
