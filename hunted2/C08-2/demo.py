"""C08: a save to stream(<path>) that was interrupted by a failing step is continued - not restarted -
by the next run of the same Flow: the committed file holds the rows of the interrupted save, then a
second package descriptor (read back as a data row), then the rows of the retry."""
import os
import shutil
import sys
import tempfile

from dataflows import Flow, stream, unstream

ROWS = [dict(a=i) for i in range(5)]
state = dict(attempt=0)


def flaky(rows):
    # a later step with a transient failure (e.g. a network hiccup) during the first attempt only
    for i, row in enumerate(rows):
        if state['attempt'] == 1 and i == 2:
            raise ConnectionError('transient failure')
        yield row


def main():
    workdir = tempfile.mkdtemp()
    cwd = os.getcwd()
    os.chdir(workdir)
    try:
        flow = Flow(ROWS, stream('saved/data.ndjson'), flaky)   # the source is a list: re-iterable
        for attempt in (1, 2):                                  # an ordinary retry loop
            state['attempt'] = attempt
            try:
                flow.process()
                print('attempt', attempt, 'succeeded; files:', os.listdir('saved'))
                break
            except Exception as e:
                print('attempt', attempt, 'failed (%s); files: %s' % (type(e).__name__, os.listdir('saved')))

        # what an uninterrupted run saves
        Flow(ROWS, stream('reference/data.ndjson')).process()
        expected = Flow(unstream('reference/data.ndjson')).results()[0]
        observed = Flow(unstream('saved/data.ndjson')).results()[0]
        print('EXPECTED (saved stream of an uninterrupted run):', expected)
        print('OBSERVED (saved stream after failed attempt + retry):', observed)
        same_bytes = open('saved/data.ndjson').read() == open('reference/data.ndjson').read()
        print('committed file identical to the uninterrupted one:', same_bytes)
        return 0 if (observed == expected and same_bytes) else 1
    finally:
        os.chdir(cwd)
        shutil.rmtree(workdir, ignore_errors=True)


if __name__ == '__main__':
    sys.exit(main())
