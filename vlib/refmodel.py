"""Independent reference models (plain lists/dicts; no dataflows, no datapackage)."""
import re


class SelError(Exception):
    """Selector cannot be resolved (e.g. integer out of range): an error is the expected outcome."""


def sel(selector, names):
    """Reference resource-selector semantics of C10 -> list of selected names (package order)."""
    if selector is None:
        return list(names)
    if isinstance(selector, bool):
        raise SelError('bool selector')
    if isinstance(selector, int):
        if -len(names) <= selector < len(names):
            return [names[selector]]
        raise SelError('index out of range')
    if isinstance(selector, str):
        return [n for n in names if re.fullmatch(selector, n) is not None]
    if isinstance(selector, (list, tuple)):
        return [n for n in names if n in selector]
    raise SelError('unknown selector form')


def match_fields(patterns, names, regex=True):
    """-> for each pattern (in order) the names it fully matches."""
    out = []
    for p in patterns:
        if regex:
            out.append([n for n in names if re.fullmatch(p, n) is not None])
        else:
            out.append([n for n in names if n == p])
    return out


def selfcheck():
    n = 0
    names = ['a', 'ab', 'abc', 'a.b']
    for s, want in [(None, names), ('a', ['a']), ('a.*', names), ('a|ab', ['a', 'ab']),
                    ('a.b', ['a.b']), (['ab', 'zz'], ['ab']), (0, ['a']), (-1, ['a.b']),
                    ([], []), ('[ab]+', ['a', 'ab'])]:
        assert sel(s, names) == want, (s, sel(s, names))
        n += 1
    for s in (4, -5):
        try:
            sel(s, names)
            assert False
        except SelError:
            n += 1
    assert match_fields(['a|b', 'a.'], ['a', 'ab', 'b']) == [['a', 'b'], ['ab']]
    n += 1
    return n
