#!/bin/bash
# seedtry.sh <seed id, e.g. C08-5> [check ids...] : apply the stored patch to a scratch worktree of its base and run the check(s)
id=$1; shift
dir=/verif/seeded/$id
base=$(python3 -c "import json;print(json.load(open('$dir/meta.json')).get('patch_base','HEAD'))")
prop=$(python3 -c "import json;print(json.load(open('$dir/meta.json'))['property'])")
wt=/tmp/st-$$-$id
# the current HEAD when the patch still applies there (later fixes in place), else the commit the patch was written on
git -C /repo worktree add -q --detach $wt HEAD || exit 3
if ! git -C $wt apply $dir/patch.diff 2>/dev/null; then
  git -C /repo worktree remove --force $wt; git -C /repo worktree add -q --detach $wt $base || exit 3
else
  # ... and only if the change still breaks the property there (its demo fails): a later repair may have made it harmless
  d=$(mktemp -d /tmp/st-demo-XXXX)
  if (cd $d && PYTHONPATH=$wt timeout -k 5 120 /venv/bin/python $dir/demo.py >/dev/null 2>&1); then
    git -C /repo worktree remove --force $wt; git -C /repo worktree add -q --detach $wt $base || exit 3
  else
    git -C $wt checkout -q -- . ; git -C $wt clean -fdq; base=HEAD
  fi
  rm -rf $d
fi
git -C $wt apply $dir/patch.diff || { echo "PATCH DOES NOT APPLY on $base"; git -C /repo worktree remove --force $wt; exit 3; }
for c in ${@:-$prop}; do
  VERIF_REPO=$wt VERIF_EVIDENCE_DIR=/tmp/st-$$-ev /venv/bin/python /verif/vcheck $c --tier ${TIER:-quick} --seed ${SEED:-0} 2>&1 | grep "kind=\|tier=" | cut -c1-${WIDTH:-330}
done
git -C /repo worktree remove --force $wt; rm -rf /tmp/st-$$-ev
