"""C19 A dump descriptor is written only after its data files are complete.

crash-lab over every I/O event of dump_to_path into a fresh directory (temp-file create, row writes,
close, makedirs, chunked copy, unlink, descriptor temp writes, descriptor copy): the process is killed
right before event k. Post-crash monitor: if <out>/datapackage.json parses as JSON then every file it
lists exists and has the recorded size and md5 (independent io-lab readers).
"""
import copy
import json
import os
import shutil

from vlib import boot, crashlab, gen, iolab, lab

PROPERTY = 'C19'
LEVEL = 'fault_enumeration'
EXHAUSTIVE = None
RULE = ('configurations: 1..3 resources x {0,1,5,200} rows x format {csv,json} x pretty_descriptor on/off; for each '
        'configuration every event index of the recorded I/O trace of the dump (+ the point after the last event) is '
        'a kill point (quick: traces longer than 80 events are sampled: first/last 25 events and every 7th); distinct '
        '= (configuration, event index); non-trivial = the kill happened at that event (exit status 137) and the '
        'directory was inspected')
ASSUMPTIONS = [
    'an unparseable / empty descriptor counts as "not present" (the statement says parseable)',
    'kill = SIGKILL semantics; copies are performed in >=3 chunks so that mid-copy is a crash point',
]
REQUIRED_COUNTERS = ['crash_points_executed', 'descriptors_found_and_verified']
CASE_TIMEOUT = 900


def gen_cases(tier, seed):
    i = 0
    sizes = [[0], [1], [5], [200], [1, 0], [5, 5], [5, 1, 200], [3, 20000]] if tier == 'quick' else \
        [[0], [1], [5], [200], [1, 0], [0, 1], [5, 5], [5, 1, 200], [200, 200], [0, 0, 0], [1, 1, 1], [3, 60000]]
    for sz in sizes:
        for fmt in ('csv', 'json'):
            for pretty in (True, False):
                if tier == 'quick' and not pretty and len(sz) > 1:
                    continue
                if max(sz) > 10000 and (fmt != 'csv' or not pretty):
                    continue        # one large-last-resource configuration (long copies) is enough
                i += 1
                yield {'family': fmt, 'sizes': sz, 'format': fmt, 'pretty': pretty, 'idx': i, 'seed': seed, 'tier': tier}
    # a later step that stops reading every resource after two rows: the descriptor still implies complete data files
    for fmt in ('csv', 'json'):
        i += 1
        yield {'family': fmt, 'sizes': [5, 1, 200], 'format': fmt, 'pretty': True, 'idx': i, 'seed': seed, 'tier': tier,
               'early_stop': True}
    # resources whose paths differ only in what the dumper rewrites (extension), or that would take the descriptor's name;
    # force_format=False with an extension the dumper does not write
    for fmt in ('csv', 'json'):
        for paths in ([('cities', 'data/cities.csv'), ('towns', 'data/cities.json')],
                      [('s1', 'sales.2019.q1'), ('s2', 'sales.2019.q2')],
                      [('datapackage', 'datapackage.csv'), ('m', 'm.csv')]):
            i += 1
            yield {'family': fmt, 'sizes': [3, 2], 'format': fmt, 'pretty': True, 'idx': i, 'seed': seed, 'tier': tier,
                   'paths': paths}
    # three resources whose paths collide, one of them natively carrying the name de-duplication would generate next:
    # every listed file is its own resource's file (size and hash recorded for it)
    for fmt in ('csv', 'json'):
        for paths in ([('a', 'data_2.csv'), ('b', 'data.csv'), ('c', 'data.csv')],
                      [('p', 'data/part.csv'), ('q', 'data/part.csv'), ('r', 'data/part.csv')]):
            i += 1
            yield {'family': fmt, 'sizes': [3, 2, 4], 'format': fmt, 'pretty': True, 'idx': i, 'seed': seed, 'tier': tier,
                   'paths': paths}
    for fmt in ('csv',):
        i += 1
        yield {'family': fmt, 'sizes': [2, 1], 'format': fmt, 'pretty': True, 'idx': i, 'seed': seed, 'tier': tier,
               'paths': [('part', 'archive.csv/part.csv'), ('whole', 'archive.csv')], 'may_fail': True}
    for paths in ([('rivers', 'rivers.tsv'), ('m', 'm.csv')], [('regions', 'REGIONS.CSV'), ('m', 'm.json')]):
        i += 1
        yield {'family': 'csv', 'sizes': [3, 2], 'format': 'csv', 'pretty': True, 'idx': i, 'seed': seed, 'tier': tier,
               'paths': paths, 'no_force_format': True}
    # the source of the first resource fails half way and a later step swallows the error
    for fmt in ('csv', 'json'):
        i += 1
        yield {'family': fmt, 'sizes': [40, 3], 'format': fmt, 'pretty': True, 'idx': i, 'seed': seed, 'tier': tier,
               'swallowed_failure': True}
    # two dumps in ONE flow (everything that came in -> 'raw', then - a resource deleted - what is published): both finished
    # descriptors describe their own files
    for fmt in ('csv', 'json'):
        i += 1
        yield {'family': fmt, 'sizes': [5, 3], 'format': fmt, 'pretty': True, 'idx': i, 'seed': seed, 'tier': tier,
               'raw_dump_before_delete': True}
    # the dumped package is itself a loaded dump (its descriptor already carries bytes / hash / count_of_rows)
    for fmt in ('csv', 'json'):
        i += 1
        yield {'family': fmt, 'sizes': [4, 2], 'format': fmt, 'pretty': True, 'idx': i, 'seed': seed, 'tier': tier,
               'redump': True}
    # ONE Flow object with add_filehash_to_path run twice, its output directory removed in between
    for fmt in ('csv', 'json'):
        i += 1
        yield {'family': fmt, 'sizes': [4, 2], 'format': fmt, 'pretty': True, 'idx': i, 'seed': seed, 'tier': tier,
               'filehash': True, 'second_run_after_output_removed': True}
    # byte counters switched off, the resource hash on (with and without add_filehash_to_path): the recorded hash is the file's
    for fmt in ('csv', 'json'):
        for fh in (False, True):
            i += 1
            yield {'family': fmt, 'sizes': [6, 2], 'format': fmt, 'pretty': True, 'idx': i, 'seed': seed, 'tier': tier,
                   'filehash': fh, 'no_bytes': True}
    # counters recorded under dotted names ('stats.bytes'): every resource carries its own numbers
    for fmt in ('csv', 'json'):
        i += 1
        yield {'family': fmt, 'sizes': [2, 9, 5], 'format': fmt, 'pretty': True, 'idx': i, 'seed': seed, 'tier': tier,
               'dotted_counters': True}
    # add_filehash_to_path (with and without the resource-hash counter): the listed path must be the written one
    for fmt in ('csv', 'json'):
        for nohash in (False, True):
            i += 1
            yield {'family': fmt, 'sizes': [5, 1], 'format': fmt, 'pretty': True, 'idx': i, 'seed': seed, 'tier': tier,
                   'filehash': True, 'no_resource_hash': nohash}


def run_case(case):
    d = lab.df()
    counters = {'crash_points_executed': 0, 'descriptors_found_and_verified': 0, 'descriptor_absent_or_partial': 0,
                'unshimmed_events': 0}
    cov = {'crash_event_kind': {}}
    viol = []
    scratch = os.getcwd()
    cfg = {'sizes': case['sizes'], 'format': case['format'], 'pretty': case['pretty'],
           'add_filehash_to_path': bool(case.get('filehash')), 'no_resource_hash': bool(case.get('no_resource_hash')),
           'later_step_stops_reading_early': bool(case.get('early_stop')),
           'source_fails_and_later_step_swallows': bool(case.get('swallowed_failure')),
           'resource_paths': case.get('paths'), 'force_format': not case.get('no_force_format'),
           'two_dumps_in_one_flow_a_resource_deleted_between': bool(case.get('raw_dump_before_delete')),
           'counters_under_dotted_names': bool(case.get('dotted_counters'))}
    F = [{'name': 'id', 'type': 'integer'}, {'name': 't', 'type': 'string'}, {'name': 'n', 'type': 'number'}]
    tables = [[{'id': r * 1000 + i, 't': 'żółć-%d "q", x' % i, 'n': 1.5 * i} for i in range(n)]
              for r, n in enumerate(case['sizes'])]
    seen = set()

    def add(kind, msg, mech):
        if mech not in seen:
            seen.add(mech)
            viol.append({'kind': kind, 'mech': mech, 'msg': '%r: %s' % (cfg, msg), 'config': cfg})

    if case.get('redump'):
        # written once, up front (json, so that the re-dump differs in size from what the loaded descriptor records)
        with boot.quiet():
            d.Flow(*[lab.source('res%d' % i, F, t) for i, t in enumerate(tables)],
                   d.dump_to_path('prev', format='json' if case['format'] == 'csv' else 'csv')).process()
    cfg['source_is_a_loaded_dump'] = bool(case.get('redump'))
    cfg['byte_counters_off'] = bool(case.get('no_bytes'))
    cfg['same_flow_run_again_after_output_removed'] = bool(case.get('second_run_after_output_removed'))

    def run_dump(out):
        steps = [lab.source('res%d' % i, F, t) for i, t in enumerate(tables)]
        if case.get('second_run_after_output_removed'):
            # (re-runnable sources: plain row lists)
            steps = [[dict(r) for r in t] for t in tables]
        if case.get('redump'):
            steps = [d.load('prev/datapackage.json')]
        if case.get('paths'):
            steps = [lab.source(nm, F, t) for (nm, _), t in zip(case['paths'], tables)] + \
                [d.update_resource(nm, path=pth) for nm, pth in case['paths']]
        if case.get('swallowed_failure'):
            def broken():
                for n_, row in enumerate(copy.deepcopy(tables[0])):
                    if n_ == len(tables[0]) // 2:
                        raise IOError('source failed (connection reset)')
                    yield row
            steps[0] = d.load(({'resources': [{'name': 'res0', 'path': 'res0.csv', 'schema': {'fields': copy.deepcopy(F)}}]},
                               [broken()]), strip=False)
        kw = {}
        if case.get('filehash'):
            kw['add_filehash_to_path'] = True
        if case.get('no_resource_hash'):
            kw['counters'] = {'resource-hash': None}
        if case.get('no_bytes'):
            kw['counters'] = {'datapackage-bytes': None, 'resource-bytes': None}
        if case.get('dotted_counters'):
            kw['counters'] = {'resource-bytes': 'stats.bytes', 'resource-hash': 'stats.hash', 'resource-rowcount': 'stats.rows'}
        if case.get('no_force_format'):
            kw['force_format'] = False
        if case.get('raw_dump_before_delete'):
            steps.append(d.dump_to_path(out + '_raw', format=case['format'], pretty_descriptor=case['pretty'], **kw))
            steps.append(d.delete_resource('res%d' % (len(tables) - 1)))
        steps.append(d.dump_to_path(out, format=case['format'], pretty_descriptor=case['pretty'], **kw))
        if case.get('swallowed_failure'):
            def tolerant(rows):
                try:
                    yield from rows
                except Exception:
                    pass
            steps.append(tolerant)
        if case.get('early_stop'):
            import itertools

            def first_two(rows):
                return itertools.islice(rows, 2)
            steps.append(first_two)
        if case.get('second_run_after_output_removed'):
            # the same Flow object has run before, into a directory that is gone by now (moved away by a deploy step)
            import shutil as sh_
            flow_ = d.Flow(*steps)
            try:
                with boot.quiet():
                    flow_.process()
                # (moved away in ONE step: a half-removed directory would be the harness' own doing)
                sh_.rmtree(out + '.moved', ignore_errors=True)
                os.rename(out, out + '.moved')
                with boot.quiet():
                    flow_.process()
                return {'ok': True, 'error': None}
            except Exception as e:
                return {'ok': False, 'error': str(getattr(e, 'cause', e))[:300]}
        o = lab.run(steps, validate=True)
        return {'ok': o.ok, 'error': None if o.ok else o.errstr()}

    def snapshot_problem(out):
        """State-based form of the property: evaluated on the live directory right before an I/O event."""
        path = os.path.join(out, 'datapackage.json')
        try:
            raw0 = open(path, 'rb').read()
        except OSError:
            return None
        pr = _snapshot_problem(out, raw0)
        if pr:
            # a snapshot is not atomic: it counts only if the descriptor it was taken from is still the one in place (the
            # harness itself moves whole output directories away between two runs)
            try:
                if open(path, 'rb').read() != raw0:
                    return None
            except OSError:
                return None
        return pr

    def _snapshot_problem(out, raw0):
        try:
            desc = json.loads(raw0.decode('utf-8'))
        except Exception:
            return None
        for rd in desc.get('resources', []):
            fp = os.path.join(out, rd.get('path', ''))
            if not os.path.isfile(fp):
                return 'parseable descriptor lists %r which does not exist' % rd.get('path')
            data = open(fp, 'rb').read()
            if case.get('dotted_counters'):
                rd = dict(rd, bytes=(rd.get('stats') or {}).get('bytes'), hash=(rd.get('stats') or {}).get('hash'))
            if (not case.get('no_bytes') and rd.get('bytes') != len(data)) or \
                    (rd.get('hash') is not None and rd.get('hash') != iolab.md5(data)):
                return 'parseable descriptor lists %r with bytes=%r but the file has %d bytes' % (
                    rd.get('path'), rd.get('bytes'), len(data))
        return None

    def record():
        plan = crashlab.Plan('record')
        crashlab.install(plan, scratch)
        online = []

        def on_event(n, kind, detail):
            # every I/O event is a potential interruption point: the invariant must hold on the directory as it is
            # now, whatever thread performs the event (also decides schedules where writers run concurrently)
            pr = snapshot_problem('rec') or (case.get('raw_dump_before_delete') and snapshot_problem('rec_raw'))
            if pr and not online:
                online.append('before event %d (%s %s): %s' % (n, kind, detail, pr))
        plan.on_event = on_event
        # polling monitor: a sampler thread evaluates the same invariant every ~0.5 ms while the dump runs, so that
        # an interruption point between two events of DIFFERENT threads (concurrent writers) is observed as well
        import threading
        import time
        stop = threading.Event()
        polls = [0]

        def sampler():
            while not stop.is_set():
                polls[0] += 1
                try:
                    pr = snapshot_problem('rec')
                except Exception:
                    pr = None
                if pr and not online:
                    online.append('at a sampled instant: %s' % pr)
                time.sleep(0.0005)
        th = threading.Thread(target=sampler, daemon=True)
        th.start()
        try:
            rep = run_dump('rec')
        finally:
            stop.set()
            th.join(2)
        rep['polls'] = polls[0]
        rep['trace'] = list(plan.trace)
        rep['unshimmed'] = list(plan.unshimmed)
        rep['online'] = online
        rep['online_checks'] = plan.n
        return rep
    code, rec = crashlab.in_child(record, os.path.join(scratch, 'rep.json'))
    assert code == 0 and rec and (rec['ok'] or case.get('swallowed_failure') or case.get('may_fail')), (code, rec)
    counters['unshimmed_events'] += len(rec['unshimmed'])     # audit-level events (also crash points)
    trace = rec['trace']
    K = len(trace)
    counters['online_invariant_checks'] = rec.get('online_checks', 0)
    counters['sampler_polls'] = rec.get('polls', 0)
    if rec.get('online'):
        add('online_invariant', 'during an uninterrupted dump the directory violated the invariant %s' % rec['online'][0],
            'online/' + ('listed_file_missing' if 'does not exist' in rec['online'][0] else 'listed_file_incomplete'))
    ks = list(range(1, K + 2))
    sampled = False
    if case['tier'] == 'quick' and K > 80:
        ks = sorted(set(ks[:25] + ks[-40:] + ks[::max(7, K // 60)]))
        sampled = True
    elif K > 4000:
        ks = sorted(set(ks[:200] + ks[-400:] + ks[::K // 600]))
        sampled = True
    big = max(case['sizes']) > 10000
    if big:
        # large-last-resource configuration: decided mainly by the online / sampled invariant of the recording pass;
        # kills only around the copies and the descriptor (the last events)
        ks = ks[-(45 if case['tier'] == 'quick' else 90):]
        sampled = True
    cov['crash_event_kind']['__sampled__' if sampled else '__all__'] = 1

    def verify(out, what, n_expected=None):
        if case.get('raw_dump_before_delete') and n_expected is None:
            verify(out + '_raw', what + ' [first dump of the flow]', len(tables))
            shutil.rmtree(out + '_raw', ignore_errors=True)
            n_expected = len(tables) - 1
        n_expected = len(tables) if n_expected is None else n_expected
        path = os.path.join(out, 'datapackage.json')
        if not os.path.exists(path):
            counters['descriptor_absent_or_partial'] += 1
            return
        try:
            desc = json.loads(open(path, 'rb').read().decode('utf-8'))
        except Exception:
            counters['descriptor_absent_or_partial'] += 1
            return
        counters['descriptors_found_and_verified'] += 1
        w = iolab.Written(out)
        for rd in desc.get('resources', []):
            p = rd.get('path')
            if not w.exists(p):
                add('listed_file_missing', '%s: parseable datapackage.json lists %r which does not exist (dir: %r)'
                    % (what, p, w.listing()), 'listed_file_missing')
                continue
            data = w.read(p)
            if case.get('dotted_counters'):
                rd = dict(rd, bytes=(rd.get('stats') or {}).get('bytes'), hash=(rd.get('stats') or {}).get('hash'))
            if not case.get('no_bytes') and rd.get('bytes') != len(data):
                add('listed_file_size', '%s: %r recorded bytes=%r, file has %d' % (what, p, rd.get('bytes'), len(data)),
                    'listed_file_size')
            elif rd.get('hash') is not None and rd.get('hash') != iolab.md5(data):
                add('listed_file_hash', '%s: %r recorded hash differs from the file' % (what, p), 'listed_file_hash')
        if len(desc.get('resources', [])) != n_expected and not case.get('no_force_format'):
            add('descriptor_resources', '%s: descriptor lists %d resources of %d' %
                (what, len(desc.get('resources', [])), n_expected), 'descriptor_resources')
    # one run WITHOUT the I/O shims (they re-implement the copy in chunks): the state the real calls leave behind
    code_p, rep_p = crashlab.in_child(lambda: run_dump('plain'), os.path.join(scratch, 'rep.json'))
    counters['crash_points_executed'] += 1
    cov['crash_event_kind']['uninstrumented_run'] = cov['crash_event_kind'].get('uninstrumented_run', 0) + 1
    verify('plain', 'uninstrumented run (no kill, real shutil / os calls)')
    shutil.rmtree('plain', ignore_errors=True)
    modes = [('kill', k) for k in ks] + [('raise', k) for k in ks
                                         if k <= K and not big and (k % 3 == 0 or case['tier'] == 'thorough')]
    # persistent faults (every later operation on the same file fails too) at the events that touch output files
    modes += [('raise_persistent', k) for k in ks if k <= K and not big and trace[k - 1][0].startswith(('copy', 'audit'))
              and (k % 2 == 0 or case['tier'] == 'thorough')]
    for mode, k in modes:
        out = '%s%d' % (mode[0], k)

        def crash(k=k, out=out, mode=mode):
            plan = crashlab.Plan(mode, at=k)
            crashlab.install(plan, scratch)
            rep = run_dump(out)
            rep['fired'] = plan.fired
            return rep
        code, rep = crashlab.in_child(crash, os.path.join(scratch, 'rep.json'))
        ev = trace[k - 1][0] if k <= K else 'after_last'
        what = '%s before event %d/%d (%s %s)' % (mode, k, K, ev, trace[k - 1][1] if k <= K else '')
        if mode in ('raise', 'raise_persistent'):
            if not (rep and rep.get('fired')):
                continue        # not reached in this run (nondeterministic trace): not counted
        elif k <= K and code != 137:
            shutil.rmtree(out, ignore_errors=True)
            return dict(nontrivial=False, violations=viol, cov=cov, counters=counters,
                        inconclusive='crash point %s did not fire (exit %r)' % (what, code))
        counters['crash_points_executed'] += 1
        cov['crash_event_kind'][ev] = cov['crash_event_kind'].get(ev, 0) + 1
        cov.setdefault('mode', {})[mode] = cov.setdefault('mode', {}).get(mode, 0) + 1
        verify(out, what)
        shutil.rmtree(out, ignore_errors=True)
    shutil.rmtree('rec', ignore_errors=True)
    shutil.rmtree('rec_raw', ignore_errors=True)
    # leftover temp files of killed children
    return dict(nontrivial=counters['crash_points_executed'] > 0, violations=viol, cov=cov, counters=counters,
                sample={'config': cfg, 'events': K, 'trace_head': trace[:10], 'trace_tail': trace[-8:]})


def finalize(agg):
    agg.extra['exhaustive'] = '__sampled__' not in agg.cov.get('crash_event_kind', {})
