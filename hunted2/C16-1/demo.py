"""C16 - concatenate imposes the value constraints of the FIRST resource that provides a field on the rows
of all concatenated resources: rows that conform to their own resource's schema are rejected (or dropped).

Run:  PYTHONPATH=<tree> /venv/bin/python demo.py      (exit status 1 = the property is violated)
"""
import sys

from dataflows import Flow, concatenate, set_type, update_resource, validate, schema_validator

# two resources with the same field names and types, but different (perfectly valid) field constraints
LOCAL = [{'kind': 'a', 'amount': 1, 'ref': 'r1'},
         {'kind': 'b', 'amount': 2, 'ref': 'r2'}]
REMOTE = [{'kind': 'c', 'amount': 30, 'ref': 'r3'},
          {'kind': 'd', 'amount': 40, 'ref': None}]      # 'ref' is optional in this resource


def source_steps():
    return [
        (dict(r) for r in LOCAL),
        update_resource(-1, name='local'),
        (dict(r) for r in REMOTE),
        update_resource(-1, name='remote'),
        # constraints of 'local' only
        set_type('kind', type='string', resources='local', constraints={'enum': ['a', 'b']}),
        set_type('amount', type='integer', resources='local', constraints={'maximum': 10}),
        set_type('ref', type='string', resources='local', constraints={'required': True}),
        # constraints of 'remote' only ('ref' is declared here too, but it is not required)
        set_type('kind', type='string', resources='remote', constraints={'enum': ['c', 'd']}),
        set_type('amount', type='integer', resources='remote', constraints={'minimum': 20}),
        # every row conforms to the schema of its own resource: this raises otherwise
        validate(),
    ]


FIELDS = {'kind': [], 'amount': [], 'ref': []}
expected = [dict(r) for r in LOCAL + REMOTE]
failed = False

# 0. sanity: without concatenate the package is valid and complete
results, dp, _ = Flow(*source_steps()).results()
assert results == [LOCAL, REMOTE], results

# 1. concatenate, then look at the result the usual way
print('expected: one resource "concat" holding the 4 rows', expected)
try:
    results, dp, _ = Flow(*source_steps(), concatenate(FIELDS)).results()
    print('observed:', results)
    if results != [expected]:
        failed = True
except Exception as e:
    failed = True
    print('observed: Flow.results() raises %s: %s' % (type(e).__name__, ' '.join(str(e).split())[:300]))

# 2. the reason: the target fields carry the constraints that were declared for 'local' only
dp, _ = Flow(*source_steps(), concatenate(FIELDS)).process()
target_fields = dp.descriptor['resources'][0]['schema']['fields']
print('target field constraints:', dict((f['name'], f.get('constraints')) for f in target_fields))

# 3. a tolerant consumer silently loses the rows of 'remote'
results, dp, _ = Flow(*source_steps(), concatenate(FIELDS),
                      validate(on_error=schema_validator.drop)).results(on_error=schema_validator.drop)
print('with validate(on_error=drop) after concatenate: %d of %d rows are left: %r'
      % (len(results[0]), len(expected), results[0]))
if results != [expected]:
    failed = True

if failed:
    print('VIOLATION: concatenate did not pass on all rows of the selected resources '
          '(constraints of the first resource are applied to the rows of the others)')
    sys.exit(1)
print('OK')
sys.exit(0)
