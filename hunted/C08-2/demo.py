"""C08 - a source fails in the middle of a checkpoint save, and the truncated checkpoint is committed.

Run 1: the first source breaks after 150 of 300 rows (connection reset) while the checkpoint
is being written.  The step that follows the checkpoint is fault tolerant: it reports the
error of the resource it is reading and goes on with the next resource.
Run 2: the source is healthy again.

Expected (C08): a step failed while the checkpoint was being saved, so no usable checkpoint
exists after run 1 (only stream.ndjson.active); run 2 recomputes from the sources: [300, 5] rows.
Observed: run 1 renames the half-written stream to stream.ndjson; run 2 picks it up and
silently returns [150, 5] rows - for ever.
"""
import os
import shutil
import sys
import tempfile

from dataflows import Flow, checkpoint

NAME = 'measurements'


def measurements(healthy):
    for i in range(300):
        if not healthy and i == 150:
            raise IOError('connection reset by peer')
        yield {'id': i, 'value': i * 2}


def stations():
    return [{'station': i} for i in range(5)]


def report_and_continue(rows):
    # a fault tolerant consumer after the checkpoint
    try:
        yield from rows
    except Exception as e:
        print('  !! giving up on this resource:', e)


def run(healthy):
    return Flow(
        measurements(healthy), stations(),
        checkpoint(NAME),
        report_and_continue,
    ).results()[0]


def main():
    workdir = tempfile.mkdtemp()
    os.chdir(workdir)
    try:
        print('run 1 (source breaks after 150 rows)')
        try:
            first = run(healthy=False)
            print('  rows:', [len(r) for r in first])
        except Exception as e:
            print('  run 1 failed:', e)
        files = sorted(os.listdir(os.path.join('.checkpoints', NAME)))
        print('  files in the checkpoint directory:', files)

        print('run 2 (source is healthy)')
        second = run(healthy=True)
        observed = [len(r) for r in second]
        expected = [300, 5]
        print('EXPECTED after run 1: no stream.ndjson; run 2 rows:', expected)
        print('OBSERVED after run 1: %r; run 2 rows: %r' % (files, observed))
        if 'stream.ndjson' in files or observed != expected:
            print('VIOLATION: the checkpoint interrupted by the source failure was committed and is used')
            return 1
        print('ok')
        return 0
    finally:
        os.chdir('/')
        shutil.rmtree(workdir, ignore_errors=True)


if __name__ == '__main__':
    sys.exit(main())
