"""C05 Observers are transparent and capture the complete stream at their position.

For a generated base program B = prefix + suffix and an observer O inserted at position p:
(1) differential: results(B) == results(prefix + O + suffix) (rows; name/type/primaryKey/missingValues
    of every downstream schema);
(2) completeness: what O persisted/reported == the full stream at p (results(prefix)), read back with
    independent readers;
(3) finalizer: exactly one call, after the last row has passed it (pass-through counters immediately
    before and after it are read at callback time).
"""
import copy
import decimal
import os

from vlib import boot, dsl, gen, iolab, lab

PROPERTY = 'C05'
LEVEL = 'exploration'
RULE = ('seeded generation: base programs (1..4 sources, 2..6 links) whose suffixes emphasise discarding steps '
        '(delete_resource first/last/middle, join with source_delete, concatenate, filter_rows, deduplicate, '
        'select_fields) x every insertion position x observer kind {printer, dump_to_path csv/json, dump_to_zip, '
        'stream, first-run checkpoint, finalizer, update_stats, validate} and pairs of observers; distinct = '
        '(program, observer, position) hash; non-trivial = the suffix contains >=1 discarding step or the '
        'observer is not last, and >=1 row passes the observer')
ASSUMPTIONS = [
    'dumpers legitimately stamp path/format/dialect/bytes/hash and per-field serialisation hints: schemas are '
    'compared on (name, type, primaryKey, missingValues)',
    'suffixes use built-in discarders and well-behaved user steps only',
    'typed fidelity of dumped files is C03; here rows are compared after the real load() with numeric leniency',
]
REQUIRED_COUNTERS = ['downstream_compared', 'observer_content_compared']
OBSERVERS = ['printer', 'dump_to_path', 'dump_to_zip', 'stream', 'checkpoint', 'finalizer', 'update_stats',
             'validate', 'pair']
DISCARDERS = ['delete_resource', 'join', 'concatenate', 'filter_rows', 'deduplicate', 'select_fields']
MUTATORS = ['find_replace', 'set_type', 'user']     # edit rows in place downstream of the observer
CASE_TIMEOUT = 180


def gen_cases(tier, seed):
    n = {'quick': 540, 'thorough': 14000}[tier]
    for i in range(n):
        yield {'family': OBSERVERS[i % len(OBSERVERS)], 'idx': i, 'seed': seed}
    # edge templates: discarders whose input is degenerate (empty join source/target, everything filtered, ...)
    j = 0
    for rep in range({'quick': 1, 'thorough': 8}[tier]):
        for edge in EDGES:
            for obs in OBSERVERS[:-1]:
                j += 1
                yield {'family': obs, 'idx': 10 ** 6 + j, 'seed': seed, 'edge': edge}
        # a CSV file loaded with load()'s defaults delivers uncast cell text under an inferred typed schema: observers
        # whose captured content is compared after a cast (dump + load back) or that capture nothing
        for obs in ('dump_to_path', 'dump_to_zip', 'validate', 'finalizer', 'update_stats'):
            for variant in range(3):
                j += 1
                yield {'family': obs, 'idx': 10 ** 6 + j, 'seed': seed, 'edge': 'raw_csv_load', 'variant': variant}
        for k_ in range(6):
            j += 1
            yield {'family': 'observer_rerun', 'idx': 10 ** 6 + j, 'seed': seed}
        if rep == 0:
            j += 1
            yield {'family': 'stream_names', 'idx': 10 ** 6 + j, 'seed': seed}
        # two fields of ONE type that are written differently (own output formats; zone-aware next to naive)
        for k_ in range(4):
            j += 1
            yield {'family': 'same_type_written_differently', 'idx': 10 ** 6 + j, 'seed': seed, 'combo': k_}
        # a row the dumper validates but cannot WRITE (an object cell holding a date, csv), and a later step that ends the
        # resource quietly when reading it fails: nothing that claims to be the stream may be committed
        for k_ in range(2):
            j += 1
            yield {'family': 'writer_failure_then_tolerant_step', 'idx': 10 ** 6 + j, 'seed': seed, 'combo': k_}
        # a dump into a directory that already holds an earlier dump of OTHER data captures the rows that pass it now
        for k_ in range(4):
            j += 1
            yield {'family': 'dump_again_other_data', 'idx': 10 ** 6 + j, 'seed': seed, 'combo': k_}
        if rep == 0:
            # every observer once in a process whose locale is not UTF-8, over non-ASCII text
            j += 1
            yield {'family': 'c_locale', 'idx': 10 ** 6 + j, 'seed': seed}
        # resources whose paths differ only in their extension (figures.csv, figures.json): each is captured on its own
        for obs in ('dump_to_path', 'dump_to_zip'):
            for variant in range(2):
                j += 1
                yield {'family': obs, 'idx': 10 ** 6 + j, 'seed': seed, 'edge': 'same_stem_paths', 'variant': variant}
        # resources of a VALID data package that are not in the shape dataflows itself writes: inline data (no path),
        # a multipart path (list of files), a field without 'type'
        for obs in OBSERVERS[:-1]:
            for pshape in ('inline', 'multipart', 'typeless', 'dumped'):
                j += 1
                yield {'family': obs, 'idx': 10 ** 6 + j, 'seed': seed, 'edge': 'foreign_package', 'pkg_shape': pshape}


EDGES = ['inner_join_empty_source', 'inner_join_empty_target', 'inner_join_no_match', 'join_source_delete',
         'delete_all_but_one', 'filter_everything', 'concat_then_delete', 'dedup_all_same', 'mutate_in_place_after']


def edge_program(rng, edge):
    """-> (tables, specs, p): observer goes right after the sources (p = 0) or after the first spec."""
    F = [['id', 'integer'], ['n', 'integer'], ['s', 'string']]

    def tab(name, rows):
        return {'name': name, 'fields': [list(f) for f in F], 'rows': rows, 'kind': 'load'}

    def rows(base, k, n=None):
        return [{'id': base + i, 'n': (i % 4) if n is None else n, 's': ['a', 'hello', 'b'][i % 3]} for i in range(k)]
    big = rng.choice([3, 30, 120])
    j = {'op': 'join', 'source': 'src', 'target': 'tgt', 'agg': 'max', 'field': 'jx', 'ftype': 'integer',
         'mode': 'inner', 'source_delete': True}
    if edge == 'inner_join_empty_source':
        return [tab('src', []), tab('tgt', rows(100, big))], [j], 0
    if edge == 'inner_join_empty_target':
        return [tab('src', rows(0, big)), tab('tgt', [])], [j], 0
    if edge == 'inner_join_no_match':
        return [tab('src', rows(0, big, n=77)), tab('tgt', rows(100, big))], [j], 0
    if edge == 'join_source_delete':
        return [tab('src', rows(0, big)), tab('tgt', rows(100, 5)), tab('other', rows(200, 4))], \
            [dict(j, mode='half-outer')], 0
    if edge == 'delete_all_but_one':
        return [tab('a', rows(0, big)), tab('b', rows(100, 2)), tab('c', rows(200, big))], \
            [{'op': 'delete_resource', 'res': 'a', 'sel': 'a'}, {'op': 'delete_resource', 'res': 'c', 'sel': -1}], 0
    if edge == 'filter_everything':
        return [tab('a', rows(0, big, n=9))], [{'op': 'filter_rows', 'res': 'a', 'sel': None, 'cond': 'keep_n_small'}], 0
    if edge == 'concat_then_delete':
        return [tab('a', rows(0, big)), tab('b', rows(100, 3)), tab('c', rows(200, 2))], \
            [{'op': 'concatenate', 'members': ['a', 'b'], 'target': 'cat', 'fields': ['id', 'n', 's'],
              'types': ['integer', 'integer', 'string']}, {'op': 'delete_resource', 'res': 'cat', 'sel': 'cat'}], 0
    if edge == 'dedup_all_same':
        return [tab('a', rows(0, big, n=1))], [{'op': 'set_primary_key', 'res': 'a', 'sel': 'a', 'pk': ['n']},
                                                  {'op': 'deduplicate', 'res': 'a', 'sel': 'a'}], 1
    if edge == 'same_stem_paths':
        ts = [tab('a', rows(0, big)), tab('b', rows(100, 3)), tab('c', rows(200, 2))]
        sp = [{'op': 'update_resource', 'res': n_, 'sel': n_, 'props': {'path': 'data/figures' + e_}}
              for n_, e_ in zip('abc', ['.json', '.csv', '.tsv'])]
        return ts, sp, 3
    if edge.startswith('foreign_package/'):
        n = rng.choice([2, 7, 30])
        t = {'name': 'fp', 'kind': 'package', 'pkg_shape': edge.split('/')[1], 'fields': [list(f) for f in F],
             'rows': rows(0, n)}
        return [t], [], 0
    if edge == 'raw_csv_load':
        n = rng.choice([2, 7, 120])
        cols = [['id', 'integer'], ['b', 'boolean'], ['t', 'datetime'], ['x', 'number'], ['dt', 'date'], ['s', 'string']]
        lines = ['id,b,t,x,dt,s']
        for i in range(n):
            lines.append('%d,%s,2020-01-%02dT10:00:00Z,%s,2019-12-%02d,%s' % (
                i, ['true', 'false'][i % 2], i % 28 + 1, ['1.5', '2', '-0.25'][i % 3], i % 28 + 1, ['a', 'hello', 'b c'][i % 3]))
        t = {'name': 'raw', 'kind': 'csv', 'fields': cols, 'rows': [None] * n, 'csv_text': '\n'.join(lines) + '\n'}
        return [t], [], 0
    # mutate_in_place_after: >20 rows and in-place editors right after the observer
    return [tab('a', rows(0, rng.choice([25, 60, 130])))], \
        [{'op': 'user', 'fn': 'u_bump_n', 'form': 'function'},
         {'op': 'find_replace', 'res': 'a', 'sel': 'a', 'patterns': [['l+', 'L'], ['a', 'A']]},
         {'op': 'user', 'fn': 'u_rows_twice_n', 'form': 'function'}], 0


def proj(desc):
    out = []
    for r in desc.get('resources', []):
        sch = r.get('schema', {})
        out.append((r['name'], [(f['name'], f.get('type', 'string')) for f in sch.get('fields', [])],
                    sch.get('primaryKey') or None, sch.get('missingValues', [''])))     # (Table Schema default: [''])
    return out


C_LOCALE_SCRIPT = r'''
import json, sys
import dataflows as d
# (ASCII-only source text: a C-locale interpreter cannot read anything else from its command line)
rows = [{'id': i, 't': t} for i, t in enumerate(['plain', 'z\u00f3\u0142\u0107', '\u65e5\u672c\u8a9e', '\U0001F600 ok', 'fin'])]
OBS = {'stream': lambda: d.stream('obs.ndjson'), 'checkpoint': lambda: d.checkpoint('obs', checkpoint_path='cpo'),
       'dump_to_path': lambda: d.dump_to_path('obs_dump'), 'printer': lambda: d.printer(), 'validate': lambda: d.validate()}
out = {}
for name in ['none'] + sorted(OBS):
    try:
        steps = [[dict(r) for r in rows], d.update_resource(-1, name='t\u00e9st')] + ([OBS[name]()] if name != 'none' else []) + \
            [d.add_field('z', 'integer', 1)]
        res = d.Flow(*steps).results()
        out[name] = [res[0], [r['name'] for r in res[1].descriptor['resources']]]
    except Exception as e:
        out[name] = 'FAILED: ' + str(getattr(e, 'cause', e))[:200]
sys.stderr.write('RESULT ' + json.dumps(out) + chr(10))
'''


def run_c_locale(case):
    import json
    import subprocess
    counters = {'downstream_compared': 0, 'observer_content_compared': 0, 'finalizer_calls_checked': 0}
    env = dict(os.environ, PYTHONPATH=boot.REPO, LC_ALL='C', LANG='C', PYTHONUTF8='0', PYTHONCOERCECLOCALE='0',
               PYTHONIOENCODING='ascii:backslashreplace')
    viol = []
    try:
        p = subprocess.run([boot.PY, '-W', 'ignore', '-c', C_LOCALE_SCRIPT], capture_output=True, text=True, timeout=150,
                           env=env, cwd=os.getcwd())
    except subprocess.TimeoutExpired:
        return dict(nontrivial=False, violations=[], counters=counters, cov={'observer_x_discarder_x_pos': {}},
                    inconclusive='subprocess timed out')
    line = next((ln for ln in p.stderr.splitlines() if ln.startswith('RESULT ')), None)
    if line is None:
        return dict(nontrivial=False, violations=[], counters=counters, cov={'observer_x_discarder_x_pos': {}},
                    inconclusive='no result from the C-locale subprocess: %s' % p.stderr[-300:])
    out = json.loads(line[7:])
    base = out.pop('none')
    cov = {}
    for name, got in sorted(out.items()):
        counters['downstream_compared'] += 1
        counters['observer_content_compared'] += 1
        cov['%s|c_locale|middle' % name] = 1
        if got != base:
            viol.append({'kind': 'observer_breaks_run' if isinstance(got, str) else 'downstream_rows',
                         'mech': '%s/c_locale' % name, 'observer': name,
                         'msg': 'in a process whose locale is not UTF-8 (LC_ALL=C) inserting %s changes the outcome: %r, without '
                         'it %r' % (name, got if isinstance(got, str) else got[0][0][:2], base if isinstance(base, str) else base[0][0][:2])})
    return dict(nontrivial=not isinstance(base, str), violations=viol, counters=counters,
                cov={'observer_x_discarder_x_pos': cov}, sample={'c_locale': sorted(out)})


def run_observer_rerun(case):
    """ONE Flow object (re-iterable source) with an observer, run three times; and the observer step re-used in a second
    flow: the observer does its job in every run."""
    import io
    d = lab.df()
    rng = boot.rng(case['seed'], 'C05', 'rerun', case['idx'])
    counters = {'downstream_compared': 0, 'observer_content_compared': 0, 'finalizer_calls_checked': 0}
    viol = []
    n = rng.choice([1, 5, 30])
    rows = [{'id': i, 's': 'v%d' % i} for i in range(n)]
    fired = []
    printed = []

    class Keep(io.StringIO):
        def close(self):
            pass
    sinks = [Keep()]
    obs_kind = ['finalizer', 'finalizer_stats', 'printer', 'stream', 'dump_to_path', 'update_stats'][case['idx'] % 6]

    def cb():
        fired.append(1)

    def cb_stats(stats):
        fired.append(dict(stats))
    obs = {'finalizer': lambda: d.finalizer(cb), 'finalizer_stats': lambda: d.finalizer(cb_stats),
           'printer': lambda: d.printer(header_print=lambda *a, **k: printed.append(1), table_print=lambda *a, **k: None),
           'stream': lambda: d.stream(sinks[0]), 'dump_to_path': lambda: d.dump_to_path('rerun_out'),
           'update_stats': lambda: d.update_stats({'marker': 7})}[obs_kind]()
    flow = d.Flow([dict(r) for r in rows], obs, d.add_field('z', 'integer', 1))
    cfg = {'observer': obs_kind, 'rows': n}
    for run_no in (1, 2, 3):
        before = (len(fired), len(printed), len(sinks[0].getvalue()))
        try:
            with boot.quiet():
                res, dp, stats = flow.results()
        except Exception as e:
            viol.append({'kind': 'observer_breaks_run', 'mech': '%s/rerun_failed' % obs_kind, 'observer': obs_kind,
                         'msg': '%r: run %d of the same Flow object failed: %s' % (cfg, run_no, str(getattr(e, 'cause', e))[:200])})
            break
        counters['downstream_compared'] += 1
        counters['observer_content_compared'] += 1
        if [r['id'] for r in res[0]] != list(range(n)):
            viol.append({'kind': 'downstream_rows', 'mech': '%s/rerun_rows' % obs_kind, 'observer': obs_kind,
                         'msg': '%r: run %d delivered ids %r' % (cfg, run_no, [r['id'] for r in res[0]][:5])})
        did = {'finalizer': len(fired) - before[0] == 1, 'finalizer_stats': len(fired) - before[0] == 1,
               'printer': len(printed) - before[1] == 1, 'stream': len(sinks[0].getvalue()) > before[2],
               'dump_to_path': os.path.exists('rerun_out/datapackage.json'), 'update_stats': stats.get('marker') == 7}[obs_kind]
        if obs_kind.startswith('finalizer'):
            counters['finalizer_calls_checked'] += 1
        if not did:
            viol.append({'kind': 'observer_idle_on_rerun', 'mech': '%s/idle_on_rerun' % obs_kind, 'observer': obs_kind,
                         'msg': '%r: in run %d of the same Flow object the observer did not do its job (callback fired / '
                         'output written)' % (cfg, run_no)})
            break
        if obs_kind == 'dump_to_path':
            import shutil
            shutil.rmtree('rerun_out', ignore_errors=True)
    return dict(nontrivial=True, violations=viol, counters=counters,
                cov={'observer_x_discarder_x_pos': {'%s|same_flow_three_runs|middle' % obs_kind: 1}}, sample={'config': cfg})


def run_same_type_twins(case):
    import datetime
    d = lab.df()
    counters = {'downstream_compared': 0, 'observer_content_compared': 0, 'finalizer_calls_checked': 0}
    which, fmt = ['dates', 'instants'][case['combo'] & 1], ['csv', 'json'][(case['combo'] >> 1) & 1]
    tz = datetime.timezone(datetime.timedelta(hours=2))
    if which == 'dates':
        rows = [dict(id=i, start=datetime.date(2021, 1 + i, 4), end=datetime.date(2021, 5, 6 + i)) for i in range(5)]
        types = lambda: [d.set_type('start', type='date', outputFormat='%d/%m/%Y'),      # noqa: E731
                         d.set_type('end', type='date', outputFormat='%m/%d/%Y')]
        opts = {'temporal_format_property': 'outputFormat', 'format': fmt}
    else:
        rows = [dict(id=i, seen=datetime.datetime(2021, 3, 4 + i, 12, 30, 0, tzinfo=tz),
                     logged=datetime.datetime(2021, 3, 4 + i, 10, 30, 0)) for i in range(5)]
        types = lambda: [d.set_type('seen', type='datetime', format='%Y-%m-%dT%H:%M:%S%z'),     # noqa: E731
                         d.set_type('logged', type='datetime')]
        opts = {'format': fmt}
    cfg = {'observer': 'dump_to_path', 'options': opts, 'fields': which}
    viol = []
    try:
        with boot.quiet():
            expected = d.Flow([dict(r) for r in rows], *types()).results()[0][0]
            down = d.Flow([dict(r) for r in rows], *types(), d.dump_to_path('twins_out', **copy.deepcopy(opts)),
                          d.filter_rows(condition=lambda row: row['id'] % 2 == 0)).results()[0][0]
    except Exception as e:
        return dict(nontrivial=False, violations=[{'kind': 'observer_breaks_run', 'mech': 'dump_to_path/twins_failed',
                                                   'observer': 'dump_to_path', 'msg': '%r: %s' % (cfg, str(getattr(e, 'cause', e))[:200])}],
                    counters=counters, cov={})
    counters['downstream_compared'] += 1
    if not lab.strict_eq(down, [r for r in expected if r['id'] % 2 == 0]):
        viol.append({'kind': 'downstream_rows', 'mech': 'dump_to_path/twins_downstream', 'observer': 'dump_to_path',
                     'msg': '%r: rows downstream of the dump %r' % (cfg, down[:2])})
    try:
        with boot.quiet():
            back = d.Flow(d.load('twins_out/datapackage.json')).results()[0][0]
    except Exception as e:
        back = 'unreadable through its own descriptor: %s' % str(getattr(e, 'cause', e))[:150]
    counters['observer_content_compared'] += 1
    if isinstance(back, str) or not lab.strict_eq(back, expected):
        viol.append({'kind': 'observer_content', 'mech': 'dump_to_path/twins_content', 'observer': 'dump_to_path',
                     'msg': '%r: the dump holds %r, the rows that passed it %r' % (cfg, back if isinstance(back, str) else back[:2],
                                                                                   expected[:2])})
    return dict(nontrivial=True, violations=viol, counters=counters,
                cov={'observer_x_discarder_x_pos': {'dump_to_path|same_type_written_differently/%s/%s|middle' % (which, fmt): 1}},
                sample={'config': cfg})


def run_writer_failure(case):
    import datetime
    import json as json_
    import zipfile
    d = lab.df()
    counters = {'downstream_compared': 0, 'observer_content_compared': 0, 'finalizer_calls_checked': 0}
    kind = ['dump_to_path', 'dump_to_zip'][case['combo'] & 1]
    N, BAD = 8, 5
    rows = [{'id': i, 'payload': dict({'n': i}, **({'at': datetime.date(2020, 1, i + 1)} if i == BAD else {}))} for i in range(N)]
    F = [{'name': 'id', 'type': 'integer'}, {'name': 'payload', 'type': 'object'}]

    def tolerant(rows):
        try:
            yield from rows
        except Exception:
            return
    out = 'wf_out' if kind == 'dump_to_path' else 'wf_out.zip'
    cfg = {'observer': kind, 'row_the_writer_cannot_write': BAD, 'rows': N, 'later_step': 'ends the resource quietly on an error'}
    raised = None
    try:
        with boot.quiet():
            d.Flow(lab.source('ev', F, rows), lab.source('other', [{'name': 'key', 'type': 'string'}], [{'key': 'k%d' % i} for i in range(3)]),
                   getattr(d, kind)(out), tolerant).process()
    except Exception as e:
        raised = e
    viol = []
    desc = None
    try:
        if kind == 'dump_to_path':
            desc = json_.load(open(os.path.join(out, 'datapackage.json')))
            read = lambda p_: open(os.path.join(out, p_), 'rb').read()        # noqa: E731
        else:
            z = zipfile.ZipFile(out)
            desc = json_.loads(z.read('datapackage.json'))
            read = z.read
    except Exception:
        desc = None
    counters['observer_content_compared'] += 1
    if desc is not None:
        for r in desc.get('resources', []):
            want = N if r['name'] == 'ev' else 3
            try:
                have = len(read(r['path']).decode('utf-8').splitlines()) - 1
            except Exception:
                have = None
            if have != want:
                viol.append({'kind': 'observer_content', 'mech': '%s/committed_without_its_rows' % kind, 'observer': kind,
                             'msg': '%r: the dump was committed (datapackage.json written%s) with %s of the %d rows of %r'
                             % (cfg, '' if raised is None else ', the run raised', 'no data file' if have is None else have, want, r['name'])})
                break
    return dict(nontrivial=True, violations=viol, counters=counters,
                cov={'observer_x_discarder_x_pos': {'%s|writer_failure_then_tolerant_step/%s|middle'
                                                    % (kind, 'raised' if raised is not None else 'returned'): 1}}, sample={'config': cfg})


def run_dump_again(case):
    d = lab.df()
    rng = boot.rng(case['seed'], 'C05', 'dump_again', case['idx'])
    counters = {'downstream_compared': 0, 'observer_content_compared': 0, 'finalizer_calls_checked': 0}
    filehash, no_hash = bool(case['combo'] & 1), bool(case['combo'] & 2)
    fmt = rng.choice(['csv', 'json'])
    opts = {'format': fmt}
    if filehash:
        opts['add_filehash_to_path'] = True
    if no_hash:
        opts['counters'] = {'resource-hash': None}
    cfg = {'observer': 'dump_to_path', 'options': opts, 'dumps_into_the_same_directory': 2}
    viol = []
    n = rng.choice([2, 6, 25])
    for gen_no in (1, 2):
        rows = [{'id': i, 's': 'g%d-%d' % (gen_no, i)} for i in range(n + gen_no)]
        try:
            with boot.quiet():
                res = d.Flow([dict(r) for r in rows], d.update_resource(-1, name='res', path='res.csv'),
                             d.dump_to_path('again_out', **copy.deepcopy(opts)), d.add_field('z', 'integer', 1)).results()[0]
                back = d.Flow(d.load('again_out/datapackage.json')).results()[0]
        except Exception as e:
            viol.append({'kind': 'observer_breaks_run', 'mech': 'dump_to_path/dump_again_failed', 'observer': 'dump_to_path',
                         'msg': '%r: dump %d (or loading it back) failed: %s' % (cfg, gen_no, str(getattr(e, 'cause', e))[:200])})
            break
        counters['downstream_compared'] += 1
        counters['observer_content_compared'] += 1
        if [dict(r, z=1) for r in rows] != res[0]:
            viol.append({'kind': 'downstream_rows', 'mech': 'dump_to_path/dump_again_downstream', 'observer': 'dump_to_path',
                         'msg': '%r: dump %d: rows downstream %r' % (cfg, gen_no, res[0][:3])})
        if back != [rows]:
            viol.append({'kind': 'observer_content', 'mech': 'dump_to_path/dump_again_stale_content', 'observer': 'dump_to_path',
                         'msg': '%r: after dump %d the directory holds %r..., the rows that passed the dumper are %r...'
                         % (cfg, gen_no, [r[:2] for r in back], rows[:2])})
            break
    return dict(nontrivial=True, violations=viol, counters=counters,
                cov={'observer_x_discarder_x_pos': {'dump_to_path|dump_again_other_data/%s%s%s|middle'
                                                    % (fmt, '/filehash' if filehash else '', '/no_hash_counter' if no_hash else ''): 1}},
                sample={'config': cfg})


def run_stream_names(case):
    """stream('<path>') publishes the captured stream under exactly the requested name."""
    d = lab.df()
    counters = {'downstream_compared': 0, 'observer_content_compared': 0, 'finalizer_calls_checked': 0}
    viol = []
    rows = [{'id': i, 's': 'v%d' % i} for i in range(4)]
    for name in ['capture.dat', 'state', 'x.tsv', 'out/notes.active.bak', 'out/e', 'archive.active', 'data.ndjson', 'cc.cat']:
        target = os.path.join('sn', name)
        try:
            with boot.quiet():
                res = d.Flow([dict(r) for r in rows], d.stream(target)).results()[0]
        except Exception as e:
            viol.append({'kind': 'observer_breaks_run', 'mech': 'stream_path/failed', 'observer': 'stream',
                         'msg': 'stream(%r) made the run fail: %s' % (target, str(getattr(e, 'cause', e))[:200])})
            continue
        counters['downstream_compared'] += 1
        counters['observer_content_compared'] += 1
        there = sorted(os.path.relpath(os.path.join(dp_, f_), 'sn') for dp_, _, fs_ in os.walk('sn') for f_ in fs_)
        if not os.path.isfile(target):
            viol.append({'kind': 'stream_published_name', 'mech': 'stream_path/published_under_another_name', 'observer': 'stream',
                         'msg': 'stream(%r): no file of that name after the run; files: %r' % (target, there)})
        else:
            sdesc, sres, complete, problems = iolab.parse_ndjson(open(target).read())
            if not complete or [len(r) for r in sres] != [len(rows)]:
                viol.append({'kind': 'stream_incomplete', 'mech': 'stream_path/content', 'observer': 'stream',
                             'msg': 'stream(%r): file incomplete: %s' % (target, problems)})
        import shutil
        shutil.rmtree('sn', ignore_errors=True)
    return dict(nontrivial=True, violations=viol, counters=counters,
                cov={'observer_x_discarder_x_pos': {'stream|path_names|last': 1}}, sample={'names': 8})


def run_case(case):
    if case['family'] == 'c_locale':
        return run_c_locale(case)
    if case['family'] == 'stream_names':
        return run_stream_names(case)
    if case['family'] == 'dump_again_other_data':
        return run_dump_again(case)
    if case['family'] == 'writer_failure_then_tolerant_step':
        return run_writer_failure(case)
    if case['family'] == 'same_type_written_differently':
        return run_same_type_twins(case)
    if case['family'] == 'observer_rerun':
        return run_observer_rerun(case)
    kind = case['family']
    rng = boot.rng(case['seed'], 'C05', case['idx'])
    d = lab.df()
    counters = {'downstream_compared': 0, 'observer_content_compared': 0, 'finalizer_calls_checked': 0}
    cov = {'observer_x_discarder_x_pos': {}}
    viol = []
    tables = dsl.initial_tables(rng, sizes=(0, 1, 3, 7, 100, 101), typed_extra=False)
    if boot.rng(case['seed'], 'C05', 'twins', case['idx']).random() < 0.25:
        # cells that compare equal without being the same cell: 2.5 / 2.50, one instant under two UTC offsets
        import datetime
        tz = datetime.timezone
        tw_n = [decimal.Decimal('2.5'), decimal.Decimal('2.50'), decimal.Decimal('2.500'), decimal.Decimal('1E+1'),
                decimal.Decimal('10')]
        tw_t = [datetime.datetime(2020, 6, 1, 12, 0, tzinfo=tz.utc),
                datetime.datetime(2020, 6, 1, 14, 0, tzinfo=tz(datetime.timedelta(hours=2))),
                datetime.datetime(2020, 6, 1, 3, 0, tzinfo=tz(datetime.timedelta(hours=-9)))]
        for t_ in tables:
            if t_.get('kind') == 'load' and t_['rows']:
                t_['fields'] = t_['fields'] + [['tw_n', 'number'], ['tw_t', 'datetime']]
                for i_, r_ in enumerate(t_['rows']):
                    r_['tw_n'] = tw_n[i_ % len(tw_n)]
                    r_['tw_t'] = tw_t[i_ % len(tw_t)]
                cov.setdefault('config', {})['equal_but_not_identical_cells'] = 1
    pre_ops = ['add_field', 'rename_fields', 'add_computed_field', 'set_primary_key', 'filter_rows',
               'update_resource', 'duplicate', 'sort_rows', 'find_replace', 'set_type', 'append_load']
    n1 = rng.randint(0, 3)
    n2 = rng.randint(1, 3)
    tables, s1, sh = dsl.gen_program(rng, length=n1, ops=pre_ops, tables=tables) if n1 else (tables, [], [])
    shape_mid = sh[-1] if sh else dsl.source_shape(tables)
    _, s2, _ = dsl.gen_program(rng, length=n2, ops=DISCARDERS + ['add_field', 'set_primary_key'] + MUTATORS,
                               tables=[{'name': r['name'], 'fields': r['fields'], 'rows': [], 'kind': 'load'}
                                       for r in shape_mid])
    # gen_program re-derives names for its "tables": keep the pk knowledge by regenerating with real shape
    specs = s1 + s2
    # validate the whole program shape once more by replaying the shape functions
    shape = dsl.source_shape(tables)
    ok_specs = []
    for s in specs:
        try:
            if s['op'] == 'deduplicate' and not next(r for r in shape if r['name'] == s['res'])['pk']:
                continue
            shape = dsl.OPS[s['op']].shape(s, copy.deepcopy(shape))
            ok_specs.append(s)
        except (StopIteration, ValueError, KeyError, IndexError):
            continue
    specs = [dict(sp, form='function') if sp['op'] == 'user' else sp for sp in ok_specs]
    p = rng.randint(0, len(specs))
    if case.get('edge'):
        edge_ = case['edge'] + ('/' + case['pkg_shape'] if case.get('pkg_shape') else '')
        tables, specs, p = edge_program(rng, edge_)
    prefix, suffix = specs[:p], specs[p:]
    prog = dsl.render(tables, specs)
    discards = sorted({s['op'] for s in suffix if s['op'] in DISCARDERS})
    relpos = 'last' if p == len(specs) else ('first' if p == 0 else 'middle')
    cov['observer_x_discarder_x_pos']['%s|%s|%s' % (kind, '+'.join(discards) or 'none', relpos)] = 1
    cnt = {'before': 0, 'after': 0}
    fin_calls = []
    fin_stats = []

    def counting(name):
        def step(package):
            yield package.pkg
            for res in package:
                def it(res=res):
                    for row in res:
                        cnt[name] += 1
                        yield row
                yield it()
        return step

    def observer_steps(env):
        """-> list of real steps forming the observer (fresh), plus spec list for reporting."""
        kinds = [kind] if kind != 'pair' else rng_pair
        out = []
        for k in kinds:
            if k == 'printer':
                out.append(d.printer(num_rows=2, tablefmt='plain', header_print=env.sink_header,
                                     table_print=env.sink_table))
            elif k == 'dump_to_path':
                env.dump_dirs.append('obs_dump_' + env.tag)
                out.append(d.dump_to_path('obs_dump_' + env.tag, format=dump_fmt))
            elif k == 'dump_to_zip':
                env.zip = 'obs_' + env.tag + '.zip'
                out.append(d.dump_to_zip(env.zip, format=dump_fmt))
            elif k == 'stream':
                out.append(dsl.Stream.build({'key': 'obs'}, env))
            elif k == 'checkpoint':
                out.append(d.checkpoint('obs', checkpoint_path='cp_' + env.tag))
            elif k == 'finalizer':
                if boot.rng(case['seed'], 'C05', 'finstats', case['idx']).random() < 0.5:
                    # the documented callback form with a `stats` parameter: it is handed the stats as they are WHEN IT
                    # FIRES (a dict registered with update_stats is filled by a row step while the rows pass)
                    live = {'rows_seen': 0}

                    def mk_seen(live):
                        def seen(row):
                            live['rows_seen'] += 1
                        return seen
                    seen = mk_seen(live)

                    def cb(stats):
                        fin_calls.append((cnt['before'], cnt['after']))
                        fin_stats.append(dict(stats))
                    out += [counting('before'), seen, d.update_stats(live), d.finalizer(cb), counting('after')]
                else:
                    def cb():
                        fin_calls.append((cnt['before'], cnt['after']))
                    out += [counting('before'), d.finalizer(cb), counting('after')]
            elif k == 'update_stats':
                out.append(d.update_stats({'obs_stat': 42}))
            elif k == 'validate':
                out.append(d.validate())
        return out
    dump_fmt = rng.choice(['csv', 'json'])
    rng_pair = rng.sample(['printer', 'dump_to_path', 'stream', 'finalizer', 'validate', 'update_stats'], 2)
    obs_label = kind if kind != 'pair' else '+'.join(rng_pair)

    def steps(with_obs, tag, upto=None):
        env = dsl.Env(tag)
        st = [dsl.build_source(t) for t in tables]
        st += [dsl.OPS[s['op']].build(s, env) for s in prefix]
        if with_obs:
            st += observer_steps(env)
        if upto is None:
            st += [dsl.OPS[s['op']].build(s, env) for s in suffix]
        return st, env

    def add(kind_, msg, mech):
        viol.append({'kind': kind_, 'mech': mech, 'msg': '%s; observer %s at %d of %s'
                     % (msg, obs_label, p, gen.render(prog, 1200)), 'program': prog, 'observer': obs_label,
                     'position': p})
    def tail_probe(sink):
        # the rows as they ARRIVE at the end of the pipeline (results() casts them once more on its own)
        def tail(package):
            yield package.pkg
            for res in package:
                rows_ = []
                sink.append(rows_)

                def it(res=res, rows_=rows_):
                    for row in res:
                        rows_.append(copy.deepcopy(row))
                        yield row
                yield it()
        return tail
    raw_base, raw_obs = [], []
    st, _ = steps(False, 'base')
    base = lab.run(st + [tail_probe(raw_base)], validate=True)
    if not base.ok:
        # base program itself fails (e.g. key clash): not a C05 case
        return dict(nontrivial=False, violations=[], cov=cov, counters=counters)
    st, _ = steps(False, 'pre', upto=p)
    at_p = lab.run(st, validate=True)
    assert at_p.ok, at_p.errstr()
    st, env = steps(True, 'obs')
    cnt['before'] = cnt['after'] = 0
    del fin_calls[:]
    del fin_stats[:]
    # what printer hands to tabulate (row lists already rendered to text) is captured through a module-level shim
    prm = boot.module('dataflows.processors.printer')
    real_tabulate = prm.tabulate
    printed_rows = []

    def tab_shim(rows_, headers=(), **kw):
        printed_rows.append(([list(r) for r in rows_], list(headers)))
        return real_tabulate(rows_, headers=headers, **kw)
    prm.tabulate = tab_shim
    try:
        with_obs = lab.run(st + [tail_probe(raw_obs)], validate=True)
    finally:
        prm.tabulate = real_tabulate
    if not with_obs.ok:
        c = getattr(with_obs.exc, 'cause', with_obs.exc)
        add('observer_breaks_run', 'inserting the observer makes the run fail: %s: %s'
            % (type(c).__name__, str(c)[:300]), '%s/run_failed' % obs_label)
        return dict(nontrivial=False, violations=viol, cov=cov, counters=counters)
    # (1) transparency
    counters['downstream_compared'] += 1
    if proj(with_obs.dp) != proj(base.dp):
        add('downstream_schema', 'downstream schemas change: %r vs %r' % (proj(with_obs.dp), proj(base.dp)),
            '%s/downstream_schema' % obs_label)
    elif len(with_obs.results) != len(base.results) or any(
            lab.rows_diff(a, b, 1) for a, b in zip(base.results, with_obs.results)):
        dd = next((lab.rows_diff(a, b, 1) for a, b in zip(base.results, with_obs.results)
                   if lab.rows_diff(a, b, 1)), ['resource count'])
        add('downstream_rows', 'downstream rows change: %s' % dd[0][:400], '%s/downstream_rows' % obs_label)
    else:
        # ... and cell for cell as they arrive (2.5 stays 2.5, it does not become 2.50; an offset stays that offset)
        # (validating observers - validate, the dumpers - hand on the CAST cell: both sides go through the reference caster
        # of tableschema, cell by cell, before they are compared)
        import tableschema

        def cast_all(streams):
            out = []
            for rd, rows_ in zip(base.dp['resources'], streams):     # (the schema as it is WITHOUT the observer)
                try:
                    fl = {f.name: f for f in tableschema.Schema(rd['schema']).fields}
                except Exception:
                    fl = {}
                res_ = []
                for r_ in rows_:
                    c_ = {}
                    for k_, v_ in r_.items():
                        try:
                            c_[k_] = fl[k_].cast_value(v_) if k_ in fl else v_
                        except Exception:
                            c_[k_] = v_
                    res_.append(c_)
                out.append(res_)
            return out
        with lab.exact_decimals():
            cb, co = cast_all(raw_base), cast_all(raw_obs)
            dd = next((lab.rows_diff(a, b, 1) for a, b in zip(cb, co) if lab.rows_diff(a, b, 1)), None)
        if dd:
            add('downstream_rows', 'downstream rows change (as they arrive at the end of the pipeline): %s' % dd[0][:400],
                '%s/downstream_rows_raw' % obs_label)
    # (2) completeness of what the observer captured
    exp_names = at_p.names
    exp_rows = at_p.results
    total = sum(len(r) for r in exp_rows)
    kinds = [kind] if kind != 'pair' else rng_pair
    for k in kinds:
        counters['observer_content_compared'] += 1
        if k == 'printer':
            if env.printed != exp_names:
                add('printer_headers', 'printer headers %r, stream at its position has resources %r'
                    % (env.printed, exp_names), 'printer/headers')
            elif len(env.tables_printed) != len(exp_names):
                add('printer_tables', '%d tables printed for %d resources' % (len(env.tables_printed), len(exp_names)),
                    'printer/tables')
            else:
                for name, text, rows in zip(exp_names, env.tables_printed, exp_rows):
                    idx = [int(ln.split()[0]) for ln in text.split('\n') if ln.split() and ln.split()[0].isdigit()]
                    top = max(idx) if idx else 0
                    if top != len(rows):
                        add('printer_rows', 'printer saw %d rows of %s, the stream has %d' % (top, name, len(rows)),
                            'printer/row_count')
                # content: every printed row must show the values the row had AT the printer's position
                for name, (prow, headers), rows, rd in zip(exp_names, printed_rows, exp_rows, at_p.dp['resources']):
                    fnames = [f['name'] for f in rd['schema']['fields']]
                    for pr in prow:
                        if pr == ['...'] or not pr:
                            continue
                        i = pr[0]
                        if not isinstance(i, int) or not (1 <= i <= len(rows)):
                            add('printer_content', 'printer row index %r out of range for %s' % (i, name), 'printer/content')
                            break
                        def cell(v):        # printer truncates long cells (max_cell_size=100)
                            v = str(v)
                            return v[:100] + ' ...' if len(v) > 100 else v
                        want = [cell(rows[i - 1].get(f)) for f in fnames]
                        if [str(x) for x in pr[1:]] != want:
                            add('printer_content', 'printer shows row %d of %s as %r, the stream at its position has %r'
                                % (i, name, pr[1:], want), 'printer/content')
                            break
        elif k in ('dump_to_path', 'dump_to_zip'):
            if k == 'dump_to_path':
                w = iolab.Written(env.dump_dirs[0])
                ld = d.load(os.path.join(env.dump_dirs[0], 'datapackage.json'), strip=False)
            else:
                w = iolab.Written(env.zip, is_zip=True)
                ld = d.load(env.zip, format='datapackage', strip=False)
            try:
                wd = w.descriptor()
                wn = [r['name'] for r in wd['resources']]
                if wn != exp_names:
                    add('dump_resources', 'dump holds resources %r, the stream at its position has %r' % (wn, exp_names),
                        '%s/resources' % k)
                else:
                    for rd, rows in zip(wd['resources'], exp_rows):
                        try:
                            nfile = iolab.count_data_rows(rd, w.read(rd['path']))
                        except Exception as e:
                            add('dump_unreadable', 'dumped file %s cannot be read with the format the descriptor records '
                                '(%d rows in the stream): %s: %s' % (rd['path'], len(rows), type(e).__name__, str(e)[:120]),
                                '%s/unreadable_file' % k)
                            continue
                        if rd.get('count_of_rows') != nfile:
                            # complete capture includes what the dump says about itself
                            add('dump_row_count_recorded', 'the dump of %s records count_of_rows=%r, its file holds %d rows'
                                % (rd['name'], rd.get('count_of_rows'), nfile), '%s/recorded_row_count' % k)
                        if nfile != len(rows):
                            add('dump_rows', 'dumped file of %s holds %d rows, the stream has %d'
                                % (rd['name'], nfile, len(rows)), '%s/row_count' % k)
                        wf = [f['name'] for f in rd['schema']['fields']]
                        ef = [f['name'] for f in next(x for x in at_p.dp['resources'] if x['name'] == rd['name'])['schema']['fields']]
                        if wf != ef:
                            add('dump_schema', 'dumped schema of %s %r, stream has %r' % (rd['name'], wf, ef),
                                '%s/schema' % k)
            finally:
                w.close()
            back = lab.run([ld], validate=True)
            if not back.ok and type(getattr(back.exc, 'cause', back.exc)).__name__ == 'UniqueKeyError':
                pass    # the program declared a primary key over non-unique data: reading back not comparable
            elif not back.ok or back.swallowed:
                add('dump_unloadable', 'dump cannot be loaded back: %s' % (back.errstr() if not back.ok else back.swallowed[0]),
                    '%s/unloadable' % k)
            elif back.names == exp_names:
                for name, a, b in zip(exp_names, exp_rows, back.results):
                    if len(a) != len(b) or not all(lab.value_eq(x, y) or x.get('id') == y.get('id') for x, y in zip(a, b)):
                        add('dump_content', 'dump of %s differs from the stream at its position' % name, '%s/content' % k)
                    elif [x.get('id') for x in a] != [y.get('id') for y in b]:
                        add('dump_content', 'dump of %s: row ids differ' % name, '%s/content' % k)
        elif k in ('stream', 'checkpoint'):
            if k == 'stream':
                text = env.streams['obs'].getvalue()
                if getattr(env.streams['obs'], 'closed_called', False):
                    # the observer was handed an open file object: closing it takes it away from its owner (with the
                    # default, sys.stdout itself) - whatever writes there later in the run fails
                    add('stream_closes_callers_file', 'stream(<file object>) closed the file object it was given',
                        'stream/closes_callers_file')
            else:
                fn = os.path.join('cp_' + env.tag, 'obs', 'stream.ndjson')
                text = open(fn).read() if os.path.exists(fn) else ''
            sdesc, sres, complete, problems = iolab.parse_ndjson(text)
            if not complete:
                add('stream_incomplete', '%s output incomplete: %s' % (k, problems), '%s/incomplete' % k)
            elif [r['name'] for r in sdesc['resources']] != exp_names:
                add('stream_resources', '%s holds %r, stream at its position has %r'
                    % (k, [r['name'] for r in sdesc['resources']], exp_names), '%s/resources' % k)
            else:
                for name, a, b in zip(exp_names, exp_rows, sres):
                    if len(a) != len(b) or not all(lab.value_eq(x, y) for x, y in zip(a, b)):
                        add('stream_content', '%s rows of %s differ from the stream at its position (%d vs %d)'
                            % (k, name, len(b), len(a)), '%s/content' % k)
        elif k == 'update_stats':
            if with_obs.stats.get('obs_stat') != 42:
                add('stats_missing', 'update_stats value not in returned stats %r' % with_obs.stats, 'update_stats/missing')
        elif k == 'finalizer':
            counters['finalizer_calls_checked'] += 1
            if fin_stats and fin_calls and fin_stats[0].get('rows_seen') != fin_calls[0][0]:
                add('finalizer_stats', 'the finalizer callback fired after %d rows had reached it and was handed stats with '
                    'rows_seen=%r' % (fin_calls[0][0], fin_stats[0].get('rows_seen')), 'finalizer/stats_snapshot')
            if len(fin_calls) != 1:
                add('finalizer_calls', 'finalizer fired %d times' % len(fin_calls), 'finalizer/calls')
            elif fin_calls[0] != (total, total) and not (
                    # a later step that stops reading a resource early: the rows it left behind pass the finalizer but
                    # never reach the counting step placed after it
                    any(sp['op'] == 'user' and sp['fn'] in ('u_rows_first2', 'u_rows_break3') for sp in suffix)
                    and fin_calls[0][0] == total and fin_calls[0][1] <= total):
                add('finalizer_early', 'finalizer fired when %d of %d rows had reached it and %d had passed it'
                    % (fin_calls[0][0], total, fin_calls[0][1]), 'finalizer/timing')
    nontrivial = (bool(discards) or p < len(specs)) and total >= 1
    return dict(nontrivial=nontrivial, violations=viol, cov=cov, counters=counters,
                sample={'program': prog, 'observer': obs_label, 'position': p})
