"""C11: join() rewrites the caller's `fields` mapping in place, so a legitimate
mapping that shares one spec object between two target fields (e.g. built with
dict.fromkeys), or one mapping object handed to two join() steps, silently
produces the wrong aggregates."""
import sys
import warnings

from dataflows import Flow, join

warnings.simplefilter('ignore')

SRC = [
    dict(id=1, x=1, y=100),
    dict(id=1, x=2, y=200),
    dict(id=2, x=5, y=500),
]
TGT = [dict(id=1), dict(id=2)]
EXPECTED = [dict(id=1, x=3, y=300), dict(id=2, x=5, y=500)]


def run(fields):
    res, _, _ = Flow(
        [dict(r) for r in SRC], [dict(r) for r in TGT],
        join('res_1', ['id'], 'res_2', ['id'], fields),
    ).results()
    return res[0]


failed = False

# control: two equal-but-distinct spec objects
control = run({'x': {'aggregate': 'sum'}, 'y': {'aggregate': 'sum'}})
print('control  (distinct spec dicts)      :', control)
assert control == EXPECTED, 'control is wrong, demo is broken'

# A. the same mapping, but both keys refer to ONE spec object
shared = run(dict.fromkeys(['x', 'y'], {'aggregate': 'sum'}))
print('expected (dict.fromkeys, same spec) :', EXPECTED)
print('observed (dict.fromkeys, same spec) :', shared)
if shared != EXPECTED:
    print('  -> VIOLATION: field "y" holds sum(x), not sum(y)')
    failed = True

# B. one mapping object used by two join steps of the same flow
def two_joins(m1, m2):
    res, dp, _ = Flow(
        [dict(r) for r in SRC], [dict(id=1)], [dict(id=2)],
        join('res_1', ['id'], 'res_2', ['id'], m1, source_delete=False),
        join('res_1', ['id'], 'res_3', ['id'], m2, source_delete=False),
    ).results()
    names = [r['name'] for r in dp.descriptor['resources']]
    return res[names.index('res_3')]


control = two_joins({'x': {'aggregate': 'sum'}}, {'x': {'aggregate': 'sum'}})
print('control  second target (two mappings):', control)
assert control == [dict(id=2, x=5)], 'control is wrong, demo is broken'
mapping = {'x': {'aggregate': 'sum'}}
second = two_joins(mapping, mapping)
print('expected second target (res_3)      :', [dict(id=2, x=5)])
print('observed second target (res_3)      :', second)
print('caller\'s mapping after the run       :', mapping)
if second != [dict(id=2, x=5)]:
    print('  -> VIOLATION: the second join added no aggregate at all')
    failed = True

sys.exit(1 if failed else 0)
