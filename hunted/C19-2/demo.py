"""C19: a resource named 'datapackage' dumped as JSON is written to <out>/datapackage.json.

load('.../datapackage.csv') names the resource 'datapackage' (path 'datapackage.csv'); with
format='json' the dumper gives it the path 'datapackage.json' - the very name of the descriptor /
completion marker.  Its data file (a JSON array, perfectly parseable) is copied there as soon as the
FIRST resource is finished, long before the remaining data files are written.  A dump that is killed
later leaves a parseable datapackage.json in the fresh directory although the dump is incomplete; a
dump that runs to its end overwrites the data file with the descriptor, which then lists
'datapackage.json' as a data file with a size and hash that are not its own.
"""
import hashlib
import json
import os
import shutil
import subprocess
import sys
import tempfile


def child(src, out, kill):
    from dataflows import Flow, load, dump_to_path

    def killer(rows):
        for i, row in enumerate(rows):
            yield row
            if kill and rows.res.name == 'measurements' and i == 2:
                os._exit(9)        # the process dies in the middle of the second resource

    Flow(load(os.path.join(src, 'datapackage.csv')),
         load(os.path.join(src, 'measurements.csv')),
         dump_to_path(out, format='json'),
         killer).process()


def main():
    work = tempfile.mkdtemp(prefix='c19-demo-')
    try:
        src = os.path.join(work, 'src')
        os.makedirs(src)
        with open(os.path.join(src, 'datapackage.csv'), 'w') as f:      # e.g. a catalogue of data packages
            f.write('id,title\n1,first\n2,second\n')
        with open(os.path.join(src, 'measurements.csv'), 'w') as f:
            f.write('t,v\n' + ''.join('%d,%d\n' % (i, i * i) for i in range(10)))

        violations = []

        # --- run 1: killed while the second resource is being streamed
        out = os.path.join(work, 'out-killed')
        rc = subprocess.run([sys.executable, os.path.abspath(__file__), 'child', src, out, '1'],
                            stdout=subprocess.DEVNULL, stderr=subprocess.DEVNULL).returncode
        listing = sorted(os.listdir(out))
        marker = os.path.join(out, 'datapackage.json')
        print('run 1 (killed in the middle of resource 2 of 2, exit code %r)' % rc)
        print('  expected: no datapackage.json yet (measurements.json is not written)')
        print('  observed: directory listing', listing)
        if os.path.exists(marker):
            try:
                with open(marker) as f:
                    content = json.load(f)
                print('  observed: datapackage.json is present and parseable:', json.dumps(content)[:80])
                if not os.path.exists(os.path.join(out, 'measurements.json')):
                    violations.append('completion marker present and parseable while measurements.json is missing')
            except ValueError:
                print('  datapackage.json present but not parseable')

        # --- run 2: not interrupted
        out = os.path.join(work, 'out-complete')
        subprocess.run([sys.executable, os.path.abspath(__file__), 'child', src, out, '0'], check=True,
                       stdout=subprocess.DEVNULL, stderr=subprocess.DEVNULL)
        with open(os.path.join(out, 'datapackage.json'), 'rb') as f:
            raw = f.read()
        dp = json.loads(raw.decode('utf-8'))
        print('run 2 (complete)')
        print('  expected: every listed file exists with the recorded size and hash')
        print('  observed: directory listing', sorted(os.listdir(out)))
        for res in dp['resources']:
            path = os.path.join(out, res['path'])
            data = open(path, 'rb').read() if os.path.exists(path) else None
            ok = data is not None and len(data) == res.get('bytes') and hashlib.md5(data).hexdigest() == res.get('hash')
            print('  observed: resource %-12s path %-18s recorded bytes=%s hash=%s -> %s' % (
                res['name'], res['path'], res.get('bytes'), res.get('hash'),
                'ok' if ok else 'MISMATCH (file has %s bytes, md5 %s)' % (
                    None if data is None else len(data), None if data is None else hashlib.md5(data).hexdigest())))
            if not ok:
                violations.append('resource %s: listed file %s does not have the recorded size/hash'
                                  % (res['name'], res['path']))

        if violations:
            for v in violations:
                print('VIOLATION:', v)
            return 1
        print('no violation observed')
        return 0
    finally:
        shutil.rmtree(work, ignore_errors=True)


if __name__ == '__main__':
    if len(sys.argv) > 1 and sys.argv[1] == 'child':
        child(sys.argv[2], sys.argv[3], sys.argv[4] == '1')
        sys.exit(0)
    sys.exit(main())
