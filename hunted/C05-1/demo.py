"""
C05 - dump_to_path(add_filehash_to_path=True) does not persist the stream it saw when the
output directory already holds a datapackage.json (e.g. yesterday's run of the same pipeline):
the data file of the new run is written, but datapackage.json is silently NOT rewritten, so the
persisted package still describes (and points at) the old stream.

Run in an empty cwd:  PYTHONPATH=<tree> /venv/bin/python demo.py
"""
import json
import os
import shutil
import sys

from dataflows import Flow, load, dump_to_path, delete_resource

OUT = 'out_c05_1'
shutil.rmtree(OUT, ignore_errors=True)

run1 = [{'id': i, 'v': 'old-%d' % i} for i in range(3)]
run2 = [{'id': i, 'v': 'new-%d' % i} for i in range(5)]

try:
    # first run of the pipeline (e.g. yesterday)
    Flow(run1, dump_to_path(OUT, add_filehash_to_path=True)).process()

    # second run, other data at the dumper's position; a later step even deletes the resource
    prefix_rows = Flow(run2).results()[0]
    _, stats = Flow(run2,
                    dump_to_path(OUT, add_filehash_to_path=True),
                    delete_resource('res_1')).process()

    persisted_rows = Flow(load(os.path.join(OUT, 'datapackage.json'))).results()[0]
    descriptor = json.load(open(os.path.join(OUT, 'datapackage.json')))

    print('stats reported by the 2nd run      : count_of_rows=%r hash=%r' % (stats['count_of_rows'], stats['hash']))
    print('datapackage.json after the 2nd run : count_of_rows=%r hash=%r path=%r' % (
        descriptor.get('count_of_rows'), descriptor.get('hash'), descriptor['resources'][0]['path']))
    print()
    print('EXPECTED persisted rows (= stream at the dumper position):')
    print('   ', prefix_rows)
    print('OBSERVED rows when reading back the persisted datapackage:')
    print('   ', persisted_rows)

    ok = (persisted_rows == prefix_rows
          and descriptor.get('count_of_rows') == stats['count_of_rows'] == 5
          and descriptor.get('hash') == stats['hash'])
finally:
    shutil.rmtree(OUT, ignore_errors=True)

if ok:
    print('\nOK: the dumper persisted exactly the stream at its position')
    sys.exit(0)
print('\nVIOLATION: the persisted datapackage is not the stream the dumper saw '
      '(datapackage.json was left over from the previous run)')
sys.exit(1)
