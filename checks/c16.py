"""C16 Resource-level restructuring conserves rows.

Oracle: every input row carries a unique (resource, ordinal) id; reference placement models give the
expected resource order and, per output resource, the expected id sequence and field mapping.
"""
import copy
import datetime
import decimal

from vlib import boot, gen, lab, refmodel

PROPERTY = 'C16'
LEVEL = 'exploration'
RULE = ('seeded generation per family {concatenate, duplicate, duplicate followed by in-place mutators on the '
        'original (aliasing), delete_resource, appended iterables / load / sources (also after deletions), '
        'update_resource rename} x packages of 1..5 resources with differing schemas and sizes '
        '{0,1,3,100,101,1500} (thorough: 10300) x selector forms x field mappings x duplicate_to_end x '
        'batch_size {1,2,1000}; distinct = case hash; non-trivial = >=2 resources in the package and >=1 '
        'resource untouched by the step, with >=1 row moved/copied/removed')
ASSUMPTIONS = [
    'the order of fields inside the concatenated schema is not judged (name -> type compared)',
    'a copy made by duplicate may represent numbers with another Python type (float -> Decimal): value equality',
    'the auto-generated name of an appended iterable is not judged here (uniqueness is C02)',
    'rows whose mapped fields are all null (documented concatenate assertion) are not generated',
]
REQUIRED_COUNTERS = ['row_ids_accounted', 'untouched_resources_compared']
FAMILIES = ['concatenate', 'duplicate', 'duplicate_alias', 'delete_resource', 'append', 'rename', 'step_reuse']
D = decimal.Decimal
NAMES = ['r0', 'r1', 'r2', 'r3', 'r4']


def gen_cases(tier, seed):
    # the processors of this property once more with assertions disabled (python -O) against a normal interpreter
    yield {'family': 'optimized_differential', 'idx': 9 * 10 ** 6, 'seed': seed, 'spill': False, 'big': False, 'proc': 'optimized_differential', 'names': ['a'], 'selector': None}
    n = {'quick': 150, 'thorough': 4000}[tier]
    # copies of more rows than the 10240-entry in-memory cache of the row store (long cases first)
    if True:
        for i in range(12 if tier == 'thorough' else 2):
            yield {'family': ['duplicate', 'duplicate_alias'][i % 2], 'idx': 10 ** 6 + i, 'seed': seed,
                   'big': True}
    for fam in FAMILIES:
        for i in range(n):
            yield {'family': fam, 'idx': i, 'seed': seed, 'big': False}


def bump_x(row):
    row['x'] = (row['x'] or 0) + 1000


STAMPS = [None, datetime.datetime(2020, 1, 2, 3, 4, 5), datetime.datetime(2020, 1, 2, 3, 4, 5, 678901),
          datetime.datetime(2021, 6, 30, 23, 59, 59, 1, tzinfo=datetime.timezone(datetime.timedelta(hours=5, minutes=30))),
          datetime.datetime(1999, 12, 31, 0, 0, tzinfo=datetime.timezone.utc)]


def make_pkg(rng, nres, sizes=(0, 1, 3, 100, 101), same_schema=False):
    """-> names, {name: field list}, {name: rows}; field 'rid' is the unique row id."""
    names = NAMES[:nres]
    pool = [('x', 'integer'), ('y', 'string'), ('z', 'number'), ('w', 'string'), ('v', 'integer'), ('t', 'datetime')]
    fields, tables = {}, {}
    common = rng.sample(pool, rng.randint(1, 3))
    for n in names:
        extra = rng.sample([f for f in pool if f not in common], rng.randint(0, 2)) if not same_schema else []
        fl = [('rid', 'string')] + common + extra
        if not same_schema:
            rest = fl[1:]
            rng.shuffle(rest)
            fl = [fl[0]] + rest
        fields[n] = fl
        size = rng.choice(sizes)
        rows = []
        for i in range(size):
            row = {'rid': '%s:%d' % (n, i)}
            for fn, ft in fl[1:]:
                row[fn] = {'integer': lambda: rng.choice([None, 1, 2, 30, -4]),
                           'string': lambda: rng.choice([None, 'a', 'b c', 'é', '']),
                           'number': lambda: rng.choice([None, D('1.5'), 2.5, D('-3')]),
                           # cells are Python values: microseconds and the UTC offset belong to them
                           'datetime': lambda: rng.choice(STAMPS)}[ft]()
            rows.append(row)
        tables[n] = rows
    return names, fields, tables


def _casts(field, value):
    try:
        field.cast_value(value)
        return True
    except Exception:
        return False


def run_step_reuse(case, rng):
    """ONE step object (these steps are plain closures) used in two flows over different packages: whatever it
    resolved for the first package (default source, default target ...) must not stick."""
    d = lab.df()
    counters = {'row_ids_accounted': 0, 'untouched_resources_compared': 0}
    cov = {'config': {}}
    viol = []
    kind = rng.choice(['duplicate_defaults', 'duplicate_to_end', 'concatenate_default_target', 'delete_by_index',
                       'delete_by_regex', 'concatenate_selects_nothing'])
    cov['config']['step_reuse/' + kind] = 1
    F = [{'name': 'rid', 'type': 'string'}, {'name': 'x', 'type': 'integer'}]

    def pkg(prefix, n):
        return [(prefix + str(j), [{'rid': '%s%d:%d' % (prefix, j, i), 'x': i} for i in range(rng.choice([1, 3, 101]))])
                for j in range(n)]
    p1, p2 = pkg('a', rng.choice([2, 3])), pkg('b', rng.choice([2, 3]))
    step = {'duplicate_defaults': lambda: d.duplicate(),
            'duplicate_to_end': lambda: d.duplicate(duplicate_to_end=True),
            'concatenate_default_target': lambda: d.concatenate({'rid': [], 'x': []}),
            # a selector that matches no resource (optional resources that are absent): the package passes unchanged
            'concatenate_selects_nothing': lambda: d.concatenate({'rid': [], 'x': []}, resources='optional_.*'),
            'delete_by_index': lambda: d.delete_resource(0),
            'delete_by_regex': lambda: d.delete_resource('.0')}[kind]()
    cfg = {'kind': kind, 'first': [n for n, _ in p1], 'second': [n for n, _ in p2]}

    def expected(p):
        names = [n for n, _ in p]
        rows = dict(p)
        if kind == 'duplicate_defaults':
            return [names[0], names[0] + '_copy'] + names[1:], dict(rows, **{names[0] + '_copy': rows[names[0]]})
        if kind == 'duplicate_to_end':
            return names + [names[0] + '_copy'], dict(rows, **{names[0] + '_copy': rows[names[0]]})
        if kind == 'concatenate_default_target':
            return ['concat'], {'concat': [r for n in names for r in rows[n]]}
        if kind == 'concatenate_selects_nothing':
            return names, rows
        return names[1:], {n: rows[n] for n in names[1:]}
    for label, p in (('first', p1), ('second', p2)):
        got = lab.run([lab.source(n, F, r) for n, r in p] + [step])
        if not got.ok:
            viol.append({'kind': 'unexpected_error', 'mech': 'step_reuse/' + kind, 'family': 'step_reuse',
                         'msg': '%r: %s use of the step object failed: %s' % (cfg, label, got.errstr()), 'config': cfg})
            break
        en, er = expected(p)
        counters['untouched_resources_compared'] += len(en)
        if got.names != en:
            viol.append({'kind': 'resource_order', 'mech': 'step_reuse/' + kind, 'family': 'step_reuse',
                         'msg': '%r: %s use: resources %r expected %r' % (cfg, label, got.names, en), 'config': cfg})
            break
        for n, rows in zip(got.names, got.results):
            counters['row_ids_accounted'] += len(rows)
            if [r.get('rid') for r in rows] != [r['rid'] for r in er[n]]:
                viol.append({'kind': 'row_ids', 'mech': 'step_reuse/' + kind, 'family': 'step_reuse',
                             'msg': '%r: %s use: resource %s holds %d rows %r..., expected %d' %
                             (cfg, label, n, len(rows), [r.get('rid') for r in rows][:3], len(er[n])), 'config': cfg})
                break
    return dict(nontrivial=True, violations=viol, cov=cov, counters=counters, sample={'family': 'step_reuse', 'config': cfg})


def run_case(case):
    if case['family'] == 'optimized_differential':
        from vlib import optlab
        return optlab.as_case_result(['concatenate', 'duplicate', 'delete_resource'], {'row_ids_accounted': 0, 'untouched_resources_compared': 0})
    fam = case['family']
    rng = boot.rng(case['seed'], 'C16', fam, case['idx'])
    if fam == 'step_reuse':
        return run_step_reuse(case, rng)
    d = lab.df()
    counters = {'row_ids_accounted': 0, 'untouched_resources_compared': 0}
    cov = {'config': {}}
    viol = []
    nres = rng.choice([1, 2, 3, 4, 5])
    sizes = (0, 1, 3, 100, 101, 999, 1000, 1001, 1500, 2001) if rng.random() < 0.15 else (0, 1, 3, 20, 100, 101)
    if case.get('big'):
        nres, sizes = 2, (10300,)
    # several resources described by ONE schema object (load((descriptor, iterators)) with a shared schema dict, or
    # update_resource(None, schema=...)): a step must not edit the descriptor of resources it did not select through it
    shared_schema = fam == 'concatenate' and not case.get('big') and \
        boot.rng(case['seed'], 'C16', 'shared', case['idx']).random() < 0.25
    names, fields, tables = make_pkg(rng, nres, sizes, same_schema=(fam == 'duplicate_alias' or shared_schema))
    keyed_names = {}

    def srcs():
        out = []
        for n in names:
            sf_ = gen.schema_fields(fields[n])
            if n in keyed_names:
                for f_ in sf_:
                    if f_['name'] == 'tag':
                        f_['constraints'] = {'enum': ['T%d' % keyed_names[n]], 'pattern': 'T%d' % keyed_names[n],
                                             'required': True}
            out.append(lab.source(n, sf_, tables[n]))
            if n in keyed_names:
                out.append(d.set_primary_key(['seq'], resources=n))
        return out
    if shared_schema:
        def srcs():
            one_schema = {'fields': gen.schema_fields(fields[names[0]])}
            desc = {'resources': [{'name': n, 'path': n + '.csv', 'profile': 'tabular-data-resource',
                                   'schema': one_schema} for n in names]}
            return [d.load((desc, [iter(copy.deepcopy(tables[n])) for n in names]), strip=False)]
    exp_order = list(names)
    exp = {n: ('same', n) for n in names}      # name -> ('same', src) | ('rows', rows, fieldtypes|None)
    steps = []
    cfg = {'names': names, 'sizes': {n: len(tables[n]) for n in names}}
    expect_error = False
    moved = 0

    if fam == 'concatenate':
        form = rng.choice(['none', 'regex', 'list', 'int', 'one'])
        if nres >= 3 and not shared_schema and boot.rng(case['seed'], 'C16', 'alt', case['idx']).random() < 0.2:
            # alternation 'rA|rB' while a THIRD resource is named 'rA_copy' (duplicate's default name): only full matches count
            form = 'alternation'
            old_, new_ = names[2], names[0] + '_copy'
            names[2] = new_
            fields[new_] = fields.pop(old_)
            tables[new_] = tables.pop(old_)
            exp = {n: ('same', n) for n in names}
            exp_order = list(names)
            cfg['names'] = list(names)
            cfg['sizes'] = {n: len(tables[n]) for n in names}
            selector = '%s|%s' % (names[0], names[1])
            cov['config']['concatenate/alternation_with_prefix_named_sibling'] = 1
        elif form == 'none':
            selector = None
        elif form == 'regex':
            lo = rng.randrange(nres)
            hi = rng.randrange(lo, nres)
            selector = 'r[%d-%d]' % (lo, hi)
        elif form == 'list':
            selector = [n for n in names if rng.random() < 0.6] or [names[0]]
        elif form == 'int':
            selector = rng.choice([0, -1, nres - 1])
        else:
            selector = rng.choice(names)
        sel = refmodel.sel(selector, names)
        idx = [names.index(n) for n in sel]
        consecutive = idx == list(range(idx[0], idx[0] + len(idx)))
        # mapping: target fields: rid, some of the common fields, a renamed one, a target-only one
        allf = sorted({f for n in sel for f, _ in fields[n]} - {'rid'})
        mapping = {'rid': []}
        types = {'rid': 'string'}
        ftypes = {f: t for n in sel for f, t in fields[n]}
        for f in allf:
            r = rng.random()
            if r < 0.5:
                mapping[f] = []
                types[f] = ftypes[f]
            elif r < 0.75:
                mapping[f.upper() * 2] = [f]
                types[f.upper() * 2] = ftypes[f]
        renamed_ = [(t_, ss_[0]) for t_, ss_ in mapping.items() if ss_ and t_ == ss_[0].upper() * 2]
        if renamed_ and len(sel) > 1 and not shared_schema and \
                boot.rng(case['seed'], 'C16', 'owntarget', case['idx']).random() < 0.35:
            # one of the selected resources has the column under the TARGET's own name already, the others under the
            # listed source name: a target field always takes the cells of a same-named source field too
            t_, f_ = renamed_[0]
            with_f = [n for n in sel if any(fn == f_ for fn, _ in fields[n])]
            if with_f:
                n_ = with_f[-1]
                fields[n_] = [(t_ if fn == f_ else fn, ft) for fn, ft in fields[n_]]
                for r in tables[n_]:
                    if f_ in r:
                        r[t_] = r.pop(f_)
                cov['config']['concatenate/column_under_the_target_name_in_one_resource'] = 1
                cfg['column_under_target_name_in'] = n_
        if 'x' in allf and 'v' in allf and rng.random() < 0.35:
            # two source fields of one row map onto one target: at most one of them is non-null
            for f in ('x', 'v', 'XX', 'VV'):
                mapping.pop(f, None)
                types.pop(f, None)
            mapping['m'] = ['x', 'v'] if rng.random() < 0.5 else ['v', 'x']
            types['m'] = 'integer'
            for n in sel:
                for r in tables[n]:
                    if r.get('x') is not None and r.get('v') is not None:
                        r[rng.choice(['x', 'v'])] = None
            cov['config']['concatenate/coalesce'] = 1
        if rng.random() < 0.4:
            mapping['only_target'] = ['nonexistent']
            types['only_target'] = 'string'
        keyed = not shared_schema and boot.rng(case['seed'], 'C16', 'keyed', case['idx']).random() < 0.25
        if keyed:
            # every selected resource has a valid key of its own ('seq' counts its rows) and constraints of its own on a
            # common field: what the target declares must hold for ALL the rows it receives
            # ... and one of several selected resources may not have the constrained field at all (its rows get null there)
            lacks_tag = sel[-1] if len(sel) > 1 and boot.rng(case['seed'], 'C16', 'lacks', case['idx']).random() < 0.5 else None
            if lacks_tag:
                cov['config']['concatenate/required_field_missing_in_one_selected_resource'] = 1
            for j_, n in enumerate(sel):
                fields[n] = fields[n] + [('seq', 'integer')] + ([('tag', 'string')] if n != lacks_tag else [])
                for i_, r in enumerate(tables[n]):
                    r['seq'] = i_
                    if n != lacks_tag:
                        r['tag'] = 'T%d' % j_
            mapping['seq'] = []
            mapping['tag'] = []
            types['seq'] = 'integer'
            types['tag'] = 'string'
            keyed_names.update({n: j_ for j_, n in enumerate(sel)})
            cov['config']['concatenate/sources_with_keys_and_constraints_of_their_own'] = 1
            cfg['keyed_sources'] = True
        if shared_schema:
            cov['config']['concatenate/resources_share_one_schema_object'] = 1
            cfg['shared_schema_object'] = True
        if boot.rng(case['seed'], 'C16', 'nullrows', case['idx']).random() < 0.2:
            # rows whose mapped cells are all null are rows all the same
            for n in sel:
                for r in tables[n][::3]:
                    for k in list(r):
                        if not (keyed and k in ('seq', 'tag')):      # (a source's own key / required field stays valid)
                            r[k] = None
            cov['config']['concatenate/rows_with_all_mapped_cells_null'] = 1
            cfg['all_null_rows'] = True
        sparse = not keyed and not shared_schema and boot.rng(case['seed'], 'C16', 'sparse', case['idx']).random() < 0.2
        tname = rng.choice(['concat', 'merged'])
        target = {'name': tname, 'path': tname + '.csv'} if rng.random() < 0.7 else {}
        if not target:
            tname = 'concat'
        steps = [d.concatenate(copy.deepcopy(mapping), target=copy.deepcopy(target),
                               resources=copy.deepcopy(selector))]
        if sparse:
            # the rows of one resource do not all have the same keys (a step in front dropped the null cells): a missing
            # cell is a null cell
            def drop_null_cells(rows):
                for row in rows:
                    if rows.res.name in sel:
                        for k_ in [k_ for k_, v_ in row.items() if v_ is None and k_ != 'rid']:
                            del row[k_]
                    yield row
            steps.insert(0, drop_null_cells)
            cov['config']['concatenate/rows_with_differing_key_sets'] = 1
            cfg['rows_with_differing_key_sets'] = True
        cfg.update({'selector': selector, 'mapping': mapping, 'target': target})
        cov['config']['concatenate/' + form + ('' if consecutive else '/nonconsecutive')] = 1
        if not consecutive:
            expect_error = True
        else:
            src2tgt = {}
            for t, ss in mapping.items():
                src2tgt[t] = t
                for s_ in ss:
                    src2tgt[s_] = t
            rows = []
            for n in sel:
                for r in tables[n]:
                    nr = {t: None for t in mapping}
                    for k, v in r.items():
                        if k in src2tgt and v is not None:
                            nr[src2tgt[k]] = v
                    rows.append(nr)
            moved = len(rows)
            first = idx[0]
            exp_order = names[:first] + [tname] + [n for n in names[first:] if n not in sel]
            exp = {n: ('same', n) for n in exp_order if n != tname}
            exp[tname] = ('rows', rows, types)
            if boot.rng(case['seed'], 'C16', 'partial', case['idx']).random() < 0.25:
                # a later step reads only the first two rows of the concatenated resource: the resources after it are
                # still their own
                import itertools

                def head_of_target(package):
                    yield package.pkg
                    for res in package:
                        if res.res.name == tname:
                            yield itertools.islice(res, 2)
                        else:
                            yield res
                steps.append(head_of_target)
                exp[tname] = ('rows', rows[:2], types)
                cfg['then_read_only_2_rows_of'] = tname
                cov['config']['concatenate/then_target_read_partially'] = 1
    elif fam in ('duplicate', 'duplicate_alias'):
        src = rng.choice(names)
        to_end = rng.random() < 0.5
        batch = rng.choice([1, 2, 1000])
        tname = rng.choice([None, 'copy_of'])
        kw = {}
        if tname:
            kw['target_name'] = tname
            kw['target_path'] = tname + '.csv'
        out_name = tname or src + '_copy'
        use_default = rng.random() < 0.2
        if use_default:
            src = names[0]
            steps = [d.duplicate(batch_size=batch, duplicate_to_end=to_end, **kw)]
            out_name = tname or src + '_copy'
        else:
            steps = [d.duplicate(src, batch_size=batch, duplicate_to_end=to_end, **kw)]
        i = names.index(src)
        exp_order = list(names) + [out_name] if to_end else names[:i + 1] + [out_name] + names[i + 1:]
        exp[out_name] = ('copy', src)
        moved = len(tables[src])
        cfg.update({'source': src, 'to_end': to_end, 'batch_size': batch, 'target_name': tname})
        cov['config']['duplicate/%s/batch%d' % ('end' if to_end else 'after', batch)] = 1
        if fam == 'duplicate' and rng.random() < 0.35 and len(names) >= 1:
            # delete one of the twins (or another resource) right after: the survivor must still hold every row
            victim = rng.choice([src, out_name] + [n for n in names if n != src][:1])
            steps.append(d.delete_resource(victim))
            exp_order = [n for n in exp_order if n != victim]
            exp.pop(victim, None)
            cfg['then_delete'] = victim
            cov['config']['duplicate/then_delete_%s' % ('original' if victim == src else 'copy' if victim == out_name else 'other')] = 1
        elif fam == 'duplicate' and rng.random() < 0.3:
            # a later step reads only the first two rows of the ORIGINAL: the copy still holds every row
            import itertools

            def head_of_original(package):
                yield package.pkg
                for res in package:
                    if res.res.name == src:
                        yield itertools.islice(res, 2)
                    else:
                        yield res
            steps.append(head_of_original)
            exp[src] = ('rows', copy.deepcopy(tables[src][:2]), None)
            cfg['then_read_only_2_rows_of'] = src
            cov['config']['duplicate/then_original_read_partially'] = 1
        if fam == 'duplicate_alias':
            # in-place mutators applied to the ORIGINAL only, downstream of duplicate
            kind = rng.choice(['add_field', 'find_replace', 'set_type', 'add_computed', 'delete_fields', 'nested'])
            cov['config']['alias/' + kind] = 1
            has = dict(fields[src])
            if kind == 'nested':
                # every row carries a nested value; a later step edits it in place on the original only
                for n_ in names:
                    fields[n_] = fields[n_] + [('tags', 'array')]
                    for r_ in tables[n_]:
                        r_['tags'] = ['t', {'k': [1]}]

                def nest(package):
                    yield package.pkg
                    for res in package:
                        if res.res.name == src:
                            def it(res=res):
                                for row in res:
                                    row['tags'].append('edited')
                                    row['tags'][1]['k'].append(2)
                                    yield row
                            yield it()
                        else:
                            yield res
                steps.append(nest)
                mut = lambda r: dict(r, tags=['t', {'k': [1, 2]}, 'edited'])       # noqa: E731
            elif kind == 'add_field':
                steps.append(d.add_field('extra', 'integer', 5, resources=src))
                mut = lambda r: dict(r, extra=5)                                   # noqa: E731
            elif kind == 'find_replace' and 'y' in has:
                steps.append(d.find_replace([{'name': 'y', 'patterns': [{'find': 'a', 'replace': 'A'}]}],
                                            resources=src))
                mut = lambda r: dict(r, y=r['y'].replace('a', 'A') if r['y'] is not None else None)  # noqa
            elif kind == 'set_type' and 'x' in has:
                steps.append(d.set_type('x', type='string', transform=lambda v: None if v is None else 'T%d' % v,
                                        resources=src))
                mut = lambda r: dict(r, x=None if r['x'] is None else 'T%d' % r['x'])   # noqa: E731
            elif kind == 'delete_fields' and len(fields[src]) > 2:
                victim = fields[src][-1][0]
                steps.append(d.delete_fields([victim], resources=src))
                mut = lambda r: {k: v for k, v in r.items() if k != victim}         # noqa: E731
            else:
                steps.append(d.add_computed_field(target='extra2', operation='constant', with_='k',
                                                  resources=src))
                mut = lambda r: dict(r, extra2='k')                                 # noqa: E731
            exp[src] = ('rows', [mut(r) for r in tables[src]], None)
            cfg['alias_mutator'] = kind
    elif fam == 'delete_resource':
        form = rng.choice(['name', 'regex', 'list', 'int', 'all', 'empty_list'])
        selector = {'name': rng.choice(names), 'regex': 'r[%d-9]' % rng.randrange(nres),
                    'list': [n for n in names if rng.random() < 0.5] or [names[-1]],
                    'int': rng.choice([0, -1]), 'all': None,
                    'empty_list': []}[form]       # (a computed list of names that came out empty selects nothing)
        sel = refmodel.sel(selector, names)
        steps = [d.delete_resource(copy.deepcopy(selector))]
        exp_order = [n for n in names if n not in sel]
        exp = {n: ('same', n) for n in exp_order}
        moved = sum(len(tables[n]) for n in sel)
        cfg['selector'] = selector
        cov['config']['delete/' + form] = 1
    elif fam == 'append':
        kind = rng.choice(['iterable', 'iterable_after_delete', 'load_tuple', 'sources', 'generator'])
        cov['config']['append/' + kind] = 1
        new_rows = [{'rid': 'new:%d' % i, 'q': rng.choice([1, 2, None])} for i in range(rng.choice([0, 1, 5, 101, 150]))]
        exotic = kind in ('iterable', 'generator', 'iterable_after_delete') and rng.random() < 0.4
        if exotic:
            import datetime
            # python values the inference has no Table Schema type for: the resource is still appended, with all rows
            for i, r in enumerate(new_rows):
                r['odd'] = [datetime.time(1, 2, 3), (1, 2), datetime.timedelta(seconds=5), None][i % 4]
            cov['config']['append/exotic_values'] = 1
        cfg['kind'] = kind
        if kind == 'iterable_after_delete' and nres >= 2:
            victim = rng.choice(names)
            steps.append(d.delete_resource(victim))
            exp_order = [n for n in names if n != victim]
            exp = {n: ('same', n) for n in exp_order}
            cfg['deleted'] = victim
        if kind in ('iterable', 'iterable_after_delete'):
            steps.append([dict(r) for r in new_rows])
            exp_order = exp_order + ['*']
            exp['*'] = ('rows', new_rows if new_rows else [], None)
        elif kind == 'generator':
            steps.append((dict(r) for r in new_rows))
            exp_order = exp_order + ['*']
            exp['*'] = ('rows', new_rows, None)
        elif kind == 'load_tuple':
            steps.append(lab.source('loaded', [{'name': 'rid', 'type': 'string'}, {'name': 'q', 'type': 'integer'}],
                                    new_rows))
            exp_order = exp_order + ['loaded']
            exp['loaded'] = ('rows', new_rows, None)
        else:
            steps.append(d.sources(
                lab.source('s1', [{'name': 'rid', 'type': 'string'}, {'name': 'q', 'type': 'integer'}], new_rows),
                [dict(r, rid='t' + r['rid']) for r in new_rows]))
            exp_order = exp_order + ['s1', '*']
            exp['s1'] = ('rows', new_rows, None)
            exp['*'] = ('rows', [dict(r, rid='t' + r['rid']) for r in new_rows], None)
        moved = len(new_rows)
    else:   # rename via update_resource
        src = rng.choice(names)
        selector = rng.choice([src, [src], names.index(src)])
        steps = [d.update_resource(copy.deepcopy(selector), name='renamed', path='renamed.csv')]
        exp_order = ['renamed' if n == src else n for n in names]
        exp = {n: ('same', n) for n in names if n != src}
        exp['renamed'] = ('rows', tables[src], dict(fields[src]))
        moved = len(tables[src])
        cfg.update({'selector': selector})
        cov['config']['rename'] = 1

    base = lab.run(srcs())
    assert base.ok, base.errstr()
    bb = base.by_name()
    got = lab.run(srcs() + steps)
    sample = {'family': fam, 'config': cfg}

    def add(kind, msg, mech=None):
        viol.append({'kind': kind, 'mech': mech or fam, 'family': fam, 'msg': msg, 'config': cfg})
    if expect_error:
        if got.ok:
            add('missing_error', '%r: non-consecutive concatenate selection ran without the documented assertion' % cfg)
        return dict(nontrivial=False, violations=viol, cov=cov, counters=counters)
    if not got.ok:
        add('unexpected_error', '%r: %s' % (cfg, got.errstr()))
        return dict(nontrivial=False, violations=viol, cov=cov, counters=counters)
    gnames = got.names
    ok_order = len(gnames) == len(exp_order) and all(e == '*' or e == g for e, g in zip(exp_order, gnames))
    if not ok_order:
        add('resource_order', '%r: resources %r expected %r' % (cfg, gnames, exp_order))
        return dict(nontrivial=False, violations=viol, cov=cov, counters=counters)
    untouched = 0
    for e, (gdesc, grows) in zip(exp_order, zip(got.dp['resources'], got.results)):
        spec = exp[e]
        if spec[0] == 'same':
            untouched += 1
            counters['untouched_resources_compared'] += 1
            bdesc, brows = bb[spec[1]]
            diffs = lab.rows_diff(brows, grows)
            if bdesc != gdesc:
                diffs.append('descriptor %r expected %r' % (gdesc, bdesc))
            if diffs:
                add('untouched_changed', '%r: untouched resource %s: %s' % (cfg, e, '; '.join(diffs)[:500]))
        elif spec[0] == 'copy':
            bdesc, brows = bb[spec[1]]
            counters['row_ids_accounted'] += len(brows)
            want = dict(copy.deepcopy(bdesc), name=gdesc['name'], path=gdesc['path'])
            if gdesc != want:
                add('copy_descriptor', '%r: copy descriptor %r expected %r' % (cfg, gdesc, want))
            if len(grows) != len(brows) or not all(lab.value_eq(a, b) for a, b in zip(brows, grows)):
                bad = next((i for i, (a, b) in enumerate(zip(brows, grows)) if not lab.value_eq(a, b)), None)
                mech = 'duplicate_copy_sees_downstream_mutation' if fam == 'duplicate_alias' else None
                add('copy_rows', '%r: copy differs from original: %d vs %d rows; first diff %r vs %r'
                    % (cfg, len(grows), len(brows), grows[bad] if bad is not None else None,
                       brows[bad] if bad is not None else None), mech)
        else:
            rows, types = spec[1], spec[2]
            if fam == 'concatenate' and cfg.get('keyed_sources'):
                # what the target declares (key, constraints) must hold for all the rows it emits
                tpk = gdesc['schema'].get('primaryKey') or []
                tpk = [tpk] if isinstance(tpk, str) else list(tpk)
                if tpk and len({tuple(repr(r_.get(k_)) for k_ in tpk) for r_ in grows}) != len(grows):
                    add('target_primary_key', '%r: the concatenated resource declares primaryKey %r, which its %d rows do not '
                        'satisfy' % (cfg, tpk, len(grows)), 'concatenate/target_primary_key')
                import tableschema
                for f_ in gdesc['schema']['fields']:
                    if f_.get('constraints'):
                        fo_ = tableschema.Field(f_)
                        bad_ = next((r_ for r_ in grows if not _casts(fo_, r_.get(f_['name']))), None)
                        if bad_ is not None:
                            add('target_constraints', '%r: the concatenated resource declares %r for field %r, row %r violates it'
                                % (cfg, f_['constraints'], f_['name'], bad_.get('rid')), 'concatenate/target_constraints')
            counters['row_ids_accounted'] += len(rows)
            eq = lab.value_eq if fam == 'concatenate' else lab.strict_eq
            if [r.get('rid') for r in grows] != [r.get('rid') for r in rows]:
                add('row_ids', '%r: resource %s ids %r expected %r' % (cfg, gdesc['name'],
                    [r.get('rid') for r in grows][:8], [r.get('rid') for r in rows][:8]))
            elif not all(eq(a, b) for a, b in zip(rows, grows)):
                bad = next(i for i, (a, b) in enumerate(zip(rows, grows)) if not eq(a, b))
                add('row_values', '%r: resource %s row %d: got %r expected %r'
                    % (cfg, gdesc['name'], bad, grows[bad], rows[bad]))
            if types is not None:
                gt = {f['name']: f['type'] for f in gdesc['schema']['fields']}
                if gt != types:
                    add('schema', '%r: resource %s fields %r expected %r' % (cfg, gdesc['name'], gt, types))
    nontrivial = len(names) >= 2 and untouched >= 1 and moved >= 1
    return dict(nontrivial=nontrivial, violations=viol, cov=cov, counters=counters, sample=sample)
