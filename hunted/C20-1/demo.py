"""C20: dump_to_sql(mode='update') with a `number` update key and the (default) bloom filter
inserts a second row for a key that is already in the table and reports updated=False."""
import decimal
import os
import shutil
import sqlite3
import sys
import tempfile

from dataflows import Flow, dump_to_sql, set_type, update_resource

D = decimal.Decimal
workdir = tempfile.mkdtemp(prefix='c20_1_')
db = os.path.join(workdir, 'demo.db')
engine = 'sqlite:///' + db


def table():
    conn = sqlite3.connect(db)
    try:
        return conn.execute('SELECT k, v FROM t ORDER BY k, v').fetchall()
    finally:
        conn.close()


def dump(rows, mode, **kw):
    spec = {'resource-name': 'res', 'mode': mode}
    if mode == 'update':
        spec['update_keys'] = ['k']
    seen = []

    def spy(row):
        seen.append(dict(row))

    Flow(
        [dict(r) for r in rows],
        update_resource(-1, name='res'),
        set_type('k', type='number'),
        set_type('v', type='string'),
        dump_to_sql({'t': spec}, engine=engine, updated_column='updated', **kw),
        spy,
    ).process()
    return [r['updated'] for r in seen]


failed = False
try:
    for use_bloom_filter in (True, False):
        if os.path.exists(db):
            os.remove(db)
        dump([{'k': D('1.5'), 'v': 'old'}, {'k': D('2'), 'v': 'old'}], 'rewrite')
        flags = dump([{'k': D('1.5'), 'v': 'new'}, {'k': D('2'), 'v': 'new'}], 'update',
                     use_bloom_filter=use_bloom_filter)
        got = table()
        expected = [(1.5, 'new'), (2.0, 'new')]
        ok = got == expected and flags == [True, True]
        print('use_bloom_filter=%s' % use_bloom_filter)
        print('  expected table :', expected, ' updated flags:', [True, True])
        print('  observed table :', got, ' updated flags:', flags)
        print('  ->', 'ok' if ok else 'VIOLATION (one row per key / truthful flags)')
        failed = failed or not ok
finally:
    shutil.rmtree(workdir, ignore_errors=True)

sys.exit(1 if failed else 0)
