"""C05: dump_to_path / dump_to_zip are not transparent for resources loaded from a VALID data package
whose descriptors are not in the shape dataflows itself produces:
  - a resource with inline "data" (it has no "path"),
  - a resource whose "path" is a list of files (multipart resource),
  - a schema field without "type" (Table Schema: the type defaults to "string").
load() reads all three, every other observer passes them through, the file dumpers crash."""
import contextlib
import io
import json
import os
import shutil
import sys
import tempfile

from dataflows import Flow, load, validate, printer, stream, checkpoint, dump_to_path, dump_to_zip

FIELDS = [{'name': 'a', 'type': 'string'}, {'name': 'b', 'type': 'integer'}]
PACKAGE = {
    'name': 'valid-package',
    'resources': [
        {'name': 'inline', 'data': [{'a': 'x', 'b': 1}, {'a': 'y', 'b': 2}], 'schema': {'fields': FIELDS}},
        {'name': 'multipart', 'path': ['part1.csv', 'part2.csv'], 'schema': {'fields': FIELDS}},
        {'name': 'typeless', 'path': 'part1.csv', 'schema': {'fields': [{'name': 'a'}, {'name': 'b', 'type': 'integer'}]}},
    ]
}


def run(source, resource, observer):
    steps = [load(source, resources=resource)]
    if observer is not None:
        steps.append(observer)
    steps.append(validate())
    with contextlib.redirect_stdout(io.StringIO()):
        return Flow(*steps).results()[0]


def main():
    tmp = tempfile.mkdtemp()
    tempfile.tempdir = tmp  # the dumpers' own temporary files go there too and are removed at the end
    bad = 0
    try:
        src = os.path.join(tmp, 'src')
        os.makedirs(src)
        with open(os.path.join(src, 'part1.csv'), 'w') as f:
            f.write('a,b\nx,1\ny,2\n')
        with open(os.path.join(src, 'part2.csv'), 'w') as f:
            f.write('z,3\n')
        source = os.path.join(src, 'datapackage.json')
        with open(source, 'w') as f:
            json.dump(PACKAGE, f)

        for resource in ('inline', 'multipart', 'typeless'):
            expected = run(source, resource, None)
            print('RESOURCE %-9s expected (no observer): %s' % (resource, expected))
            observers = {
                'printer': lambda: printer(),
                'stream': lambda: stream(os.path.join(tmp, 's', resource + '.ndjson')),
                'checkpoint': lambda: checkpoint(resource, checkpoint_path=os.path.join(tmp, 'cp')),
                'dump_to_path(csv)': lambda: dump_to_path(os.path.join(tmp, 'out-csv-' + resource)),
                'dump_to_path(json)': lambda: dump_to_path(os.path.join(tmp, 'out-json-' + resource), format='json'),
                'dump_to_zip': lambda: dump_to_zip(os.path.join(tmp, resource + '.zip')),
            }
            for name, make in observers.items():
                try:
                    observed = run(source, resource, make())
                    ok = observed == expected
                    print('  with %-19s %s' % (name, 'same rows' if ok else 'DIFFERENT rows: %r' % (observed,)))
                    bad += 0 if ok else 1
                except Exception as e:
                    bad += 1
                    print('  with %-19s CRASH: %s' % (name, str(e).strip().splitlines()[0][:160]))
    finally:
        shutil.rmtree(tmp, ignore_errors=True)
    if bad:
        print('VIOLATION: %d observer insertions broke a pipeline that works without them' % bad)
        sys.exit(1)
    print('ok: all observers were transparent')


if __name__ == '__main__':
    main()
