"""C16: load appends its resources after the existing ones; all resources keep their descriptor and rows.

Loading a datapackage whose resource has the same name as a resource that is already in the flow
(the automatic name 'res_1' is the obvious case) yields two resources with one name.  Every later
step looks resources up by name, so the loaded resource is processed with the descriptor of the
existing one: a plain validate() gives its rows an invented null cell and leaves its own field
uncast, and dump_to_path fails.
(load of a plain file and sources() already pick a free name in this situation.)
"""
import os
import shutil
import sys
import tempfile
import decimal

from dataflows import Flow, load, dump_to_path, validate

cwd = os.getcwd()
tmp = tempfile.mkdtemp()
os.chdir(tmp)
try:
    # a data package saved earlier; its only resource got the automatic name 'res_1'
    Flow([{'c': 1.5}, {'c': 2.5}], dump_to_path('saved')).process()

    existing = [{'a': 1}, {'a': 2}]
    results, dp, _ = Flow(existing, load('saved/datapackage.json')).results()
    names = [r['name'] for r in dp.descriptor['resources']]
    print('resource names, expected : two distinct names, e.g. [\'res_1\', \'res_2\']')
    print('resource names, observed :', names)

    # a step that must not change anything for valid data
    results2, dp2, _ = Flow(existing, load('saved/datapackage.json'), validate()).results()
    expected_rows = [[{'a': 1}, {'a': 2}], [{'c': decimal.Decimal('1.5')}, {'c': decimal.Decimal('2.5')}]]
    print('rows after validate(), expected :', expected_rows)
    print('rows after validate(), observed :', results2)

    dump_error = None
    try:
        Flow(existing, load('saved/datapackage.json'), dump_to_path('out')).process()
    except Exception as e:
        dump_error = e
    print('dump_to_path after the load, expected : success')
    print('dump_to_path after the load, observed :', 'success' if dump_error is None else 'FAILED %r' % dump_error)

    bad = len(set(names)) != len(names) or results2 != expected_rows or dump_error is not None
finally:
    os.chdir(cwd)
    shutil.rmtree(tmp, ignore_errors=True)

if bad:
    print('VIOLATION: load() added a resource under a name that is already taken; '
          'the loaded resource lost its descriptor and got invented cells')
    sys.exit(1)
print('OK')
