#!/usr/bin/env python3
"""Regenerates /verif/MANIFEST.json from the table below (one place to keep it consistent)."""
import json
import os
import subprocess

HERE = os.path.dirname(os.path.dirname(os.path.abspath(__file__)))
PYTEST = ("cd /repo && /venv/bin/python -m pytest -ra -q -p no:cacheprovider --timeout=900 "
          "--continue-on-collection-errors")

# id: (engine, category, technique, level text, level note, design ref)
CHECKS = {
    'C10': ('pipeline-lab', 'exploration',
            'runtime monitor: reference selector model + differential single-resource effect + '
            'function-level contract on ResourceMatcher.match',
            'Every selector-taking processor x every selector form x seeded name sets is executed on '
            'the real code; the set of resources that changed is compared with an independent '
            'selector model (re.fullmatch / membership / index) and unselected resources with the '
            'run without the step. Finite product explored completely per name set; name sets sampled.',
            'Trusted: the 20-line selector model; the effect on a selected resource is taken from the '
            'same processor run alone (selector semantics only are judged here).', '3/C10'),
    'C11': ('pipeline-lab', 'exploration',
            'runtime monitor: 40-line reference join (dict of rendered key -> source rows) compared with '
            'the real join output; unordered parts by maximum bipartite matching',
            'Generated source/target tables x key shapes x modes x 12 aggregates x source_delete x wildcard '
            'x pre-existing target fields are run through the real join (incl. >10240 distinct keys to force '
            'the on-disk index) and compared row by row with an independent reference join.',
            'Trusted: the reference join and aggregate definitions (self-checked); string sum = concatenation in '
            'source order; order of full-outer tail / deduplication output not judged. Also: format-spec keys, odd key '
            'field names, mapping entries sharing one spec object, second use of the same argument objects, a later '
            'step reading the kept source only partially.', '3/C11'),
    'C12': ('pipeline-lab', 'exploration',
            'runtime monitor: stable sorted() on exact typed keys (Decimal / code points) + permutation check '
            'by row id + batch-size/cache-regime differential',
            'Generated tables per named key class x key form x reverse x batch size x sizes below and above '
            'the 10240-entry cache are sorted by the real sort_rows and compared with a stable reference '
            'sort; every row carries an id so loss/duplication is visible.',
            'Trusted: Python sorted() on exact keys; a key over several fields compares field by field. Known '
            'findings (float64 key collapse for >2^53 / high-precision keys; OverflowError for ints beyond the '
            'float64 range) are recorded by mechanism in known_findings.json.', '3/C12'),
    'C14': ('pipeline-lab', 'exploration',
            'runtime monitor: per-cell oracle = fresh tableschema Field.cast_value; expected rows / handler '
            'call log / raised error derived per policy',
            'Lexical tables mixing valid and invalid cells at first/middle/last rows and several fields are '
            'run through set_type / validate in all forms and policies; emitted rows, handler calls and the '
            'raised ProcessorError.cause (row, index) are compared with the oracle.',
            'Trusted: tableschema Field.cast_value as "Table Schema\'s cast"; ignore policy may cast the '
            'valid cells of a kept row.', '3/C14'),
    'C15': ('pipeline-lab', 'exploration',
            'runtime monitor: reference models of the six field processors (re.fullmatch semantics) vs real '
            'output (schema order, row keys, values)',
            'Generated tables with regex-metacharacter/prefix field names x pattern classes x every computed '
            'operation x selectors; schema and rows of every resource are compared with independent models.',
            'Trusted: the reference models (self-checked against PROCESSORS.md examples); avg/min/max/multiply '
            'over zero non-null values give null.', '3/C15'),
    'C17': ('pipeline-lab', 'exploration',
            'runtime monitor: reference filter / first-per-key dedup / row-major unpivot expansion with a '
            'row-id and cell ledger',
            'Generated tables x callable/equals/not_equals conditions x composite keys with nulls x unpivot '
            'specs (literal/regex/back-reference/constant keys) compared with independent models; dedup is '
            'also applied twice (idempotence).',
            'Trusted: the reference models; unpivot keys are derived from the full match that selected the field '
            '(alternation / lazy / empty-match patterns included); an emitted primaryKey must stay unique.', '3/C17'),
    'C16': ('pipeline-lab', 'exploration',
            'runtime monitor: row-id conservation ledger + reference placement models of concatenate / '
            'duplicate / delete_resource / appended sources / rename; aliasing family (in-place mutators after '
            'duplicate)',
            'Packages of 1..5 resources with differing schemas and sizes (empty, >1000 rows) are restructured '
            'by the real processors; every row carries a unique id, so loss, invention, misplacement and '
            'changes to untouched resources are all visible against the reference placement.',
            'Trusted: the placement models; order of fields in the concatenated schema not judged; copies '
            'compared by value (float may come back as Decimal).', '3/C16'),
    'C03': ('io-lab', 'exploration',
            'runtime monitor: round trip through the real load() + independent descriptor-driven decoder '
            '(csv.reader/json + tableschema Field) over the written bytes',
            'Typed tables over ten field types x hostile value classes x csv/json x path/zip x '
            'add_filehash_to_path x temporal_format_property x non-alphabetical field orders are dumped by the '
            'real dumpers; both the real load() and an independent decoder must give back the typed values '
            'that entered the dumper.',
            'Trusted: csv/json stdlib + tableschema cast as the independent decoder. Recorded known findings '
            '(empty string == null after a dump; CRLF in a cell read back as LF by the loader; blank-edged '
            'field names stripped by the reader underneath load()).',
            '3/C03'),
    'C07': ('io-lab', 'exploration',
            'runtime monitor: run/delete/run histories with side-effect counters in upstream steps; results of '
            'every run compared type-strictly with run 1',
            'Histories of 2..5 runs/deletions over 1..3 chained checkpoints on tables covering the extended '
            'JSON value domain; a counter model ("steps before the last existing checkpoint do not execute", '
            'package phase included) and type-strict equality with the first run decide.',
            'Trusted: the counter model; each run uses a fresh Flow object.', '3/C07'),
    'C09': ('io-lab', 'exploration',
            'runtime monitor: independent size/md5/row count of every written file vs the written descriptor, '
            'package totals, returned stats, and a second dump',
            'Tables (multi-byte text, empty resources) x csv/json x path/zip x renamed/dotted/disabled counters '
            'x add_filehash_to_path x pretty_descriptor are dumped twice; recorded path/bytes/hash/row count '
            'are recomputed from the bytes on disk or in the zip.',
            'Trusted: hashlib/len/csv/json. Known finding recorded: returned stats[bytes] includes the size of '
            'datapackage.json.', '3/C09'),
    'C13': ('io-lab', 'exploration',
            'runtime monitor: independent csv.reader pass over the generated bytes as truth; option semantics '
            'derived from it; schema cast judged with tableschema Field',
            'Generated CSV files x header classes x infer/cast strategies x on_error x strip x limit_rows x name '
            'x header de-duplication, plus package / (descriptor, iterators) sources x selector forms; raw rows '
            'from Flow.datastream() are compared cell by cell.',
            'Trusted: csv stdlib; inference itself not judged; empty cell may be \'\' or None.', '3/C13'),
    'C20': ('io-lab', 'exploration',
            'runtime monitor: sequential table model replayed against SELECT * (sqlite3 stdlib) after every '
            'dump of a history; downstream rows and updated flags compared with the model',
            'Histories of 1..5 dumps into one SQLite table x mode per dump x explicit/primary-key update keys x '
            'batch size x bloom filter x array/object columns x duplicate keys inside a dump.',
            'Trusted: the table model; JSON columns compared after json.loads (SQLite stores JSON text and the '
            'same text is handed downstream).', '3/C20'),
    'C01': ('pipeline-lab', 'exploration',
            'runtime self-differential monitor: lazy run vs step-by-step materialised run vs nested/conditional '
            'regroupings vs process()/datastream(); observers\' persisted content compared across strategies; '
            'alien-link family',
            'Typed random programs (1..4 sources, 1..8 links over built-ins, observers and user callables in five '
            'shapes) are evaluated under every strategy the statement names and compared type-strictly; links '
            'that are not steps must raise.',
            'Trusted: deep copies between steps in the step-by-step reference; row/rows user callables are '
            'applied by the harness itself in the reference; late-filled dump counters and stats not compared.',
            '3/C01'),
    'C02': ('pipeline-lab', 'exploration',
            'runtime invariant monitor: boundary probes after every link check streams<->descriptors, unique '
            'names, row keys, castability of every non-null value; final validating results() and Package.valid',
            'Typed random programs plus a type x operation matrix (computed fields, join aggregates, '
            'concatenate, unpivot, set_type, find_replace, inference over python values, auto-naming after '
            'deletions) run with a probe at every step boundary.',
            'Trusted: tableschema Field.cast_value as "valid for the declared type"; probes are checked to be '
            'transparent on every program (else the case is discarded as inconclusive).', '3/C02'),
    'C05': ('pipeline-lab', 'exploration',
            'runtime differential + independent readers: pipeline with/without the observer; persisted content '
            '(csv/json/zip/ndjson/print callbacks/stats) vs the stream at its position; finalizer call count and '
            'pass-through counters at callback time',
            'Base programs with discarding suffixes x every insertion position x every observer kind (and '
            'pairs); downstream rows/schemas must not change and the observer must have captured every '
            'resource and row present at its position.',
            'Trusted: independent readers of vlib/iolab.py; schemas compared on name/type/primaryKey/'
            'missingValues.', '3/C05'),
    'C06': ('pipeline-lab', 'exploration',
            'runtime stream meter: rows pulled at counting sources vs ordinal of each delivered row; '
            'growth-based verdict across input sizes',
            'Every non-buffering step kind alone and random compositions, 1..3 sources (inferred iterables and '
            'explicit loads) and CSV files, each run at N=2000 and N=20000 (thorough +200000); the maximum '
            'look-ahead must not grow with N.',
            'Any constant look-ahead is accepted (sample sizes are read off the measurements, not hard-coded); '
            'for CSV files pulls are counted at the tabulator Stream.iter boundary.', '3/C06'),
    'C04': ('fault-lab', 'fault_enumeration',
            'runtime fault injection: faulty steps raising a chosen exception instance at every position x phase '
            'x step shape x class, failing sources/handlers/callbacks, sys.monitoring LINE failpoints inside the '
            'built-in processors; outcome classified by identity of ProcessorError.cause; artifact monitor',
            'For six representative pipelines covering every built-in processor the fault points of each '
            '(position, phase) are enumerated; the injected exception must come back as ProcessorError.cause and '
            'no dump descriptor / zip / stream file / checkpoint positioned after the fault may be committed. '
            'parallelize error paths run in their own process group under a watchdog.',
            'Fault points of the explored pipelines are enumerated (classes rotate in quick, full product in '
            'thorough); failpoints inside a try statement of the library (lexically or in a caller frame) are '
            'not used. Two parallelize error-path defects are recorded as known findings.', '3/C04'),
    'C08': ('crash-lab', 'fault_enumeration',
            'runtime crash injection: fork + I/O event shims on dataflows.processors.stream; kill (os._exit(137)) '
            'or OSError before every I/O event; downstream step failures; post-crash ndjson reader + recovery '
            'run compared with the uninterrupted baseline',
            'Every event index of the recorded I/O trace of a checkpoint-writing run (1..3 resources, 0..101 '
            'rows, one or two chained checkpoints, stale .active files) is a crash point in two modes; any '
            'stream.ndjson found must be complete and the next run must equal the baseline and recompute iff '
            'no complete checkpoint exists.',
            'Python-level I/O events (an audit hook proves no file-system event bypassed the shims); SIGKILL '
            'semantics (page cache survives); quick samples traces longer than 60 events, thorough enumerates all.',
            '3/C08'),
    'C18': ('sched-lab', 'exploration',
            'runtime event-log monitor: queue/process/thread proxies (inherited by forked workers) with seeded '
            'delay injection; offline exactly-once / apply-once / queue-conservation / end-marker-ordering / '
            'shutdown checker; quiescence detector for deadlocks',
            'Nine schedule families x 1..4 workers x six predicate patterns x lengths 0..100 (1000 and line-level '
            'yield injection in thorough) x resource layouts; the merged log of parent threads and worker '
            'processes is checked offline and the delivered rows are compared with the sequential map.',
            'Schedules are sampled, not enumerated: evidence reports distinct interleaving signatures and '
            'both-order observations of racing pairs. A hang without quiescence is inconclusive.', '3/C18'),
    'C19': ('crash-lab', 'fault_enumeration',
            'runtime crash injection: fork + I/O event shims on file_dumper / to_path (temp files, chunked copy); '
            'kill before every I/O event; post-crash: parseable datapackage.json => every listed file exists with '
            'recorded size and md5',
            'Every event index of the I/O trace of dump_to_path into a fresh directory (1..3 resources, 0..200 '
            'rows, csv/json, pretty on/off) is a kill point; the directory is then inspected with independent '
            'readers.',
            'Python-level I/O events with copies split into >=3 chunks; quick samples traces longer than 80 '
            'events, thorough enumerates all.', '3/C19'),
}

NOT_BUILT_REASON = 'check not built yet in this round (design in DESIGN.md section 3); no claim made'


def main():
    props = [json.loads(l)['id'] for l in open(os.path.join(HERE, 'properties.jsonl'))]
    fixes = []
    try:
        out = subprocess.run(['git', '-C', '/repo', 'log', '--format=%h %s'], capture_output=True,
                             text=True).stdout
        fixes = [l.split()[0] for l in out.splitlines() if l.split(' ', 1)[1].startswith('hook:')]
    except Exception:
        pass
    man = {
        'version': 1,
        'setup_cmd': '/venv/bin/python /verif/vcheck --selftest',
        'hooks': {
            'guard': 'DATAFLOWS_VERIF',
            'enable': 'none needed: all instrumentation is attached from /verif at run time by '
                      'rebinding module-level names, wrapping methods, probe steps, sys.monitoring '
                      'and strace; no source line in /repo reads the guard',
            'baseline_off_cmd': PYTEST,
            'source_commits': fixes,
            'add_only': True,
        },
        'engines': [
            {'name': 'pipeline-lab', 'path': 'vlib/lab.py', 'kind_free_text':
             'generated pipelines run on the real library; reference-model and differential oracles'},
            {'name': 'fault-lab', 'path': 'vlib/faultlab.py', 'kind_free_text':
             'faulty steps and sys.monitoring failpoints; classification by exception identity'},
            {'name': 'crash-lab', 'path': 'vlib/crashlab.py', 'kind_free_text':
             'fork + I/O event shims: kill / raise before every event of a run; post-crash monitors'},
            {'name': 'sched-lab', 'path': 'vlib/schedlab.py', 'kind_free_text':
             'queue/process/thread proxies with delay injection, merged event log, offline checker'},
            {'name': 'io-lab', 'path': 'vlib/iolab.py', 'kind_free_text':
             'independent readers (csv/json/zip/sqlite3/md5) over the artifacts the real code wrote'},
        ],
        'checks': [],
        'not_applicable': [],
        'notes': 'Runtime monitoring only. ./vcheck <id> --tier quick|thorough; exit 0 held, 1 VIOLATION, '
                 '2 INCONCLUSIVE. known_findings.json lists recorded/fixed defects.',
    }
    served = {}
    for pid in props:
        if pid in CHECKS:
            eng, cat, tech, text, note, ref = CHECKS[pid]
            served.setdefault(eng, []).append(pid)
            man['checks'].append({
                'property_id': pid,
                'quick_cmd': '/venv/bin/python /verif/vcheck %s --tier quick' % pid,
                'thorough_cmd': '/venv/bin/python /verif/vcheck %s --tier thorough' % pid,
                'evidence_file': '/verif/evidence/%s.json' % pid,
                'replay_cmd_template': '/venv/bin/python /verif/vcheck %s --replay {path}' % pid,
                'engine': eng,
                'level_claimed': {'category': cat, 'text': text, 'design_ref': 'DESIGN.md §' + ref},
                'level_note': note,
                'technique': tech,
            })
        else:
            man['not_applicable'].append({'property_id': pid, 'reason': NOT_BUILT_REASON})
    for e in man['engines']:
        e['serves_properties'] = served.get(e['name'], [])
    with open(os.path.join(HERE, 'MANIFEST.json'), 'w') as f:
        json.dump(man, f, indent=1)
    print('MANIFEST.json: %d checks, %d not_applicable' % (len(man['checks']), len(man['not_applicable'])))


if __name__ == '__main__':
    main()
