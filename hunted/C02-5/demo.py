"""C02: sources(iterable, iterable) emits several resources that are all named 'res_1'."""
import sys
from dataflows import Flow, sources, validate

people = [{'name': 'ann', 'age': 31}]
cities = [{'city': 'paris', 'country': 'fr'}]

print('expected: sources(people, cities) yields two resources with unique names; after validate() the rows of '
      'each resource carry exactly the fields declared for that resource')
ok = True

rows, dp, _ = Flow(sources(people, cities)).results()
names = [r['name'] for r in dp.descriptor['resources']]
print('observed sources(people, cities): resource names = %r' % names)
if len(set(names)) != len(names):
    ok = False

rows, dp, _ = Flow(sources(people, cities), validate()).results()
for res, res_rows in zip(dp.descriptor['resources'], rows):
    declared = [f['name'] for f in res['schema']['fields']]
    for row in res_rows:
        undeclared = sorted(set(row) - set(declared))
        print('observed sources(...) + validate(): resource %r declared=%r row=%r undeclared=%r'
              % (res['name'], declared, row, undeclared))
        if undeclared:
            ok = False

if ok:
    print('OK: property holds')
    sys.exit(0)
print('VIOLATION: duplicate resource names; the second stream is processed with the first descriptor')
sys.exit(1)
