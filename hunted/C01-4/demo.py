"""C01: the outcome of a flow depends on how often / through which entry point it was obtained.

    flow = Flow(data, add_computed_field(target='total', operation='sum', source=['a', 'b']))

`data` is a plain list (re-iterable), nothing here is single-use by nature.  The property says the
outcome is the same whether it is obtained through process(), datastream() or results().  But
add_computed_field rewrites the caller's field spec while the rows of the FIRST run are streaming
(target 'total' -> {'name': 'total'}), so from the second evaluation on the computed field is
declared without a type (=> 'string'): process() then reports a different descriptor than before
and results() fails with a validation error on the integer totals.

The same happens without re-running a Flow object when one spec list is shared by two flows, e.g.
the chained flow and the step-by-step evaluation of the same steps.
"""
import sys

from dataflows import Flow, add_computed_field


def field_types(dp):
    return {f['name']: f['type'] for f in dp.descriptor['resources'][0]['schema']['fields']}


data = [{'a': 1, 'b': 2}, {'a': 3, 'b': 5}]
failed = False

# 1. one Flow object, three entry points
flow = Flow(data, add_computed_field(target='total', operation='sum', source=['a', 'b']))
dp, _ = flow.process()
first = field_types(dp)
print('process()    ->', first)
ds = flow.datastream()
rows = [list(r) for r in ds.res_iter]
second = field_types(ds.dp)
print('datastream() ->', second, rows)
try:
    rows, dp, _ = flow.results()
    third = (field_types(dp), rows)
except Exception as e:
    third = 'raised %s: %s' % (type(e).__name__, ' '.join(str(e).split()))
print('results()    ->', third)
expected = (first, [[{'a': 1, 'b': 2, 'total': 3}, {'a': 3, 'b': 5, 'total': 8}]])
print('expected from every entry point:', expected)
if second != first or third != expected:
    failed = True
    print('-> MISMATCH between entry points')

# 2. chained vs step by step, both built from the same (module level) spec
SPEC = [dict(target='total', operation='sum', source=['a', 'b'])]
chained = field_types(Flow(data, add_computed_field(SPEC)).process()[0])
stepwise = field_types(Flow(data, add_computed_field(SPEC)).process()[0])
print('first flow built from SPEC :', chained)
print('second flow built from SPEC:', stepwise)
if chained != stepwise:
    failed = True
    print('-> MISMATCH: SPEC was modified by the first run:', SPEC)

if failed:
    print('VIOLATION: same steps, same data, different outcome')
    sys.exit(1)
print('ok')
