"""C18 - parallelize after sort_rows (more rows than the 10240-entry kvfile cache).

Flow(data, sort_rows('{a}'), parallelize(double)) is an ordinary, well-typed pipeline.  Its
sequential twin Flow(data, sort_rows('{a}'), double) delivers all N rows.  parallelize, however,
hands the upstream row iterator over to a background "producer" thread as soon as the first
selected row shows up.  sort_rows (and join) read their rows back from an sqlite-backed KVFile
whose connection was created by the main thread, so the very next fetch, now done by the producer
thread, raises sqlite3.ProgrammingError ("SQLite objects created in a thread can only be used in
that same thread").  producer() swallows it: the rows are lost, the workers never get their end
markers, the flow stalls 10 s, raises an unrelated ValueError and the interpreter cannot exit.

The scenario runs in a child process (own session) so that this demo can time it and clean up.
"""
import os
import shutil
import signal
import subprocess
import sys
import time

N = 12000          # > kvfile's DEFAULT_CACHE_SIZE (10240), so sort_rows spills to sqlite
WORKERS = 2
TIME_BOUND = 30    # s; the sequential twin needs ~1 s


def double(row):
    row['c'] = row['a'] * 2


def child(mode):
    from dataflows import Flow, parallelize, sort_rows
    upstream_errors = []

    def spy(rows):   # a plain pass-through step that only records what the upstream raised
        try:
            yield from rows
        except Exception as e:
            upstream_errors.append(repr(e))
            raise

    data = [dict(a=(i * 7919) % N, c=0) for i in range(N)]
    step = double if mode == 'sequential' else parallelize(double, num_processors=WORKERS)
    t = time.time()
    try:
        rows = Flow(data, sort_rows('{a}'), spy, step).results()[0][0]
        good = sorted((r['a'], r['c']) for r in rows) == [(i, 2 * i) for i in range(N)]
        print('RESULT rows=%d all_correct=%s' % (len(rows), good))
    except Exception as e:
        print('RESULT exception %s: %s' % (type(e).__name__, str(e).strip().splitlines()[-1]))
    print('ELAPSED %.1f' % (time.time() - t))
    for err in upstream_errors:
        print('UPSTREAM-ERROR (raised inside the upstream iterator, swallowed by parallelize): ' + err)
    sys.stdout.flush()


def run(mode, tmpdir):
    env = dict(os.environ, TMPDIR=tmpdir)
    out_path = os.path.join(tmpdir, mode + '.out')
    with open(out_path, 'w') as out:
        p = subprocess.Popen([sys.executable, os.path.abspath(__file__), mode], env=env,
                             stdout=out, stderr=subprocess.DEVNULL, start_new_session=True)
        t = time.time()
        try:
            p.wait(timeout=TIME_BOUND)
            exited = True
        except subprocess.TimeoutExpired:
            exited = False
        took = time.time() - t
        try:
            os.killpg(p.pid, signal.SIGKILL)     # also the orphaned worker processes
        except ProcessLookupError:
            pass
        p.wait()
    with open(out_path) as f:
        lines = f.read().splitlines()
    return exited, took, lines


def main():
    tmpdir = os.path.abspath('c18_demo_tmp')
    shutil.rmtree(tmpdir, ignore_errors=True)
    os.makedirs(tmpdir)
    try:
        seq = run('sequential', tmpdir)
        par = run('parallel', tmpdir)
    finally:
        shutil.rmtree(tmpdir, ignore_errors=True)

    expected = 'RESULT rows=%d all_correct=True' % N
    print('pipeline: Flow(%d rows, sort_rows("{a}"), parallelize(double, num_processors=%d)).results()' % (N, WORKERS))
    print('expected: %s, and the program terminates (sequential twin: %s, process exited=%s after %.1fs)'
          % (expected, seq[2][:1], seq[0], seq[1]))
    print('observed with parallelize:')
    for line in par[2]:
        print('   ', line)
    print('    program exited on its own within %ds: %s (waited %.1fs)' % (TIME_BOUND, par[0], par[1]))
    ok = par[0] and expected in par[2]
    if ok:
        print('OK: property holds')
        return 0
    print('VIOLATION: rows are lost / the flow fails and does not terminate, although the same '
          'pipeline without parallelize delivers all rows')
    return 1


if __name__ == '__main__':
    if len(sys.argv) > 1:
        child(sys.argv[1])
    else:
        sys.exit(main())
