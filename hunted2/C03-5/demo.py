"""C03: a datetime field whose format carries a UTC offset (%z): the values are zone-aware datetimes.  The
dumpers re-declare the field's format as '%Y-%m-%dT%H:%M:%S' and write the wall-clock time only, so the
offset is silently dropped: 12:00:00+02:00 is written as 12:00:00 and loads back as a naive datetime (a
different instant, no error)."""
import datetime
import os
import shutil
import sys
import tempfile

from dataflows import Flow, load, dump_to_path, dump_to_zip, update_resource, validate

FORMAT = '%Y-%m-%dT%H:%M:%S%z'
TEXT = [dict(id=1, at='2020-01-02T12:00:00+0200'), dict(id=2, at='2020-06-30T23:59:59-0530')]
SCHEMA = dict(fields=[dict(name='id', type='integer'), dict(name='at', type='datetime', format=FORMAT)])


def flow(*steps):
    return Flow((dict(r) for r in TEXT), update_resource(-1, name='res', path='res.csv', schema=SCHEMA),
                validate(), *steps)


def main():
    failures = 0
    tmp = tempfile.mkdtemp(prefix='c03demo')
    try:
        entered = flow().results()[0][0]       # typed rows as they enter the dumper
        for fmt in ('csv', 'json'):
            for kind in ('path', 'zip'):
                if kind == 'path':
                    out = os.path.join(tmp, fmt)
                    flow(dump_to_path(out, format=fmt)).process()
                    back = Flow(load(os.path.join(out, 'datapackage.json'))).results()[0][0]
                else:
                    out = os.path.join(tmp, fmt + '.zip')
                    flow(dump_to_zip(out, format=fmt)).process()
                    back = Flow(load(out, format='datapackage')).results()[0][0]
                print('format=%s, dump_to_%s' % (fmt, kind))
                print('  expected:', [r['at'].isoformat() for r in entered])
                print('  observed:', [r['at'].isoformat() for r in back])
                same = all(a['at'].tzinfo is not None and b['at'].tzinfo is not None and a['at'] == b['at']
                           and a['at'].utcoffset() == b['at'].utcoffset() for a, b in zip(entered, back))
                failures += not same
    finally:
        shutil.rmtree(tmp, ignore_errors=True)
    if failures:
        print('VIOLATION: the UTC offset of zone-aware datetimes is lost in %d dump/load round trips' % failures)
        return 1
    print('ok')
    return 0


if __name__ == '__main__':
    sys.exit(main())
