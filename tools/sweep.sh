#!/bin/bash
# sweep.sh <tier> <seeds...> : run every check for the given seeds; print one line per (check, seed) and all alarms
tier=$1; shift
for seed in "$@"; do
  for c in C01 C02 C03 C04 C05 C06 C07 C08 C09 C10 C11 C12 C13 C14 C15 C16 C17 C18 C19 C20; do
    out=$(VERIF_SEED=$seed /venv/bin/python ./vcheck $c --tier $tier 2>&1); rc=$?
    echo "seed=$seed $c rc=$rc $(echo "$out" | grep "tier=" | tail -1)"
    if [ $rc -ne 0 ]; then echo "$out" | grep -A1 "VIOLATION\|INCONCLUSIVE" | cut -c1-600; fi
  done
done
