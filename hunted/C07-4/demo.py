"""C07: when checkpoint() sits in a nested Flow (nested flows are documented in TUTORIAL.md,
"Nested Flows"), the steps of the *outer* flow that are placed before it are executed again on
resume - although their output was saved in the checkpoint and is what the resumed run returns.
"""
import contextlib
import io
import os
import shutil
import sys
import tempfile

from dataflows import Flow, checkpoint, load, add_field

executed = []


class Source:
    """A re-iterable source that records every time it is read."""
    def __iter__(self):
        executed.append('source read')
        for i in range(3):
            yield {'i': i}


def expensive_package_step(package):
    executed.append('package step')
    yield package.pkg
    yield from package


def enrich():
    # a reusable sub-flow that caches its result
    return Flow(add_field('double', 'integer', lambda row: row['i'] * 2), checkpoint('enriched'))


def run(flow):
    with contextlib.redirect_stdout(io.StringIO()):
        return flow.results()


def main():
    failed = False
    cwd = os.getcwd()
    tmp = tempfile.mkdtemp(prefix='c07-demo-')
    os.chdir(tmp)
    try:
        def pipeline():
            return Flow(Source(), expensive_package_step, enrich())

        rows1, dp1, _ = run(pipeline())
        first_log = list(executed)
        del executed[:]
        rows2, dp2, _ = run(pipeline())
        second_log = list(executed)
        print('rows equal:', rows1 == rows2, '; descriptor equal:', dp1.descriptor == dp2.descriptor)
        print('steps before the checkpoint executed on the first run :', first_log)
        print('steps before the checkpoint executed on the resumed run:', second_log, '(expected: [])')
        if second_log:
            failed = True

        # consequence: the resumed run still needs the original source
        with open('source.csv', 'w') as f:
            f.write('i\n1\n2\n')

        def pipeline2():
            return Flow(load('source.csv'), Flow(checkpoint('loaded')))

        run(pipeline2())
        os.remove('source.csv')
        try:
            run(pipeline2())
            print('resume without the source file: ok')
        except Exception as e:
            print('resume without the source file (everything is in the checkpoint) raised:',
                  type(e).__name__, str(e).strip().splitlines()[0][:150])
            failed = True
    finally:
        os.chdir(cwd)
        shutil.rmtree(tmp, ignore_errors=True)
    if failed:
        print('FAIL: steps placed before the checkpoint were executed on resume')
        sys.exit(1)
    print('OK')


if __name__ == '__main__':
    main()
