"""C17 filter_rows, deduplicate and unpivot neither lose nor invent data.

Oracle: reference models (refmodel.filter_rows / deduplicate / unpivot) on the same generated table;
every input row carries a unique id so the comparison is also a row/cell ledger.
"""
import copy
import datetime
import decimal

from vlib import boot, gen, lab, refmodel

PROPERTY = 'C17'
LEVEL = 'exploration'
RULE = ('seeded generation per family (filter callable/equals/not_equals with several dicts and keys; '
        'deduplicate with single/composite primary keys incl. nulls and duplicates, applied once and '
        'twice; unpivot with literal/regex names, back-references, constant keys, several spec entries, '
        'kept fields, regex on/off) x 1..3 resources x 0..60 rows; distinct = case hash; non-trivial = '
        'reference output differs from the input and is non-empty')
ASSUMPTIONS = [
    'unpivot keys are derived from the same full match that selected the field (match.expand of the key template)',
    'primary-key values are hashable (scalars, None)',
    'filter_rows without any condition (bare, or with empty equals and not_equals) keeps no row: PROCESSORS.md, "If none of the conditions validate, the row will be discarded"',
]
REQUIRED_COUNTERS = ['rows_compared']
FAMILIES = ['filter_callable', 'filter_equals', 'deduplicate', 'unpivot']
D = decimal.Decimal


def gen_cases(tier, seed):
    # the processors of this property once more with assertions disabled (python -O) against a normal interpreter
    yield {'family': 'optimized_differential', 'idx': 9 * 10 ** 6, 'seed': seed, 'spill': False, 'big': False, 'proc': 'optimized_differential', 'names': ['a'], 'selector': None}
    n = {'quick': 400, 'thorough': 8000}[tier]
    for fam in FAMILIES:
        for i in range(n):
            yield {'family': fam, 'idx': i, 'seed': seed}


def cond_b_small(row):
    return row['b'] is not None and row['b'] < 3


def cond_s_has_a(row):
    return bool(row['s']) and 'a' in row['s']


def cond_alt(row):
    return row['id'] % 2 == 0


def cond_none(row):
    return False


def cond_truthy_nonbool(row):
    return row['s']          # truthy/falsy non-bool result


CONDS = [cond_b_small, cond_s_has_a, cond_alt, cond_none, cond_truthy_nonbool]

FIELDS = [('id', 'integer'), ('s', 'string'), ('b', 'integer'), ('n', 'number'), ('d', 'date'), ('a', 'any')]
S_POOL = ['a', 'ab', '', 'x', 'A', 'a ', None]
N_POOL_NOTE = 'Decimal(1) and Decimal(1.0) are equal keys; -1/-2 and 0/2**61-1 collide only in hash()'
B_POOL = [0, 1, 2, 3, 5, None, -1, -2, 2 ** 61 - 1]      # hash(-1) == hash(-2), hash(0) == hash(2**61-1)
N_POOL = [D('1'), D('1.0'), D('2.5'), None, D('-1')]
D_POOL = [datetime.date(2020, 1, 1), datetime.date(2020, 1, 2), None]


A_POOL = [True, False, 0, 1, 'x', None]        # an 'any' field: true and 1 are different values (as in JSON)


def base_table(rng, rn, nrows):
    rows = [{'id': i, 's': rng.choice(S_POOL), 'b': rng.choice(B_POOL), 'n': rng.choice(N_POOL),
             'd': rng.choice(D_POOL)} for i in range(nrows)]
    rng_a = boot.rng('C17', 'any', rn, nrows, rows[0]['s'] if rows else '')
    for r in rows:
        r['a'] = rng_a.choice(A_POOL)
    return rows


def run_case(case):
    if case['family'] == 'optimized_differential':
        from vlib import optlab
        return optlab.as_case_result(['filter_rows', 'filter_equals', 'deduplicate', 'unpivot'], {'rows_compared': 0, 'cells_accounted': 0})
    fam = case['family']
    nested = False
    rng = boot.rng(case['seed'], 'C17', fam, case['idx'])
    d = lab.df()
    counters = {'rows_compared': 0, 'cells_accounted': 0}
    cov = {'config': {}}
    viol = []
    res_names = rng.sample(['r1', 'r2', 'r3'], rng.choice([1, 1, 2, 3]))
    selector = rng.choice([None, None, res_names[0], [res_names[-1]]])
    selected = refmodel.sel(selector, res_names)
    sizes = {rn: rng.choice([0, 1, 2, 5, 13, 60]) for rn in res_names}
    cfg = {}
    if fam == 'unpivot':
        pivots = rng.sample(['x2000', 'x2001', 'x1999', 'y_1', 'y_2', 'total', 'x.5'], rng.randint(1, 5))
        kept = rng.sample(['id', 'name', 'grp'], rng.randint(0, 3))
        order = kept + pivots
        rng.shuffle(order)
        fields = [(n, 'integer' if n == 'id' else 'string') for n in order]
        sfields = gen.schema_fields(fields)
        tables = {rn: [{n: (i if n == 'id' else rng.choice(['v%d' % rng.randint(0, 9), None, '']))
                        for n in order} for i in range(sizes[rn])] for rn in res_names}
        regex = rng.random() < 0.7
        specs = []
        kinds = []
        for _ in range(rng.randint(1, 3)):
            k = rng.choice(['lit', 'year_re', 'y_re', 'const', 'nomatch', 'dotlit', 'alt_g0', 'lazy', 'lookahead_rest'])
            kinds.append(k)
            if not regex:
                k = 'lit' if k in ('year_re', 'y_re', 'alt_g0', 'lazy', 'lookahead_rest') else k
            if k == 'lit':
                nm = rng.choice(pivots)
                k1 = 'L-' + nm.replace('.', '')
                if not regex and rng.random() < 0.5:
                    # literal mode: the key values are values, not replacement templates (a backslash is a backslash)
                    k1 = rng.choice(['\\alpha', 'C:\\temp\\' + nm.replace('.', '') + '.csv', 'a\\1b', '\\g<0>'])
                    cov['config']['unpivot/noregex/backslash_in_key_value'] = 1
                specs.append({'name': nm if not regex else nm.replace('.', r'\.'),
                              'keys': {'k1': k1, 'k2': 7}})
            elif k == 'year_re':
                specs.append({'name': r'x([0-9]{4})', 'keys': {'k1': r'\1', 'k2': r'y\g<1>!'}})
            elif k == 'y_re':
                specs.append({'name': r'(y)_(\d)', 'keys': {'k1': r'\2\1', 'k2': None}})
            elif k == 'alt_g0':
                # alternation whose first alternative is a proper prefix of a later one; whole-match back-reference
                specs.append({'name': r'y|y_1|y_2|total', 'keys': {'k1': r'<\g<0>>', 'k2': 2}})
            elif k == 'lazy':
                specs.append({'name': r'(x.*?)(\d*)', 'keys': {'k1': r'\1', 'k2': r'[\2]'}})
            elif k == 'lookahead_rest':
                # can match the empty string (selection is by full match; keys are derived from that same match)
                specs.append({'name': r'(?!id$|name$|grp$|tags$)(.*)', 'keys': {'k1': r'col:\1', 'k2': 'survey'}})
            elif k == 'const':
                specs.append({'name': 'total', 'keys': {'k1': 'T', 'k2': 1.5}})
            elif k == 'dotlit':
                specs.append({'name': 'x.5' if not regex else r'x\.5', 'keys': {'k1': 'dot', 'k2': 0}})
            else:
                specs.append({'name': 'zzz', 'keys': {'k1': 'none', 'k2': 0}})
        for k in kinds:
            cov['config']['unpivot/' + k + ('' if regex else '/noregex')] = 1
        if rng.random() < 0.25 and specs:
            # one entry does not give a value for every extra key: the rows it produces carry null there
            specs[rng.randrange(len(specs))]['keys'].pop('k2', None)
            cov['config']['unpivot/spec_without_all_keys'] = 1
        extra_keys = [{'name': 'k1', 'type': 'string'}, {'name': 'k2', 'type': 'any'}]
        extra_value = {'name': 'val', 'type': 'string'}
        step = d.unpivot(copy.deepcopy(specs), copy.deepcopy(extra_keys), copy.deepcopy(extra_value),
                         regex=regex, resources=copy.deepcopy(selector))
        cfg = {'specs': specs, 'regex': regex, 'fields': order}

        nested = rng.random() < 0.3
        if nested:
            # a kept field holds a nested value and a later row function edits it in place: every emitted row is its own
            order = order + ['tags']
            # ... whatever type the field is declared with (a list is a legal 'any' / 'geojson'-less container cell too)
            ntype = rng.choice(['array', 'array', 'any', 'any'])
            fields = fields + [('tags', ntype)]
            sfields = gen.schema_fields(fields)
            for rn in res_names:
                for r_ in tables[rn]:
                    r_['tags'] = ['t', {'k': [0]}]
            cov['config']['unpivot/nested_kept_value/' + ntype] = 1

        def ref(F, R):
            f2, r2, n = refmodel.unpivot(F, R, specs, extra_keys, extra_value, regex)
            counters['cells_accounted'] += n * len(R)
            if nested:
                r2 = [dict(r_, tags=['t', {'k': [0, 1]}, 'x']) for r_ in copy.deepcopy(r2)]
            return f2, r2
        pre = []
        if 'id' in kept and rng.random() < 0.3:
            # the input declares a (valid) primary key on a kept field
            pre = [d.set_primary_key(['id'])]
            cov['config']['unpivot/primary_key_on_kept_field'] = 1
        elif 'id' in kept and rng.random() < 0.3:
            # ... or a field-level unique constraint
            for f_ in sfields:
                if f_['name'] == 'id':
                    f_['constraints'] = {'unique': True}
            cov['config']['unpivot/unique_constraint_on_kept_field'] = 1
    else:
        fields = FIELDS
        sfields = gen.schema_fields(fields)
        tables = {rn: base_table(rng, rn, sizes[rn]) for rn in res_names}
        pre = []
        if fam == 'filter_callable':
            c = rng.choice(CONDS)
            step = d.filter_rows(condition=c, resources=copy.deepcopy(selector))
            cfg = {'condition': c.__name__}
            cov['config']['filter/' + c.__name__] = 1
            ref = lambda F, R: (F, refmodel.filter_rows(R, condition=c))   # noqa: E731
        elif fam == 'filter_equals':
            def conds():
                out = []
                for _ in range(rng.randint(0, 2)):
                    o = {}
                    for k in rng.sample(['s', 'b', 'n', 'd'], rng.randint(1, 2)):
                        o[k] = rng.choice({'s': S_POOL, 'b': B_POOL, 'n': N_POOL, 'd': D_POOL}[k])
                    out.append(o)
                return out
            eq, neq = conds(), conds()
            if not eq and not neq and rng.random() < 0.5:
                # no condition at all (PROCESSORS.md: "If none of the conditions validate, the row will be discarded"):
                # no row satisfies an empty disjunction, the selected resources come out empty
                step = d.filter_rows(resources=copy.deepcopy(selector))
            else:
                step = d.filter_rows(equals=copy.deepcopy(eq), not_equals=copy.deepcopy(neq),
                                     resources=copy.deepcopy(selector))
            cfg = {'equals': eq, 'not_equals': neq}
            cov['config']['filter/eq%d/neq%d' % (len(eq), len(neq))] = 1
            ref = lambda F, R: (F, refmodel.filter_rows(R, equals=eq, not_equals=neq))   # noqa: E731
        else:
            pk = rng.choice([['b'], ['s'], ['s', 'b'], ['n'], ['d', 'b'], ['id'], [], ['b', 's', 'n']])
            if boot.rng(case['seed'], 'C17', 'anykey', case['idx']).random() < 0.2:
                pk = [['a'], ['a', 's']][case['idx'] % 2]
            twice = rng.random() < 0.5
            pre = [d.set_primary_key(list(pk))]
            if len(pk) == 1 and rng.random() < 0.35:
                # Table Schema also allows a single field name (a string) as primaryKey
                pre = [d.update_schema(None, primaryKey=pk[0])]
                cov['config']['dedup/primaryKey_given_as_string'] = 1
            step = d.deduplicate(resources=copy.deepcopy(selector))
            cfg = {'pk': pk, 'twice': twice}
            cov['config']['dedup/pk%d%s' % (len(pk), '/twice' if twice else '')] = 1
            ref = lambda F, R: (F, refmodel.deduplicate(R, pk))   # noqa: E731
    srcs = [lab.source(rn, sfields, tables[rn]) for rn in res_names]
    steps = srcs + pre + [step]
    if fam == 'unpivot' and nested:
        sel_names = set(selected)

        def nest_edit(package):
            yield package.pkg
            for res in package:
                if res.res.name in sel_names:
                    def it(res=res):
                        for row in res:
                            row['tags'].append('x')
                            row['tags'][1]['k'].append(1)
                            yield row
                    yield it()
                else:
                    yield res
        steps.append(nest_edit)
    if cfg.get('twice'):
        steps.append(d.deduplicate(resources=copy.deepcopy(selector)))
    got = lab.run(steps)
    sample = {'resources': res_names, 'selector': selector, 'config': cfg,
              'rows': gen.render(tables[res_names[0]][:4], 400)}

    def add(kind, msg):
        viol.append({'kind': kind, 'mech': fam, 'msg': msg, 'config': cfg})
    if not got.ok:
        add('unexpected_error', '%s %r: %s' % (fam, cfg, got.errstr()))
        return dict(nontrivial=False, violations=viol, cov=cov, counters=counters)
    gg = got.by_name()
    nontrivial = False
    for rn in res_names:
        F, R = sfields, tables[rn]
        if rn in selected:
            F, R = ref(copy.deepcopy(sfields), copy.deepcopy(tables[rn]))
            if R and not (len(R) == len(tables[rn]) and all(lab.strict_eq(a, b) for a, b in zip(R, tables[rn]))):
                nontrivial = True
        gdesc, grows = gg[rn]
        gnames = [f['name'] for f in gdesc['schema']['fields']]
        if gnames != [f['name'] for f in F]:
            add('schema', '%s %r: resource %s fields %r expected %r' % (fam, cfg, rn, gnames,
                                                                        [f['name'] for f in F]))
            continue
        if fam == 'unpivot' and rn in selected:
            tail = gdesc['schema']['fields'][-3:]
            if [f.get('type') for f in tail] != ['string', 'any', 'string']:
                add('schema', 'unpivot: key/value field descriptors %r' % tail)
        counters['rows_compared'] += len(R)
        gpk = gdesc['schema'].get('primaryKey') or []
        gpk = [gpk] if isinstance(gpk, str) else list(gpk)
        if fam == 'unpivot' and rn in selected:
            for f_ in gdesc['schema']['fields']:
                if (f_.get('constraints') or {}).get('unique') and \
                        len({repr(r_.get(f_['name'])) for r_ in grows}) != len(grows):
                    add('unique_constraint', 'unpivot %r: field %r is still declared unique but its cells are repeated in the '
                        '%d emitted rows of %s' % (cfg, f_['name'], len(grows), rn))
            for r_ in grows:
                if set(r_) != set(gnames):
                    add('row_keys', 'unpivot %r: emitted row keys %r, declared fields %r' % (cfg, sorted(r_), gnames))
                    break
        if fam == 'unpivot' and gpk:
            if any(k not in gnames for k in gpk):
                add('primary_key', 'unpivot: emitted primaryKey %r names undeclared fields %r' % (gpk, gnames))
            elif len({tuple(repr(r_.get(k)) for k in gpk) for r_ in grows}) != len(grows):
                add('primary_key', 'unpivot %r: emitted primaryKey %r is not unique over the %d emitted rows of %s '
                    '(it was unique over the input rows)' % (cfg, gpk, len(grows), rn))
        diffs = lab.rows_diff(R, grows)
        if diffs:
            add('rows', '%s %r: resource %s (%s): %s' % (fam, cfg, rn,
                                                         'selected' if rn in selected else 'unselected',
                                                         '; '.join(diffs)[:600]))
    return dict(nontrivial=nontrivial, violations=viol, cov=cov, counters=counters, sample=sample)
