"""C03: when the resource schema declares missingValues that do not contain '' (documented use of
update_schema, PROCESSORS.md: "You can use update_schema to add a missingValues property"),
the CSV writer still encodes null as the empty string, but records the schema's missingValues
unchanged in datapackage.json.  The written file therefore cannot be decoded with the recorded
missing-value property: load() raises on integer/date columns and silently turns null strings into ''.
"""
import csv
import json
import logging
import os
import shutil
import sys
import tempfile
import datetime

from dataflows import Flow, dump_to_path, dump_to_zip, load, set_type, update_resource, update_schema

logging.disable(logging.CRITICAL)
workdir = tempfile.mkdtemp(prefix='c03-missing-')


def source(rows, types):
    return [[dict(r) for r in rows], update_resource(-1, name='stations', path='stations.csv')] + \
           [set_type(k, type=v) for k, v in types.items()] + \
           [update_schema('stations', missingValues=['NA'])]


failed = False
try:
    # ---- 1. string column: null silently becomes '' -------------------------------------------
    out = os.path.join(workdir, 'strings')
    rows = [dict(code='x1', comment='fine'), dict(code='x2', comment=None)]
    entered = Flow(*source(rows, dict(code='string', comment='string')), dump_to_path(out)).results()[0][0]
    desc = json.load(open(os.path.join(out, 'datapackage.json')))['resources'][0]
    print('recorded missingValues :', desc['schema']['missingValues'])
    print('written file           :', repr(open(os.path.join(out, desc['path']), newline='').read()))
    # decode with nothing but what the descriptor records (dialect + missingValues)
    d = desc['dialect']
    with open(os.path.join(out, desc['path']), newline='', encoding=desc['encoding']) as f:
        rd = csv.reader(f, delimiter=d['delimiter'], quotechar=d['quoteChar'], doublequote=d['doubleQuote'],
                        skipinitialspace=d['skipInitialSpace'])
        header = next(rd)
        independent = [dict((k, None if v in desc['schema']['missingValues'] else v) for k, v in zip(header, r))
                       for r in rd]
    loaded = Flow(load(os.path.join(out, 'datapackage.json'))).results()[0][0]
    print('expected (entered dumper)        :', entered)
    print('observed (descriptor-only decode):', independent)
    print('observed (load())                :', loaded)
    if loaded != entered or independent != entered:
        failed = True

    # ---- 2. integer / date columns: the package cannot be loaded at all -------------------------
    rows = [dict(id=1, opened=datetime.date(2001, 2, 3)), dict(id=None, opened=None)]
    for kind in ('path', 'zip'):
        out = os.path.join(workdir, 'typed_' + kind)
        if kind == 'path':
            dumper, src, kw = dump_to_path(out), os.path.join(out, 'datapackage.json'), {}
        else:
            dumper, src, kw = dump_to_zip(out + '.zip'), out + '.zip', dict(format='datapackage')
        entered = Flow(*source(rows, dict(id='integer', opened='date')), dumper).results()[0][0]
        print('expected (entered dumper, %s):' % kind, entered)
        try:
            loaded = Flow(load(src, **kw)).results()[0][0]
            print('observed (load())              :', loaded)
            if loaded != entered:
                failed = True
        except Exception as e:
            failed = True
            print('observed (load())              : raises %s: %s' % (type(e).__name__, str(e).strip().splitlines()[-1]))
            cause = e
            while cause.__cause__ is not None:
                cause = cause.__cause__
            for err in getattr(cause, 'errors', []):
                print('     ', err)
finally:
    shutil.rmtree(workdir, ignore_errors=True)

if failed:
    print("VIOLATION: nulls are written as '' although '' is not among the recorded missingValues")
    sys.exit(1)
print('no violation observed')
sys.exit(0)
