"""C15 - add_computed_field: a row whose source columns are ALL null aborts the whole pipeline for
avg / min / max / multiply (ZeroDivisionError / ValueError / TypeError), although the processor
explicitly skips nulls and 'sum' / 'join' cope with the very same row."""
import sys
from dataflows import Flow, add_computed_field

DATA = [
    dict(id=1, a=4, b=2),
    dict(id=2, a=None, b=6),     # partially null: handled (nulls are skipped)
    dict(id=3, a=None, b=None),  # all source values null
    dict(id=4, a=1, b=3),
]
EXPECTED = {
    'sum':      [6, 6, 0, 4],          # current behaviour for the empty case: 0
    'avg':      [3, 6, None, 2],
    'min':      [2, 6, None, 1],
    'max':      [4, 6, None, 3],
    'multiply': [8, 6, None, 3],
}

failed = False
for op, expected in EXPECTED.items():
    flow = Flow(
        (dict(r) for r in DATA),
        add_computed_field(target='t', operation=op, source=['a', 'b']),
    )
    try:
        rows = flow.results()[0][0]
        observed = [None if r['t'] is None else float(r['t']) for r in rows]
        ok = observed == [None if e is None else float(e) for e in expected]
        print('%-8s expected t=%r  observed t=%r  %s' % (op, expected, observed, 'ok' if ok else 'MISMATCH'))
        failed |= not ok
    except Exception as e:
        failed = True
        cause = getattr(e, 'cause', e)
        print('%-8s expected t=%r (null for the all-null row, other rows computed)' % (op, expected))
        print('         observed: pipeline aborted with %s: %s' % (type(cause).__name__, cause))

if failed:
    print('VIOLATION: a conforming row with nulls in all source columns crashes avg/min/max/multiply')
    sys.exit(1)
print('OK')
