"""C10: concatenate(resources=<selector that selects no resource>) must leave every resource as it
was (nothing is selected, so nothing may change) -- like every other selector-taking step does.
Instead it declares the target resource without providing rows for it and the flow crashes."""
import sys

from dataflows import Flow, update_resource, concatenate, filter_rows, sort_rows, delete_resource

NAMES = ['res', 'res.1', 'res_1']


def source():
    steps = []
    for j, name in enumerate(NAMES):
        steps.append([dict(a=i + 10 * j, c='x%d' % i) for i in range(3)])
        steps.append(update_resource(-1, name=name, path=name + '.csv'))
    return steps


def run(*extra):
    rows, dp, _ = Flow(*source(), *extra).results()
    return [(r, rs) for r, rs in zip(dp.descriptor['resources'], rows)]


reference = run()
failed = False
for selector in ([], 'extra-.*', ['res.2']):
    # sanity: other steps treat the same selector as 'nothing selected, nothing changes'
    assert run(filter_rows(lambda row: False, resources=selector)) == reference
    assert run(sort_rows('{a}', resources=selector, reverse=True)) == reference
    assert run(delete_resource(selector)) == reference

    print('concatenate(resources=%r) on resources %r' % (selector, NAMES))
    print('  expected: res, res.1, res_1 pass through with identical descriptor and rows '
          '(at most an additional, empty target resource)')
    try:
        observed = run(concatenate(dict(a=[], c=[]), target=dict(name='target'), resources=selector))
    except Exception as e:
        print('  observed: raised %s: %s' % (type(e).__name__, str(e).splitlines()[0][:150]))
        failed = True
        continue
    untouched = [x for x in observed if x[0]['name'] != 'target']
    extra = [x for x in observed if x[0]['name'] == 'target']
    ok = untouched == reference and all(rows == [] for _, rows in extra)
    print('  observed:', 'as expected' if ok else observed)
    failed = failed or not ok

if failed:
    print('VIOLATION: a selector that selects nothing does not leave the package alone')
    sys.exit(1)
print('ok')
