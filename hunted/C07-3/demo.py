"""C07: with two resources, a step after the checkpoint that does not read a resource to its
end (here: keep the first two rows of every resource) gets different rows on resume.

On the first run every resource is fed by its own generator, so stopping early is harmless.
The checkpoint file however only delimits resources by position (a blank line): stream() writes
only the rows that were pulled through it, and unstream() starts "the next resource" at whatever
file position the previous reader stopped, so the blank terminator of resource 1 is taken for an
(empty) resource 2.
"""
import contextlib
import io
import itertools
import os
import shutil
import sys
import tempfile

from dataflows import Flow, checkpoint


def head(rows):                       # an ordinary `rows` step: keep the first two rows
    yield from itertools.islice(rows, 2)


def pipeline():
    cities = [{'city': c} for c in ('amsterdam', 'berlin', 'cairo', 'delhi')]
    codes = [{'code': n} for n in (10, 20, 30, 40)]
    return Flow(cities, codes, checkpoint('two-resources'), head)


def run(flow):
    with contextlib.redirect_stdout(io.StringIO()):
        return flow.results()


def main():
    cwd = os.getcwd()
    tmp = tempfile.mkdtemp(prefix='c07-demo-')
    os.chdir(tmp)
    try:
        first, dp1, _ = run(pipeline())
        second, dp2, _ = run(pipeline())
        with open('.checkpoints/two-resources/stream.ndjson') as f:
            stored = [line for line in f.read().split('\n')[1:]]
    finally:
        os.chdir(cwd)
        shutil.rmtree(tmp, ignore_errors=True)
    print('expected : resumed rows == first-run rows')
    print('first run:', first)
    print('resumed  :', second)
    print('rows stored in the checkpoint (the checkpointed steps produced 4 + 4):', stored)
    if first != second or dp1.descriptor != dp2.descriptor:
        print('FAIL: the resumed run does not reproduce the first run')
        sys.exit(1)
    print('OK')


if __name__ == '__main__':
    main()
