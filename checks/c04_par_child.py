"""Child process for C04 x parallelize: runs one faulted flow and reports the outcome to a JSON file.
Run in its own process group by the parent (orphaned workers are killed with the group)."""
import json
import os
import sys
import time

sys.path.insert(0, os.path.dirname(os.path.dirname(os.path.abspath(__file__))))
from vlib import boot, faultlab  # noqa: E402


def main():
    kind, workers, out = sys.argv[1], int(sys.argv[2]), sys.argv[3]
    d = boot.import_tree()
    inj = ValueError('injected ' + kind)

    def source():
        for i in range(150):
            if kind == 'upstream_before_first' and i == 0:
                raise inj
            if kind == 'upstream_late' and i == 130:
                raise inj
            yield {'id': i, 'n': i % 5}

    def row_func(row):
        if kind == 'row_func' and row['id'] == 77:
            raise inj
        row['n'] += 100

    def predicate(row):
        if kind == 'predicate' and row['id'] == 40:
            raise inj
        return row['id'] % 2 == 0
    desc = {'resources': [{'name': 'r', 'path': 'r.csv', 'schema': {'fields': [
        {'name': 'id', 'type': 'integer'}, {'name': 'n', 'type': 'integer'}]}}]}
    t0 = time.time()
    res = {'verdict': None}
    try:
        with boot.quiet():
            results, _, _ = d.Flow(d.load((desc, [source()])),
                                   d.parallelize(row_func, num_processors=workers, predicate=predicate)).results()
        res = {'verdict': 'returned_normally', 'rows': len(results[0])}
    except Exception as e:
        v, detail = faultlab.classify(e, inj)
        if v == 'wrong_cause' and kind == 'row_func':
            # the exception crosses a process boundary: identity cannot survive; same type and message is accepted
            c = getattr(e, 'cause', None)
            if type(c) is ValueError and str(c) == str(inj):
                v = 'ok'
        res = {'verdict': v if v != 'ok_wrapped' else 'ok', 'detail': detail}
    res['elapsed'] = time.time() - t0
    with open(out, 'w') as f:
        json.dump(res, f)
    sys.stdout.flush()
    os._exit(0)    # report first; whether a normal interpreter exit would hang is probed by the parent's watchdog


if __name__ == '__main__':
    main()
