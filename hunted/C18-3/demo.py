"""C18 - parallelize keeps reading its upstream in a background thread after the step behind it
stopped reading the resource, and collides with the main thread.

Pipeline: two resources, a dumper, parallelize, and a later step that only takes the first two rows
of every resource (a legitimate streaming step):

    Flow(rows_x(), rows_y(), dump_to_path('out'), parallelize(double, num_processors=2), first_two)

With the plain row step `double` instead of parallelize this yields 2 + 2 rows and terminates, and
the dumper still writes both resources completely.  With parallelize, the producer thread of
resource 1 is still iterating dump_to_path's row generator when the main thread moves on to
resource 2; dump_to_path (deliberately) finishes reading resource 1 in the main thread, so two
threads execute the same generator: 'ValueError: generator already executing'.  Whichever thread
loses, the outcome is wrong: the flow fails, and/or producer() swallows the error, never sends the
end markers to its workers, and the interpreter never exits (fetcher thread + workers wait forever).

The scenario runs in a child process (own session) so that this demo can time it and clean up.
"""
import itertools
import os
import shutil
import signal
import subprocess
import sys
import time

TIME_BOUND = 25   # s; the sequential twin needs ~2 s


def double(row):
    row['c'] = row['a'] * 2


def rows(n, tag, delay):
    for i in range(n):
        time.sleep(delay)
        yield dict(a=i, c=0, t=tag)


def first_two(package):
    yield package.pkg
    for res in package:
        yield itertools.islice(res, 2)


def child(mode):
    from dataflows import Flow, parallelize, dump_to_path
    step = double if mode == 'sequential' else parallelize(double, num_processors=2)
    try:
        res = Flow(rows(2000, 'x', 0.0005), rows(300, 'y', 0),
                   dump_to_path('out'), step, first_two).results()[0]
        good = all(r['c'] == 2 * r['a'] for rr in res for r in rr)
        print('RESULT rows per resource=%s all_correct=%s' % ([len(r) for r in res], good))
    except Exception as e:
        print('RESULT exception %s: %s' % (type(e).__name__, str(e).strip().splitlines()[-1]))
    sys.stdout.flush()


def run(mode, workdir):
    cwd = os.path.join(workdir, mode)
    os.makedirs(cwd)
    out_path = os.path.join(cwd, 'stdout.txt')
    with open(out_path, 'w') as out:
        p = subprocess.Popen([sys.executable, os.path.abspath(__file__), mode], cwd=cwd,
                             env=dict(os.environ, TMPDIR=cwd),
                             stdout=out, stderr=subprocess.DEVNULL, start_new_session=True)
        t = time.time()
        try:
            p.wait(timeout=TIME_BOUND)
            exited = True
        except subprocess.TimeoutExpired:
            exited = False
        took = time.time() - t
        try:
            os.killpg(p.pid, signal.SIGKILL)     # also the orphaned worker processes
        except ProcessLookupError:
            pass
        p.wait()
    with open(out_path) as f:
        lines = f.read().splitlines()
    return exited, took, lines


def main():
    workdir = os.path.abspath('c18_demo_tmp')
    shutil.rmtree(workdir, ignore_errors=True)
    os.makedirs(workdir)
    try:
        seq = run('sequential', workdir)
        par = run('parallel', workdir)
    finally:
        shutil.rmtree(workdir, ignore_errors=True)

    expected = 'RESULT rows per resource=[2, 2] all_correct=True'
    print('expected: %s, and the program terminates' % expected)
    print('sequential twin: %s, exited on its own=%s after %.1fs' % (seq[2], seq[0], seq[1]))
    print('with parallelize: %s, exited on its own within %ds=%s (waited %.1fs)'
          % (par[2], TIME_BOUND, par[0], par[1]))
    if par[0] and par[2] == [expected]:
        print('OK: property holds')
        return 0
    print('VIOLATION: the flow fails with "generator already executing" and/or never terminates')
    return 1


if __name__ == '__main__':
    if len(sys.argv) > 1:
        child(sys.argv[1])
    else:
        sys.exit(main())
