"""C13 - load(deduplicate_headers=True) can still produce duplicate field names.

Header row:  a,a,a (2)
The two 'a' columns are renamed to 'a (1)' and 'a (2)', but 'a (2)' is already
the name of the third column, so the resulting schema has two fields called
'a (2)' and every row silently loses one cell.
"""
import os
import sys
import tempfile
import shutil

from dataflows import Flow, load

workdir = tempfile.mkdtemp(prefix='c13-dedup-')
failed = False
try:
    path = os.path.join(workdir, 'table.csv')
    with open(path, 'w', newline='', encoding='utf-8') as f:
        f.write('a,a,a (2)\n'
                'x1,y1,z1\n'
                'x2,y2,z2\n')

    raw = []

    def capture(rows):
        for row in rows:
            raw.append(dict(row))
            yield row

    dp, _ = Flow(
        load(path, deduplicate_headers=True, infer_strategy=load.INFER_STRINGS),
        capture,
    ).process()
    names = [f['name'] for f in dp.descriptor['resources'][0]['schema']['fields']]

    print('header row           : a,a,a (2)   (3 columns, 2 data lines)')
    print('expected             : 3 pairwise distinct field names, and every row keeps its 3 cells')
    print('                       (x1,y1,z1) and (x2,y2,z2)')
    print('observed field names :', names)
    print('observed rows        :', raw)

    if len(names) != 3 or len(set(names)) != len(names):
        print('VIOLATION: deduplicate_headers=True left duplicate field names in the schema')
        failed = True
    for row, cells in zip(raw, (['x1', 'y1', 'z1'], ['x2', 'y2', 'z2'])):
        if sorted(row.values()) != sorted(cells):
            print('VIOLATION: row lost cell text: expected cells %r, got %r' % (cells, row))
            failed = True
            break
finally:
    shutil.rmtree(workdir, ignore_errors=True)

sys.exit(1 if failed else 0)
