"""C11: the 'sum' aggregate over a string field is documented as "for strings
the concatenation of strings", but join concatenates the matching values in
REVERSE order of appearance (while 'array'/'first'/'last' over the very same
rows report them in order of appearance)."""
import sys
import warnings

from dataflows import Flow, join, join_with_self

warnings.simplefilter('ignore')

SRC = [
    dict(k='x', s='He'),
    dict(k='x', s='ll'),
    dict(k='y', s='solo'),
    dict(k='x', s=None),
    dict(k='x', s='o!'),
]
FIELDS = {
    'concat': {'name': 's', 'aggregate': 'sum'},
    'values': {'name': 's', 'aggregate': 'array'},
    'first': {'name': 's', 'aggregate': 'first'},
    'last': {'name': 's', 'aggregate': 'last'},
}

res, _, _ = Flow(
    [dict(r) for r in SRC], [dict(k='x'), dict(k='y')],
    join('res_1', ['k'], 'res_2', ['k'], {k: dict(v) for k, v in FIELDS.items()}),
).results()
row = res[0][0]
res2, _, _ = Flow(
    [dict(r) for r in SRC],
    join_with_self('res_1', ['k'], {'k': None, 'concat': {'name': 's', 'aggregate': 'sum'}}),
).results()
dedup = [r for r in res2[0] if r['k'] == 'x'][0]

expected = ''.join(r['s'] for r in SRC if r['k'] == 'x' and r['s'] is not None)
print('matching non-null values in order (array):', row['values'], 'first=%r last=%r' % (row['first'], row['last']))
print('expected sum (concatenation)             :', repr(expected))
print('observed sum, join                       :', repr(row['concat']))
print('observed sum, join_with_self             :', repr(dedup['concat']))
if row['concat'] != expected or dedup['concat'] != expected:
    print('VIOLATION: string sum is the concatenation in reverse order')
    sys.exit(1)
sys.exit(0)
