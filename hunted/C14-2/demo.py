"""C14: the on_error policy is bypassed when Table Schema's cast/constraint
check fails with anything other than CastError.

schema_validator only catches tableschema.exceptions.CastError.  Some perfectly
lexical, spec-conforming values make Field.cast_value() raise a different
exception (TypeError / decimal.InvalidOperation); the run is then aborted with
that raw exception under *every* policy (drop, ignore, clear, custom handler),
and under 'raise' it is not a ValidationError carrying row and index.

 A) duration field with a `minimum` constraint (constraint documented for
    durations in the Table Schema spec): any ISO-8601 duration that has a
    year or month part ('P1Y', 'P2M') -> TypeError.
 B) number column holding the spec's own special value 'INF', re-typed to
    integer -> decimal.InvalidOperation.
"""
import sys
import warnings

from dataflows import Flow, set_type, validate, ValidationError
from dataflows.base.schema_validator import drop, ignore, clear

warnings.simplefilter('ignore')


def custom4(res_name, row, index, exc):
    return False


def custom5(res_name, row, index, exc, field):
    row[field.name] = None
    return True


def run(make_steps, policy):
    seen = []

    def collect(rows):
        for row in rows:
            seen.append(dict(row))
            yield row
    try:
        Flow(*make_steps(policy), collect).process()
        return 'ok', seen
    except Exception as e:  # noqa
        cause = getattr(e, 'cause', e)
        if isinstance(cause, ValidationError):
            return 'ValidationError(index=%r)' % cause.index, seen
        return 'ABORT %s: %s' % (type(cause).__name__, cause), seen


def scenario_a(policy):
    data = [{'id': 1, 'd': 'P2D'}, {'id': 2, 'd': 'P1Y'}, {'id': 3, 'd': 'PT1H'}, {'id': 4, 'd': 'P3D'}]
    return [data, set_type('d', type='duration', constraints={'minimum': 'P1D'}, on_error=policy)]


def scenario_b(policy):
    data = [{'id': 1, 'n': '1'}, {'id': 2, 'n': 'INF'}, {'id': 3, 'n': '3'}]
    return [data, set_type('n', type='number'), set_type('n', type='integer', on_error=policy)]


violations = 0
for name, scenario, what in [
    ("A) duration + minimum='P1D', rows P2D / P1Y / PT1H / P3D", scenario_a,
     "ids 1 and 4 kept, id 3 (PT1H < P1D) handled by the policy, id 2 either kept or handled by the policy"),
    ("B) number 'INF' re-typed to integer, rows 1 / INF / 3", scenario_b,
     "ids 1 and 3 kept as int, id 2 (Infinity is no integer) handled by the policy"),
]:
    print(name)
    print('   expected:', what, '- never an abort with a non-ValidationError')
    for pname, policy in [('drop', drop), ('ignore', ignore), ('clear', clear),
                          ('custom4', custom4), ('custom5', custom5), ('raise', None)]:
        status, seen = run(scenario, policy)
        bad = status.startswith('ABORT')
        violations += bad
        print('   on_error=%-8s observed: %s; rows emitted: %r%s'
              % (pname, status, [r['id'] for r in seen], '   <-- VIOLATION' if bad else ''))

if violations:
    print('\nVIOLATION: %d runs were aborted by a raw TypeError/InvalidOperation instead of '
          'applying on_error (valid rows after the offending one were lost).' % violations)
    sys.exit(1)
print('OK')
