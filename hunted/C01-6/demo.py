"""C01: 'a link the framework cannot interpret as a step is rejected with an error, never
silently skipped' - does not hold when Python runs with assertions disabled (python -O or
PYTHONOPTIMIZE=1, a common production / container setting).

Flow._chain rejects unsupported links (functools.partial objects, bound methods, callable objects,
None, classes, functions with an unknown signature ...) only through `assert False, ...`.  With -O
the assert statements are compiled away: the link is dropped and the flow runs as if it was not
there - the user's row function is never applied and no error is reported.
"""
import os
import subprocess
import sys

CHILD = r'''
import functools
from dataflows import Flow

class Setter:
    def __call__(self, row):
        row['a'] = 99
    def method(self, row):
        row['a'] = 99

def set_to(value, row):
    row['a'] = value

def wrong_name(r):
    r['a'] = 99

links = [('functools.partial', functools.partial(set_to, 99)),
         ('bound method', Setter().method),
         ('callable object', Setter()),
         ('function(r)', wrong_name),
         ('None', None)]
skipped = 0
for label, link in links:
    try:
        rows = Flow([{'a': 1}], link).results()[0]
        print('%-18s -> no error, rows = %r   (link silently skipped)' % (label, rows))
        skipped += 1
    except BaseException as e:
        print('%-18s -> rejected: %s' % (label, type(e).__name__))
raise SystemExit(1 if skipped else 0)
'''

if __name__ == '__main__':
    env = dict(os.environ)
    env.pop('PYTHONOPTIMIZE', None)
    print('--- python (assertions enabled): expected and observed - every link is rejected')
    rc_plain = subprocess.call([sys.executable, '-c', CHILD], env=env)
    print('--- python -O: expected - every link is still rejected; observed:')
    rc_opt = subprocess.call([sys.executable, '-O', '-c', CHILD], env=env)
    if rc_plain != 0 or rc_opt != 0:
        print('VIOLATION: uninterpretable links are silently skipped')
        sys.exit(1)
    print('ok')
