"""join: the catch-all '*' entry silently replaces an explicit field mapping.

fields = {'a': {'name': 'b'}, '*': {}} says: target field 'a' takes source field 'b',
every source field not mentioned is copied under its own name.  The source also has a
field called 'a'; the wildcard expansion overwrites the explicit entry for target 'a',
so target 'a' receives source 'a' and source 'b' is not mapped anywhere.
"""
import sys
import warnings

from dataflows import Flow, join

warnings.simplefilter('ignore')

source = [{'k': 'x', 'a': 1, 'b': 10}, {'k': 'y', 'a': 2, 'b': 20}]
target = [{'k': 'x'}, {'k': 'y'}]


def run(fields):
    results, _, _ = Flow(
        (dict(r) for r in source),
        (dict(r) for r in target),
        join('res_1', ['k'], 'res_2', ['k'], fields),
    ).results()
    return results[0]


explicit_only = run({'a': {'name': 'b'}})
with_wildcard = run({'a': {'name': 'b'}, '*': {}})

expected_a = [10, 20]   # target 'a' <- source 'b', as the explicit entry says
print('explicit mapping only       :', explicit_only)
print('explicit mapping + wildcard :', with_wildcard)
print('expected values of target field a:', expected_a)
observed_a = [row.get('a') for row in with_wildcard]
print('observed values of target field a:', observed_a)

if [row['a'] for row in explicit_only] != expected_a:
    print('unexpected: explicit mapping alone is broken')
    sys.exit(1)
if observed_a != expected_a:
    print("VIOLATION: adding '*' changed the explicitly mapped field a (it now holds source.a; source.b is lost)")
    sys.exit(1)
print('ok')
