"""C12: sort_rows mis-orders text keys that contain a NUL character (U+0000).

'a' is a proper prefix of 'a\\x00', so lexicographically 'a' < 'a\\x00' < 'a\\x00b' < 'ab'.
sort_rows puts 'a\\x00' (and 'a\\x00b') BEFORE 'a', for every form of the key.
"""
import sys
from dataflows import Flow, sort_rows, validate

VALUES = ['ab', 'a\x00b', 'a', 'a\x00', 'b']          # legal JSON / Table Schema strings ("a\u0000")


def rows():
    for i, v in enumerate(VALUES):
        yield dict(id=i, s=v, t='x')


def run(key, **kw):
    res = Flow(rows(), validate(), sort_rows(key, **kw)).results()[0][0]
    return [r['s'] for r in res]


failed = False
expected = sorted(VALUES)
for label, key in (('format string {s}', '{s}'),
                   ('field list [s]', ['s']),
                   ('field list [s, t]', ['s', 't']),
                   ('callable', lambda r: r['s'])):
    for reverse in (False, True):
        exp = expected[::-1] if reverse else expected
        got = run(key, reverse=reverse)
        ok = got == exp
        failed |= not ok
        print('%-20s reverse=%-5s expected %r\n%s observed %r  %s'
              % (label, reverse, exp, ' ' * 34, got, 'ok' if ok else 'WRONG ORDER'))

if failed:
    print('VIOLATION: text keys containing NUL are not sorted lexicographically')
    sys.exit(1)
print('no violation')
