"""sched-lab: queue / process / thread proxies for dataflows.processors.parallelize, delay injection by
schedule family, one merged event log (threads AND forked worker processes), offline checker.

The harness rebinds parallelize.mp / .queue / .threading BEFORE the flow is built. Under the fork start
method the proxies are inherited by the workers, so events inside work() are observed without touching
the repository. Every queue operation is logged twice (call, ret) with time.monotonic_ns() - one
system-wide clock - through a single O_APPEND write (< PIPE_BUF, atomic).
"""
import json
import multiprocessing as real_mp
import os
import queue as real_queue
import random
import threading as real_threading
import time
import types

from . import boot

# 'upstream_stall' and 'slow_row' (seconds-long pauses in user code) are generated separately by checks/c18.py
FAMILIES = ['none', 'slow_producer', 'slow_workers', 'straggler', 'slow_fetcher', 'slow_consumer',
            'late_worker_start', 'uniform', 'bursty']


class Lab:
    def __init__(self, logpath, family, seed):
        self.fd = os.open(logpath, os.O_WRONLY | os.O_CREAT | os.O_APPEND, 0o644)
        self.family, self.seed = family, seed
        self.local = real_threading.local()
        self.group = 0            # fork() call index (one per parallelised resource)
        self.made = 0             # mp.Queue() calls in the current group
        self.nworkers = 0
        self.main_tid = real_threading.get_ident()
        self.main_pid = os.getpid()

    # ---- roles -----------------------------------------------------------------------------------
    def role(self):
        r = getattr(self.local, 'role', None)
        if r is None:
            r = 'consumer' if (os.getpid() == self.main_pid) else 'worker?'
        return r

    def rng(self):
        g = getattr(self.local, 'rng', None)
        if g is None or getattr(self.local, 'rng_pid', None) != os.getpid():
            g = random.Random('%s:%s:%s' % (self.seed, self.role(), self.family))
            self.local.rng, self.local.rng_pid = g, os.getpid()
        return g

    def log(self, op, q, item=None, phase=None):
        rec = {'t': time.monotonic_ns(), 'pid': os.getpid(), 'role': self.role(), 'op': op, 'q': q}
        if item is not None:
            rec['item'] = item
        if phase:
            rec['ph'] = phase
        os.write(self.fd, (json.dumps(rec) + '\n').encode())

    # ---- delays ----------------------------------------------------------------------------------
    def delay(self, op, q):
        fam, role, g = self.family, self.role(), self.rng()
        d = 0.0
        if fam == 'slow_producer' and role == 'producer':
            d = 0.0008
        elif fam == 'slow_workers' and role.startswith('worker'):
            d = 0.0008
        elif fam == 'straggler' and role == 'worker-0':
            d = 0.004
        elif fam == 'slow_fetcher' and role == 'fetcher':
            d = 0.0008
        elif fam == 'slow_consumer' and role == 'consumer':
            d = 0.0008
        elif fam == 'uniform':
            d = g.random() * 0.0015
        elif fam == 'bursty':
            d = 0.006 if g.random() < 0.08 else 0.0
        if d:
            time.sleep(d)


def item_id(x):
    if x is None:
        return 'END'
    if isinstance(x, dict):
        return x.get('id')
    return repr(x)[:20]


class QueueProxy:
    def __init__(self, real, name, lab):
        self._q, self._name, self._lab = real, name, lab

    def put(self, item, *a, **kw):
        lab = self._lab
        lab.delay('put', self._name)
        lab.log('put', self._name, item_id(item), 'call')
        r = self._q.put(item, *a, **kw)
        lab.log('put', self._name, item_id(item), 'ret')
        return r

    def get(self, *a, **kw):
        lab = self._lab
        lab.delay('get', self._name)
        lab.log('get', self._name, None, 'call')
        item = self._q.get(*a, **kw)
        lab.log('get', self._name, item_id(item), 'ret')
        return item

    def __getattr__(self, name):
        return getattr(self._q, name)


def install(lab):
    """Rebind parallelize's mp / queue / threading to shims. Returns the module."""
    par = boot.module('dataflows.processors.parallelize')
    assert isinstance(par, types.ModuleType)

    class MpShim:
        def __getattr__(self, name):
            return getattr(real_mp, name)

        def Queue(self, *a, **kw):
            # creation order inside one fork(): q_in first, then (in init_mp) q_out
            lab.made += 1
            if lab.made % 2 == 1:
                lab.group += 1
                lab.nworkers = 0
                name = 'q_in#%d' % lab.group
            else:
                name = 'q_out#%d' % lab.group
            return QueueProxy(real_mp.Queue(*a, **kw), name, lab)

        def Process(self, target=None, args=(), **kw):
            idx = lab.nworkers
            lab.nworkers += 1
            grp = lab.group

            def run(*a):
                lab.local.role = 'worker-%d' % idx
                if lab.family == 'late_worker_start':
                    time.sleep(0.01 * (idx + 1))
                lab.log('start', 'proc#%d' % grp)
                try:
                    return target(*a)
                finally:
                    lab.log('exit', 'proc#%d' % grp)
            p = real_mp.Process(target=run, args=args, **kw)
            return p

    class QueueShim:
        def __getattr__(self, name):
            return getattr(real_queue, name)

        def Queue(self, *a, **kw):
            return QueueProxy(real_queue.Queue(*a, **kw), 'q_internal#%d' % lab.group, lab)

    class ThreadingShim:
        def __getattr__(self, name):
            return getattr(real_threading, name)

        def Thread(self, target=None, args=(), **kw):
            name = getattr(target, '__name__', 'thread')
            if type(getattr(target, '__self__', None)).__name__ == 'Context' and args:
                # contextvars.Context.run(func, ...): the actor is func
                name = getattr(args[0], '__name__', name)

            def run(*a):
                lab.local.role = name
                lab.log('start', 'thread')
                try:
                    return target(*a)
                finally:
                    lab.log('exit', 'thread')
            return real_threading.Thread(target=run, args=args, **kw)
    par.mp = MpShim()
    par.queue = QueueShim()
    par.threading = ThreadingShim()
    return par


def read_log(path):
    ev = []
    with open(path) as f:
        for line in f:
            try:
                ev.append(json.loads(line))
            except Exception:
                pass
    ev.sort(key=lambda e: e['t'])
    return ev


def check_log(ev, nworkers, selected_ids, bypass_ids):
    """Offline checker over the merged event log -> list of (kind, message)."""
    out = []
    groups = sorted({e['q'].split('#')[1] for e in ev if '#' in e['q'] and e['q'].startswith('q_')})
    for g in groups:
        def sel(q, op, ph='ret'):
            return [e for e in ev if e['q'] == '%s#%s' % (q, g) and e['op'] == op and e.get('ph') == ph]
        for q in ('q_in', 'q_out', 'q_internal'):
            puts = [e for e in sel(q, 'put') if e.get('item') != 'END']
            gets = [e for e in sel(q, 'get') if e.get('item') != 'END']
            if sorted(str(e['item']) for e in puts) != sorted(str(e['item']) for e in gets):
                out.append(('queue_conservation', '%s#%s: %d row puts, %d row gets' % (q, g, len(puts), len(gets))))
        in_end = [e for e in sel('q_in', 'put') if e.get('item') == 'END']
        if len(in_end) != nworkers:
            out.append(('end_markers', 'q_in#%s carries %d end markers for %d workers' % (g, len(in_end), nworkers)))
        in_rows = [e for e in sel('q_in', 'put', 'call') if e.get('item') != 'END']
        if in_end and in_rows and max(e['t'] for e in in_rows) > min(e['t'] for e in sel('q_in', 'put', 'call')
                                                                    if e.get('item') == 'END'):
            out.append(('end_marker_order', 'q_in#%s: a row was put after an end marker' % g))
        out_end = [e for e in sel('q_out', 'put') if e.get('item') == 'END']
        if len(out_end) != nworkers:
            out.append(('end_markers', 'q_out#%s carries %d end markers for %d workers' % (g, len(out_end), nworkers)))
        for e in out_end:     # each worker's marker after all of its rows
            mine = [x for x in sel('q_out', 'put', 'call') if x['pid'] == e['pid'] and x.get('item') != 'END']
            if mine and max(x['t'] for x in mine) > e['t']:
                out.append(('end_marker_order', 'q_out#%s: worker %s put a row after its end marker' % (g, e['role'])))
        int_end_call = [e for e in sel('q_internal', 'put', 'call') if e.get('item') == 'END']
        int_end_ret = [e for e in sel('q_internal', 'put', 'ret') if e.get('item') == 'END']
        if len(int_end_ret) != 1:
            out.append(('end_markers', 'q_internal#%s carries %d end markers' % (g, len(int_end_ret))))
        elif any(e['t'] > int_end_ret[0]['t'] for e in sel('q_internal', 'put', 'call') if e.get('item') != 'END'):
            out.append(('end_marker_order', 'q_internal#%s: a row was put after the end marker had been put' % g))
    # apply events: exactly one per selected row, none for bypassed rows
    applies = {}
    for e in ev:
        if e['op'] == 'apply':
            applies[e['item']] = applies.get(e['item'], 0) + 1
    for i in selected_ids:
        if applies.get(i, 0) != 1:
            out.append(('apply_count', 'row %r: row function applied %d times' % (i, applies.get(i, 0))))
            break
    for i in bypass_ids:
        if applies.get(i, 0):
            out.append(('apply_count', 'unselected row %r: row function applied' % (i,)))
            break
    in_ids = {e['item'] for e in ev if e['q'].split('#')[0] == 'q_in' and e['op'] == 'put'
              and e.get('item') != 'END'}
    if in_ids & set(bypass_ids):
        out.append(('bypass_routed_to_workers', 'unselected rows were sent to the workers: %r'
                    % sorted(in_ids & set(bypass_ids))[:5]))
    # process / thread lifecycle
    starts = [e for e in ev if e['op'] == 'start']
    exits = [e for e in ev if e['op'] == 'exit']
    if len(starts) != len(exits):
        out.append(('lifecycle', '%d actors started, %d exited' % (len(starts), len(exits))))
    return out


def signature(ev):
    import hashlib
    seq = [(e['role'], e['op'], e['q'].split('#')[0]) for e in ev if e.get('ph') in ('ret', None)]
    return hashlib.sha1(json.dumps(seq).encode()).hexdigest()[:12], len(seq)


def blocked_actors(ev):
    """Actors whose last event is the call of a get without a return (blocked consumers of a queue)."""
    last = {}
    for e in ev:
        last[(e['pid'], e['role'])] = e
    alive = {k: e for k, e in last.items() if e['op'] != 'exit'}
    blocked = {k: e for k, e in alive.items() if e['op'] == 'get' and e.get('ph') == 'call'}
    return alive, blocked
