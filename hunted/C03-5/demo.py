"""C03: a CSV-format package that contains one cell longer than 131072 characters (a long text,
or an array/object cell whose JSON text is that long) is written fine by dump_to_path/dump_to_zip
but load() of it raises "field larger than field limit (131072)".  The same table in JSON format,
and a cell of 131072 characters in CSV format, round-trip.
"""
import logging
import os
import shutil
import sys
import tempfile

from dataflows import Flow, dump_to_path, dump_to_zip, load, set_type, update_resource

logging.disable(logging.CRITICAL)
workdir = tempfile.mkdtemp(prefix='c03-bigcell-')


def roundtrip(rows, fmt, kind, tag):
    out = os.path.join(workdir, 'out_%s_%s_%s' % (fmt, kind, tag))
    if kind == 'path':
        dumper, src, kw = dump_to_path(out, format=fmt), os.path.join(out, 'datapackage.json'), {}
    else:
        dumper, src, kw = dump_to_zip(out + '.zip', format=fmt), out + '.zip', dict(format='datapackage')
    entered = Flow(
        [dict(r) for r in rows],
        update_resource(-1, name='docs', path='docs.csv'),
        set_type('id', type='integer'), set_type('text', type='string'), set_type('codes', type='array'),
        dumper,
    ).results()[0][0]
    loaded = Flow(load(src, strip=False, **kw)).results()[0][0]
    return entered == loaded


def describe(rows):
    return ', '.join('row %d: len(text)=%d, len(codes)=%d' % (r['id'], len(r['text']), len(r['codes'])) for r in rows)


CASES = [
    ('text of 131072 chars', [dict(id=1, text='short', codes=[1]), dict(id=2, text='x' * 131072, codes=[2])]),
    ('text of 131073 chars', [dict(id=1, text='short', codes=[1]), dict(id=2, text='x' * 131073, codes=[2])]),
    ('array of 30000 ints', [dict(id=1, text='short', codes=[1]), dict(id=2, text='t', codes=list(range(30000)))]),
]

failed = False
try:
    for label, rows in CASES:
        for fmt in ('json', 'csv'):
            for kind in ('path', 'zip'):
                try:
                    ok = roundtrip(rows, fmt, kind, label.split()[2])
                    observed = 'loads back equal' if ok else 'loads back DIFFERENT'
                    if not ok:
                        failed = True
                except Exception as e:
                    failed = True
                    observed = 'load() raises %s: %s' % (type(e).__name__, str(e).strip().splitlines()[-1])
                print('%-22s format=%-4s %-4s expected: loads back equal | observed: %s' % (label, fmt, kind, observed))
finally:
    shutil.rmtree(workdir, ignore_errors=True)

if failed:
    print('VIOLATION: a valid CSV package written by the dumper cannot be read back by load()')
    sys.exit(1)
print('no violation observed')
sys.exit(0)
