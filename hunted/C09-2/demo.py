"""C09: dumping a package that was loaded from a previously dumped datapackage ADDS the new
byte/row counters to the ones already present in the resource descriptors.

Flow(load('first/datapackage.json'), dump_to_path('second')) is the canonical way to continue
working on a dumped package.  The data is unchanged, the file written to 'second' is identical to
the one in 'first', but the second descriptor records twice the bytes and twice the rows for each
resource (three times after another round, ...), and the package totals are no longer the sums
over the resources.
"""
import csv
import hashlib
import json
import os
import shutil
import sys
import tempfile

from dataflows import Flow, dump_to_path, load

rows = [dict(id=i, name='héllo ☃ %d' % i) for i in range(7)]
failures = []


def inspect(out):
    with open(os.path.join(out, 'datapackage.json'), encoding='utf-8') as f:
        dp = json.load(f)
    total_bytes = total_rows = 0
    for res in dp['resources']:
        path = os.path.join(out, res['path'])
        with open(path, 'rb') as f:
            data = f.read()
        with open(path, encoding='utf-8', newline='') as f:
            nrows = len(list(csv.reader(f))) - 1
        total_bytes += len(data)
        total_rows += nrows
        print('  %s/%s' % (os.path.basename(out), res['path']))
        print('    bytes: recorded %r, actual file size %d' % (res.get('bytes'), len(data)))
        print('    rows : recorded %r, actual data rows %d' % (res.get('count_of_rows'), nrows))
        print('    hash : recorded %s, actual %s' % (res.get('hash'), hashlib.md5(data).hexdigest()))
        if res.get('bytes') != len(data):
            failures.append('%s: resource %s bytes %r != file size %d'
                            % (out, res['name'], res.get('bytes'), len(data)))
        if res.get('count_of_rows') != nrows:
            failures.append('%s: resource %s count_of_rows %r != data rows %d'
                            % (out, res['name'], res.get('count_of_rows'), nrows))
        if res.get('hash') != hashlib.md5(data).hexdigest():
            failures.append('%s: resource %s hash mismatch' % (out, res['name']))
    sum_res_bytes = sum(r.get('bytes', 0) for r in dp['resources'])
    sum_res_rows = sum(r.get('count_of_rows', 0) for r in dp['resources'])
    print('    package: bytes %r (sum of recorded resource bytes %d), count_of_rows %r (sum of recorded %d)'
          % (dp.get('bytes'), sum_res_bytes, dp.get('count_of_rows'), sum_res_rows))
    if dp.get('bytes') != sum_res_bytes or dp.get('count_of_rows') != sum_res_rows:
        failures.append('%s: package totals (%r bytes, %r rows) are not the sums over the resources (%d, %d)'
                        % (out, dp.get('bytes'), dp.get('count_of_rows'), sum_res_bytes, sum_res_rows))


workdir = tempfile.mkdtemp(prefix='c09-redump-')
try:
    first = os.path.join(workdir, 'first')
    second = os.path.join(workdir, 'second')
    Flow(rows, [dict(x=1.5)], dump_to_path(first)).process()
    print('first dump (from python rows):')
    inspect(first)
    Flow(load(os.path.join(first, 'datapackage.json')), dump_to_path(second)).process()
    print('second dump (load(first/datapackage.json) -> dump_to_path):')
    inspect(second)
finally:
    shutil.rmtree(workdir, ignore_errors=True)

if failures:
    print('VIOLATION:')
    for f in failures:
        print('  -', f)
    sys.exit(1)
print('OK')
