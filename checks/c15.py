"""C15 Field-level processors change schema and rows in lockstep.

Oracle: independent reference models (vlib/refmodel.py) of select_fields, delete_fields,
rename_fields, add_field, add_computed_field, find_replace with re.fullmatch pattern semantics and
the documented order rules, evaluated on the same generated table; raw emitted rows are compared
type-strictly, the emitted field list by name (order) and untouched descriptor properties.
"""
import copy
import decimal
import re

from vlib import boot, gen, lab, refmodel

PROPERTY = 'C15'
LEVEL = 'exploration'
RULE = ('seeded generation per processor family: 1..3 resources x 2..6 fields named from the '
        'regex-metacharacter/prefix pools x 0..50 rows with nulls x pattern classes (literal, escaped, '
        'wildcard, alternation, char class, back-reference, regex off) x every computed operation; '
        'distinct = case descriptor hash; non-trivial = the step changes >=1 field and leaves >=1 field '
        'untouched in a selected resource with >=1 row')
ASSUMPTIONS = [
    'avg/min/max/multiply over zero non-null values give null (sum gives 0, join the empty string)',
    'rename configurations that produce a name clash are ill-formed: any outcome accepted',
    'find_replace on integer fields is compared after casting the emitted text back to the declared type',
    'the type chosen for a computed field given by name only is judged by C02, not here',
]
REQUIRED_COUNTERS = ['rows_compared', 'schemas_compared']
FAMILIES = ['select_fields', 'delete_fields', 'rename_fields', 'add_field', 'add_computed_field',
            'find_replace']
D = decimal.Decimal


def gen_cases(tier, seed):
    # the processors of this property once more with assertions disabled (python -O) against a normal interpreter
    yield {'family': 'optimized_differential', 'idx': 9 * 10 ** 6, 'seed': seed, 'spill': False, 'big': False, 'proc': 'optimized_differential', 'names': ['a'], 'selector': None}
    n = {'quick': 260, 'thorough': 6000}[tier]
    for fam in FAMILIES:
        for i in range(n):
            yield {'family': fam, 'idx': i, 'seed': seed}


def lit(name):
    return re.escape(name)


def make_tables(rng, numeric=False, plain=False):
    nres = rng.choice([1, 1, 2, 3])
    nf = rng.randint(2, 6)
    pool = gen.FIELD_NAMES_PLAIN if plain else gen.FIELD_NAMES_META
    names = rng.sample(pool, min(nf, len(pool)))
    if numeric:
        typ = rng.choice(['integer', 'number', 'integer', 'number', 'duration', 'bigint'])
        fields = [(n, 'integer' if typ == 'bigint' else typ) for n in names]
    else:
        fields = [(n, rng.choice(['string', 'integer', 'number', 'string'])) for n in names]
    res_names = rng.sample(['r1', 'r2', 'r3', 'x'], nres)
    tables = {}
    for rn in res_names:
        nrows = rng.choice([0, 1, 2, 3, 7, 20, 50])
        classes = {'string': ['plain', 'empty', 'unicode', 'numeric_looking', 'prefix_chain', 'none_like',
                              'quote', 'delim'],
                   'integer': ['small', 'negative'], 'number': ['decimal', 'exp', 'same_value_other_scale']}
        tables[rn] = gen.table(rng, [(n, 'integer' if t == 'duration' else t) for n, t in fields], nrows,
                               classes=classes, null_p=0.2)
        if numeric and typ == 'duration':
            import datetime
            for row in tables[rn]:
                for n, _ in fields:
                    if row[n] is not None:
                        row[n] = datetime.timedelta(hours=abs(row[n]) % 50, seconds=abs(row[n]) % 7)
        if numeric and typ == 'bigint':
            # integers beyond 2**53: sums and averages are exact
            for row in tables[rn]:
                for n, _ in fields:
                    if row[n] is not None:
                        row[n] = 2 ** 53 + 1 + row[n] * 2
    return res_names, fields, tables


def pattern_for(rng, names, cov):
    """-> (pattern, regex_flag, class)"""
    n = rng.choice(names)
    c = rng.choice(['lit', 'noregex', 'dotstar', 'alt', 'alt_raw', 'class', 'nomatch', 'prefix_opt', 'inline_flag'])
    cov['pattern/' + c] = cov.get('pattern/' + c, 0) + 1
    if c == 'lit':
        return lit(n), True, c
    if c == 'noregex':
        return n, False, c
    if c == 'dotstar':
        return lit(n[0]) + '.*', True, c
    if c == 'alt':
        m = rng.choice(names)
        return lit(n) + '|' + lit(m), True, c
    if c == 'alt_raw':
        return 'a|b', True, c
    if c == 'class':
        return '[a-c]+', True, c
    if c == 'prefix_opt':
        return 'ab?c?', True, c
    if c == 'inline_flag':
        # a global inline flag has to stay at the very start of the compiled pattern
        return '(?i)' + lit(n).upper(), True, c
    return 'zzz', True, c


def plus7(row):
    return 7 if row is not None else None


def run_case(case):
    if case['family'] == 'optimized_differential':
        from vlib import optlab
        return optlab.as_case_result(['select_fields', 'delete_fields', 'rename_fields', 'add_field', 'add_computed_field', 'find_replace', 'set_type'], {'schemas_compared': 0, 'rows_compared': 0})
    fam = case['family']
    rng = boot.rng(case['seed'], 'C15', fam, case['idx'])
    d = lab.df()
    cov, counters, viol = {}, {'rows_compared': 0, 'schemas_compared': 0}, []
    covc = cov.setdefault('config', {})
    numeric = fam == 'add_computed_field' and rng.random() < 0.7
    plain = fam in ('add_computed_field', 'add_field') and rng.random() < 0.6
    res_names, fields, tables = make_tables(rng, numeric=numeric, plain=plain)
    names = [n for n, _ in fields]
    sfields = gen.schema_fields(fields)
    selector = rng.choice([None, None, res_names[0], [res_names[-1]], list(res_names)])
    selected = refmodel.sel(selector, res_names)
    regex = True
    ref = None          # callable(fields, rows, legacy/null flag) -> (fields, rows)
    alt_ref = None      # same under a named defect mechanism: (mech, callable)
    desc_cfg = None
    if fam in ('select_fields', 'delete_fields'):
        k = rng.randint(1, 3)
        pats, flags = [], []
        for _ in range(k):
            p, rf, c = pattern_for(rng, names, covc)
            pats.append(p)
            flags.append(rf)
        regex = all(flags)
        if not regex:
            pats = [p if not f else rng.choice(names) for p, f in zip(pats, flags)]
        fn = getattr(refmodel, fam)
        step = getattr(d, fam)(list(pats), resources=copy.deepcopy(selector), regex=regex)
        ref = lambda F, R: fn(F, R, pats, regex)                       # noqa: E731
        alt_ref = ('alternation_anchor', lambda F, R: fn(F, R, pats, regex, legacy=True))
        desc_cfg = {'patterns': pats, 'regex': regex}
    elif fam == 'rename_fields':
        mapping = []
        kind = rng.choice(['lit', 'noregex', 'backref', 'alt', 'two', 'swap', 'noregex_backslash', 'alt_prefix_first',
                           'lazy_then_optional'])
        n0 = rng.choice(names)
        if kind in ('alt_prefix_first', 'lazy_then_optional') and len(n0) < 2:
            kind = 'lit'
        covc['rename/' + kind] = 1
        if kind == 'lit':
            mapping = [(lit(n0), 'NEW')]
        elif kind == 'noregex':
            mapping, regex = [(n0, 'NEW')], False
        elif kind == 'noregex_backslash':
            # literal mode: the new name is a name, not a replacement template
            mapping, regex = [(n0, rng.choice(['price\\net', 'q\\\\z', 'a\\1', 'c:\\data\\w', 'x\\g<0>']))], False
        elif kind == 'backref':
            mapping = [('(' + lit(n0[0]) + ')(.*)', r'\2_\1')]
        elif kind == 'alt_prefix_first':
            # the new name is the template expanded for the match of the WHOLE name, also when an earlier alternative
            # matches a prefix of it
            mapping = [(lit(n0[:rng.randint(1, len(n0) - 1)]) + '|' + lit(n0), rng.choice(['NEW', r'N_\g<0>']))]
        elif kind == 'lazy_then_optional':
            mapping = [('(' + lit(n0[0]) + '.*?)(' + lit(n0[-1]) + ')?', r'\1')]
        elif kind == 'alt':
            mapping = [(lit(n0) + '|' + lit(rng.choice(names)) + 'Q', 'NEW')]
        elif kind == 'two':
            m = rng.choice(names)
            mapping = [(lit(n0), 'N1'), (lit(m) + '|zz', 'N2')]
        else:
            m = rng.choice(names)
            mapping, regex = [(n0, m), (m, n0)], False
            if m == n0:
                mapping = [(n0, 'NEW')]
        step = d.rename_fields(dict(mapping), resources=copy.deepcopy(selector), regex=regex)
        ref = lambda F, R: refmodel.rename_fields(F, R, mapping, regex)   # noqa: E731
        alt_ref = ('alternation_anchor',
                   lambda F, R: refmodel.rename_fields(F, R, mapping, regex, legacy=True))
        desc_cfg = {'mapping': mapping, 'regex': regex}
    elif fam == 'add_field':
        kind = rng.choice(['const', 'none', 'callable', 'options', 'mutable_list', 'mutable_dict'])
        covc['add_field/' + kind] = 1
        default = {'const': 5, 'none': None, 'callable': plus7, 'options': 'k', 'mutable_list': [],
                   'mutable_dict': {'k': [1]}}[kind]
        typ = {'const': 'integer', 'none': 'string', 'callable': 'integer', 'options': 'string',
               'mutable_list': 'array', 'mutable_dict': 'object'}[kind]
        opts = {'title': 'T', 'constraints': {'required': False}} if kind == 'options' else {}
        step = d.add_field('NEWF', typ, default, resources=copy.deepcopy(selector), **opts)
        spec = [{'target': dict({'name': 'NEWF', 'type': typ}, **opts),
                 'operation': default if callable(default) else 'constant', 'with': default}]
        ref = lambda F, R: refmodel.add_computed(F, R, spec)   # noqa: E731
        desc_cfg = {'default': repr(default), 'type': typ, 'options': opts}
    elif fam == 'add_computed_field':
        specs = []
        for j in range(rng.randint(1, 3)):
            op = rng.choice(['constant', 'sum', 'avg', 'min', 'max', 'multiply', 'join', 'format',
                             'callable'])
            if op == 'multiply' and numeric and fields[0][1] == 'duration':
                op = 'sum'          # a product of durations is not defined
            covc['op/' + op] = covc.get('op/' + op, 0) + 1
            src = rng.sample(names, rng.randint(1, min(3, len(names))))
            if op in ('sum', 'avg', 'min', 'max', 'multiply') and not numeric:
                typs = dict(fields)
                src = [n for n in names if typs[n] == typs[src[0]] and typs[n] != 'string'][:3]
                if not src:
                    op = 'join'
                    src = names[:2]
            s = {'target': 'T%d' % j if rng.random() < 0.5 else {'name': 'T%d' % j, 'type': 'any'},
                 'operation': op, 'source': src}
            if op == 'constant':
                s['with'] = rng.choice(['c', 5, None])
            elif op == 'join':
                s['with'] = rng.choice([',', '', ' - '])
            elif op == 'format':
                ids = [n for n in names if n.isidentifier()]
                if not ids:
                    s['operation'], s['with'] = 'constant', 'c'
                else:
                    s['with'] = '<' + '|'.join('{%s}' % n for n in ids[:2]) + '>'
            elif op == 'callable':
                s['operation'] = plus7
                s.pop('source', None)      # a source list would only mis-type a name-only target
            if s['operation'] == 'constant':
                s.pop('source', None)
            specs.append(s)
        if boot.rng(case['seed'], 'C15', 'chain', case['idx']).random() < 0.4:
            # a later specification that uses an earlier one's target as a source - also a callable's: the
            # specifications apply in the given order
            j0 = rng.randrange(len(specs))
            first_kind = 'callable' if callable(specs[j0]['operation']) else specs[j0]['operation']
            tname = specs[j0]['target'] if isinstance(specs[j0]['target'], str) else specs[j0]['target']['name']
            specs.append({'target': 'TJ', 'operation': 'join', 'source': [tname, names[0]], 'with': '/'})
            covc['chained_on/' + first_kind] = covc.get('chained_on/' + first_kind, 0) + 1
        real_specs = []
        for s in specs:
            rs = {k: copy.deepcopy(v) if not callable(v) else v for k, v in s.items() if k != 'with'}
            if 'with' in s:
                rs[rng.choice(['with', 'with_'])] = s['with']
            real_specs.append(rs)
        if len(real_specs) == 1 and rng.random() < 0.4:
            step = d.add_computed_field(resources=copy.deepcopy(selector), **real_specs[0])
        else:
            step = d.add_computed_field(real_specs, resources=copy.deepcopy(selector))
        ref = lambda F, R: refmodel.add_computed(F, R, specs)   # noqa: E731
        desc_cfg = {'specs': [{k: (v if not callable(v) else 'callable') for k, v in s.items()}
                              for s in specs]}
    elif fam == 'find_replace':
        targets = rng.sample(names, rng.randint(1, min(2, len(names))))
        pool = [('a', 'X'), ('[0-9]+', '#'), ('^', '>'), ('(.)\\1', r'\1'), ('l+', 'L'), ('e', ''),
                ('.', '.'), ('N', 'n'),
                ('a', r'[\g<0>]'), ('e', r'\\'), ('l', r'\t'), ('N', r'\g<0>\g<0>')]
        specs = [{'name': t, 'patterns': [dict(zip(('find', 'replace'), rng.choice(pool)))
                                          for _ in range(rng.randint(1, 3))]} for t in targets]
        if rng.random() < 0.3:
            # the same field named by a second item: the items apply one after the other
            specs.append({'name': specs[0]['name'], 'patterns': [dict(zip(('find', 'replace'), rng.choice(pool)))]})
            covc['find_replace/field_named_twice'] = 1
        step = d.find_replace(copy.deepcopy(specs), resources=copy.deepcopy(selector))
        ref = lambda F, R: refmodel.find_replace(F, R, specs)   # noqa: E731
        alt_ref = ('find_replace_null_as_text',
                   lambda F, R: refmodel.find_replace(F, R, specs, null_as_text=True))
        desc_cfg = {'specs': specs}
    else:
        raise KeyError(fam)

    per_res_fields = {rn: sfields for rn in res_names}
    if fam == 'add_computed_field' and numeric and len(res_names) > 1 and rng.random() < 0.5 \
            and fields[0][1] != 'duration':
        # the same-named source fields are integer in one resource and number in another: a computed field given
        # by name only must be typed per resource
        other = 'number' if fields[0][1] == 'integer' else 'integer'
        rn2 = res_names[-1]
        per_res_fields = dict(per_res_fields)
        per_res_fields[rn2] = [dict(f, type=other) for f in sfields]
        for r in tables[rn2]:
            for n_ in names:
                if r[n_] is not None:
                    r[n_] = D(r[n_]) + D('0.5') if other == 'number' else int(r[n_])
        covc['mixed_types_across_resources'] = 1
    rng_o = boot.rng(case['seed'], 'C15', 'order', case['idx'])
    if len(res_names) > 1 and fam in ('delete_fields', 'select_fields', 'rename_fields') and rng_o.random() < 0.4:
        # the resources do not have the same fields: one of them (the first or the last) has one more
        rn2 = res_names[rng_o.choice([0, -1])]
        per_res_fields = dict(per_res_fields)
        per_res_fields[rn2] = list(per_res_fields[rn2]) + [{'name': 'only_here', 'type': 'string', 'format': 'default'}]
        for i_, r_ in enumerate(tables[rn2]):
            r_['only_here'] = 'oh%d' % i_
        covc['resources_with_different_fields'] = 1
    if rng_o.random() < 0.3:
        # rows of one resource laid out differently (as behind a full-outer join or a step that re-builds rows): a row is a
        # mapping, the order of its keys carries nothing
        for rn in res_names:
            for i_, r_ in enumerate(tables[rn]):
                if i_ % 2:
                    items_ = list(r_.items())
                    rng_o.shuffle(items_)
                    tables[rn][i_] = dict(items_)
        covc['rows_with_differing_key_order'] = 1
    srcs = [lab.source(rn, per_res_fields[rn], tables[rn]) for rn in res_names]
    tail = []
    if len(res_names) > 1 and rng_o.random() < 0.3:
        # a later step that takes hold of ALL resource streams before it reads any of them (to walk them side by side)
        def side_by_side(package):
            yield package.pkg
            streams = list(package)
            for st_ in streams:
                yield st_
        tail = [side_by_side]
        covc['later_step_holds_all_streams_before_reading'] = 1
    got = lab.run(srcs + [step] + tail)
    sample = {'resources': res_names, 'fields': fields, 'selector': selector, 'config': desc_cfg,
              'rows': {rn: gen.render(tables[rn][:3], 300) for rn in res_names}}
    typs = dict(fields)

    def norm(rows, flds):
        """find_replace leaves text in non-string fields: compare after the declared cast."""
        if fam != 'find_replace':
            return rows
        out = []
        for r in rows:
            r = dict(r)
            for s in desc_cfg['specs']:
                n = s['name']
                if typs[n] != 'string' and r.get(n) is not None:
                    # whether the cell is left as the value or as its text: the TEXT is what is compared ('2.50' is not
                    # '2.5': the replacement works on the text of the cell at hand)
                    r[n] = str(r[n])
            out.append(r)
        return out

    def compare(which):
        """-> list of difference strings between observed and reference `which`."""
        diffs = []
        gg = got.by_name()
        for rn in res_names:
            F, R = per_res_fields[rn], tables[rn]
            if rn in selected:
                F, R = which(copy.deepcopy(per_res_fields[rn]), copy.deepcopy(tables[rn]))
            gdesc, grows = gg[rn]
            gF = gdesc['schema']['fields']
            counters['schemas_compared'] += 1
            if [f['name'] for f in gF] != [f['name'] for f in F]:
                diffs.append('%s: field list %r expected %r' % (rn, [f['name'] for f in gF],
                                                               [f['name'] for f in F]))
                continue
            for gf, ef in zip(gF, F):
                for k, v in ef.items():
                    if k == 'type' and v == 'any':
                        continue
                    if gf.get(k) != v:
                        diffs.append('%s: field %r property %s=%r expected %r'
                                     % (rn, ef['name'], k, gf.get(k), v))
            counters['rows_compared'] += len(R)
            diffs += ['%s: %s' % (rn, x) for x in lab.rows_diff(norm(R, F), norm(grows, F))]
            if fam == 'add_computed_field' and rn in selected:
                # a target given by name only gets its type from the library: it must accept the emitted values
                import tableschema
                for gf in gF[len(sfields):]:
                    fo = tableschema.Field(gf)
                    for r_ in grows:
                        v_ = r_.get(gf['name'])
                        if v_ is None:
                            continue
                        try:
                            fo.cast_value(v_)
                        except Exception:
                            diffs.append('%s: computed field %r declared %s holds %r' % (rn, gf['name'], gf.get('type'), v_))
                            break
            # two rows must never hold the SAME mutable object (an in-place edit on one row would change the other)
            seen_ids = {}

            def containers(v_):
                # the value and every list / dict nested in it
                if isinstance(v_, (list, dict)):
                    yield v_
                    for x_ in (v_.values() if isinstance(v_, dict) else v_):
                        yield from containers(x_)
            for ri_, r_ in enumerate(grows):
                for k_, v_ in r_.items():
                    hit_ = next((c_ for c_ in containers(v_) if seen_ids.get(id(c_), ri_) != ri_), None)
                    if hit_ is not None:
                        diffs.append('%s: rows share one %s object in field %r%s' % (
                            rn, type(hit_).__name__, k_, '' if hit_ is v_ else ' (nested inside the cell value)'))
                        break
                    for c_ in containers(v_):
                        seen_ids[id(c_)] = ri_
                else:
                    continue
                break
            fn = set(f['name'] for f in F)
            bad = [r for r in grows if set(r) != fn]
            if bad and len(R) == len(grows):
                diffs.append('%s: row keys %r != field names %r' % (rn, sorted(bad[0]), sorted(fn)))
        return diffs

    try:
        # evaluate the reference first: it tells whether an error / anything is expected
        for rn in selected:
            ref(copy.deepcopy(sfields), copy.deepcopy(tables[rn]))
        expect = 'ok'
    except refmodel.Expected:
        expect = 'error'
    except refmodel.Undefined:
        return dict(nontrivial=False, violations=[], cov=cov, counters=counters)
    except ZeroDivisionError:
        return dict(nontrivial=False, violations=[], cov=cov, counters=counters)

    def add(kind, msg):
        mech = None
        if alt_ref is not None and got.ok:
            try:
                if not compare(alt_ref[1]):
                    mech = alt_ref[0]
            except Exception:
                pass
        viol.append({'kind': kind, 'mech': mech or fam, 'proc': fam, 'msg': msg, 'config': desc_cfg})

    if expect == 'error':
        if got.ok:
            add('missing_error', '%s %r: expected an error (nothing selected), run succeeded' % (fam, desc_cfg))
        return dict(nontrivial=False, violations=viol, cov=cov, counters=counters)
    if not got.ok:
        add('unexpected_error', '%s %r on fields %r: %s' % (fam, desc_cfg, fields, got.errstr()))
        return dict(nontrivial=False, violations=viol, cov=cov, counters=counters)
    diffs = compare(ref)
    if diffs:
        add('mismatch', '%s %r on fields %r selector %r: %s' % (fam, desc_cfg, fields, selector,
                                                              '; '.join(diffs)[:700]))
    # non-trivial: step changes >=1 field and leaves >=1 untouched in a selected resource with rows
    nontrivial = False
    for rn in selected:
        if not tables[rn]:
            continue
        F2, R2 = ref(copy.deepcopy(sfields), copy.deepcopy(tables[rn]))
        before = {f['name'] for f in sfields}
        after = {f['name'] for f in F2}
        changed = before != after or [f['name'] for f in F2] != names or \
            any(not lab.strict_eq(a, b) for a, b in zip(tables[rn], R2))
        untouched = before & after
        if changed and untouched:
            nontrivial = True
    cov.setdefault('family', {})[fam] = 1
    return dict(nontrivial=nontrivial, violations=viol, cov=cov, counters=counters, sample=sample)
