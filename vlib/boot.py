"""Import the working tree under test, seeds, scratch directories, per-case watchdog."""
import contextlib
import hashlib
import io
import json
import logging
import os
import random
import shutil
import signal
import subprocess
import sys
import tempfile
import types
import warnings

VERIF = os.path.dirname(os.path.dirname(os.path.abspath(__file__)))
REPO = os.path.abspath(os.environ.get('VERIF_REPO', '/repo'))
PY = sys.executable


def import_tree():
    """Import dataflows from the tree under test and return the package."""
    if REPO != '/repo':
        sys.path.insert(0, REPO)
    import dataflows
    assert os.path.abspath(dataflows.__file__).startswith(REPO + os.sep), \
        'dataflows imported from %s, expected %s' % (dataflows.__file__, REPO)
    _memoize_profile_check()
    return dataflows


_PROFILE_OK = set()


def _memoize_profile_check():
    """Third-party speed-up only: datapackage.Profile re-validates the (constant, on-disk) profile
    JSON-Schema against the metaschema on every Package/Resource construction (40 ms, 95% of the
    run time of a small flow). The first check per profile name is the real one; repeats are
    skipped. Nothing of dataflows and no descriptor validation is affected."""
    import datapackage.profile as dpp
    if getattr(dpp.Profile, '_verif_memo', False):
        return
    orig = dpp.Profile._check_schema

    def _check_schema(self):
        name = self.__dict__.get('_name')
        if isinstance(name, str) and name in _PROFILE_OK:
            return
        orig(self)
        if isinstance(name, str):
            _PROFILE_OK.add(name)
    dpp.Profile._check_schema = _check_schema
    dpp.Profile._verif_memo = True


def module(name):
    """Return the real *module* (processors/__init__ rebinds attribute names to functions)."""
    import importlib
    m = importlib.import_module(name)
    m = sys.modules[name]
    assert isinstance(m, types.ModuleType), name
    return m


def tree_identity():
    def run(*a):
        try:
            return subprocess.run(a, capture_output=True, text=True, timeout=30).stdout
        except Exception:
            return ''
    head = run('git', '-C', REPO, 'rev-parse', 'HEAD').strip()
    diff = run('git', '-C', REPO, 'diff', 'HEAD', '--', 'dataflows')
    return {'repo': REPO, 'head': head,
            'diff_sha1': hashlib.sha1(diff.encode()).hexdigest() if diff else None}


def rng(*parts):
    return random.Random(':'.join(str(p) for p in parts))


def chash(obj):
    return hashlib.sha1(json.dumps(obj, sort_keys=True, default=repr).encode()).hexdigest()[:16]


class CaseTimeout(Exception):
    pass


@contextlib.contextmanager
def case_alarm(seconds):
    """Generous per-case wall-clock watchdog; firing => the case is inconclusive."""
    def handler(signum, frame):
        raise CaseTimeout('case exceeded %ss' % seconds)
    old = signal.signal(signal.SIGALRM, handler)
    signal.alarm(int(seconds))
    try:
        yield
    finally:
        signal.alarm(0)
        signal.signal(signal.SIGALRM, old)


_BASE = None


def scratch_base():
    global _BASE
    if _BASE is None or not os.path.isdir(_BASE):
        _BASE = tempfile.mkdtemp(prefix='verif-%d-' % os.getpid())
    return _BASE


def cleanup_base():
    global _BASE
    if _BASE and os.path.isdir(_BASE):
        shutil.rmtree(_BASE, ignore_errors=True)
    _BASE = None


@contextlib.contextmanager
def scratch():
    """Fresh cwd for one case (the library writes .checkpoints/, out/ relative to cwd)."""
    d = tempfile.mkdtemp(dir=scratch_base())
    old = os.getcwd()
    os.chdir(d)
    try:
        yield d
    finally:
        os.chdir(old)
        shutil.rmtree(d, ignore_errors=True)


class _Capture(logging.Handler):
    def __init__(self):
        super().__init__(level=logging.DEBUG)
        self.records = []

    def emit(self, record):
        try:
            self.records.append((record.levelname, record.getMessage()))
        except Exception:
            self.records.append((record.levelname, str(record.msg)))


@contextlib.contextmanager
def quiet():
    """Silence the library's prints; log records are captured (the library reports swallowed
    CastErrors only through logging.error) and yielded as handler.records."""
    out, err = io.StringIO(), io.StringIO()
    root = logging.getLogger()
    old_handlers, old_level = root.handlers[:], root.level
    cap = _Capture()
    root.handlers[:] = [cap]
    root.setLevel(logging.WARNING)
    with warnings.catch_warnings():
        warnings.simplefilter('ignore')
        with contextlib.redirect_stdout(out), contextlib.redirect_stderr(err):
            try:
                yield cap
            finally:
                root.handlers[:] = old_handlers
                root.setLevel(old_level)
