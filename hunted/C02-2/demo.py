"""C02: unpivot over two resources, followed by a field-level step, leaves the second resource with
rows that do not match its descriptor (the resources share one field-descriptor object)."""
import sys
from dataflows import Flow, unpivot, rename_fields, set_type


def pipeline(*tail):
    return Flow(
        [{'city': 'london', '2019': 10, '2020': 11}],          # res_1
        [{'city': 'paris', '2019': 20, '2020': 21}],           # res_2
        unpivot([dict(name=r'(\d{4})', keys={'year': r'\1'})],
                [dict(name='year', type='year')],
                dict(name='value', type='integer')),
        *tail
    )


def run(label, flow):
    errors = []

    def on_error(res_name, row, i, e):
        errors.append('%s row %d: %s' % (res_name, i, e))
        return True

    rows, dp, _ = flow.results(on_error=on_error)
    ok = not errors
    print('observed %s:' % label)
    for res, res_rows in zip(dp.descriptor['resources'], rows):
        declared = [f['name'] + ':' + f['type'] for f in res['schema']['fields']]
        print('    %s declared=%r' % (res['name'], declared))
        for row in res_rows:
            undeclared = sorted(set(row) - set(f['name'] for f in res['schema']['fields']))
            print('        row=%r undeclared fields=%r' % (row, undeclared))
            if undeclared:
                ok = False
    print('    validation errors=%r' % errors)
    return ok


print('expected: after unpivot both resources have fields city, year, value; a later step that is applied '
      'to the rows of a resource changes the descriptor of exactly that resource, so in every resource '
      'the rows carry exactly the declared fields with values valid for the declared types')

oks = [
    run('unpivot only', pipeline()),
    # rename in ALL resources: res_2 keeps 'value' in its rows although its descriptor says 'amount'
    run('unpivot + rename_fields({"value": "amount"})', pipeline(rename_fields({'value': 'amount'}))),
    # change the type in res_1 only: res_2's descriptor changes too, its rows do not
    run('unpivot + set_type("value", type="string", transform=str, resources="res_1")',
        pipeline(set_type('value', type='string', transform=str, resources='res_1'))),
]
if all(oks):
    print('OK: property holds')
    sys.exit(0)
print('VIOLATION: rows of res_2 disagree with the descriptor of res_2')
sys.exit(1)
