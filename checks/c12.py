"""C12 sort_rows emits a stable, correctly ordered permutation.

Oracle: expected = stable sort of the input by the typed key (numbers compared exactly as Decimal,
text by code point); permutation check by row id; reverse = exact reverse of the ascending output;
the same data re-run with other batch sizes / padded over the 10240-entry cache must agree.
"""
import decimal
import random

from vlib import boot, gen, lab

PROPERTY = 'C12'
LEVEL = 'exploration'
RULE = ('seeded generation per key class (int, float, decimal, mixed numeric, huge >2^53, high-precision '
        'decimals, -0.0, text with prefix chains/unicode/empty, numeric+numeric, numeric+text, text+numeric '
        '(no proper-prefix pairs in a non-last text member), zero-padded format spec, callable) x key form '
        '(format string / field list / callable) x reverse x batch_size {1,2,7,1000} x sizes {0,1,2,50,1000} '
        'and {10241,12000} (spill); distinct = case hash; non-trivial = >=2 distinct keys and >=1 duplicate key')
ASSUMPTIONS = [
    'NaN/inf and null key values are not generated',
    'a key over several fields (list, or format string with several placeholders) compares field by field in the '
    'order given; literal text between placeholders does not take part',
    'numbers beyond 2^53, decimals differing past float64 precision and -0.0 are judged strictly, each in '
    'its own named class',
]
REQUIRED_COUNTERS = ['orders_checked', 'permutations_checked']
D = decimal.Decimal
CLASSES = ['int', 'float', 'decimal', 'mixed', 'huge', 'highprec', 'negzero', 'text', 'text_unicode',
           'num_num', 'num_text', 'text_num', 'text_text', 'fmt_pad', 'fmt_sep', 'callable', 'multi_resource', 'overflow',
           'nan_present', 'infinite', 'fmt_mixed_spec', 'number_subclasses']


def gen_cases(tier, seed):
    # the processors of this property once more with assertions disabled (python -O) against a normal interpreter
    yield {'family': 'optimized_differential', 'idx': 9 * 10 ** 6, 'seed': seed, 'spill': False, 'big': False, 'proc': 'optimized_differential', 'names': ['a'], 'selector': None}
    n = {'quick': 70, 'thorough': 1500}[tier]
    spill = {'quick': ['int', 'text', 'num_text', 'mixed'],
             'thorough': CLASSES * 3}[tier]
    for i, c in enumerate(spill):   # long cases first (shards take cases round-robin)
        yield {'family': c, 'idx': 10 ** 6 + i, 'seed': seed, 'spill': True}
    for c in CLASSES:
        for i in range(n):
            yield {'family': c, 'idx': i, 'seed': seed, 'spill': False}


TEXT = ['a', 'a0', 'aa', 'ab', 'abc', 'b', '', 'B', 'a b', 'a!', 'a~', 'z', 'a\x00', 'a\x00b', 'a\x01', '\x00']
TEXT_U = ['é', 'e', 'ż', 'z', '日本', '日', '😀', 'a😀', 'ß', 'ss', 'Z', '\x7f']
TEXT_NOPREFIX = ['ax', 'bx', 'ay', 'cz', 'Bq', 'éx', 'a0']


def keyval(rng, c):
    if c == 'int':
        return rng.choice([0, 1, 2, 3, -1, -2, 10, 100, -100, 7])
    if c == 'float':
        return rng.choice([0.5, 1.5, -0.5, -1.5, 2.0, 1e-9, -1e-9, 123.456, 1e300, -1e300, 0.0])
    if c == 'decimal':
        return rng.choice([D('0.1'), D('0.2'), D('-0.1'), D('10'), D('9.99'), D('-10'), D('1E+3'), D('0'),
                           D('1234.5'), D('1234.6'), D('0.12345'), D('0.12346'), D('-1234.55')])
    if c == 'mixed':
        return rng.choice([1, 1.5, D('1.25'), -1, -1.5, D('-1.25'), 2, 2.0, D('2'), 0, 10, D('9.5')])
    if c == 'huge':
        return rng.choice([2 ** 53, 2 ** 53 + 1, 2 ** 53 + 2, -2 ** 53 - 1, -2 ** 53, 2 ** 70, 2 ** 70 + 1, 5])
    if c == 'nan_present':
        # NaN has no place in the order; the other keys still have theirs and nothing may fail
        return rng.choice([D('NaN'), float('nan'), 1, 2.5, D('-3'), 0, D('7.25')])
    if c == 'number_subclasses':
        # numbers that are instances of SUBCLASSES of int / float / Decimal (an IntEnum member, a boolean, a Decimal subclass)
        return rng.choice([Level.LOW, Level.HIGH, Level.MID, True, False, Money('9.5'), Money('100'), 2, 10, 1.5, D('30')])
    if c == 'infinite':
        # the Table Schema numbers INF / -INF (Decimal as the library casts them, float as user code computes them)
        return rng.choice([D('-Infinity'), D('Infinity'), float('inf'), float('-inf'), D('5'), D('-100'), 1, 0, 2.5])
    if c == 'overflow':
        # integers are unbounded: values beyond the float64 range are valid integer cells
        return rng.choice([10 ** 400, -10 ** 400, 10 ** 400 + 1, 3, -3, 0])
    if c == 'highprec':
        return rng.choice([D('1.00000000000000000001'), D('1.00000000000000000002'), D('1'),
                           D('0.99999999999999999999'), D('2')])
    if c == 'negzero':
        return rng.choice([0.0, -0.0, 0, 1.0, -1.0])
    if c == 'text':
        return rng.choice(TEXT)
    if c == 'text_unicode':
        return rng.choice(TEXT_U)
    raise KeyError(c)


import enum                 # noqa: E402


class Level(enum.IntEnum):
    LOW = 3
    MID = 20
    HIGH = 100


class Money(D):
    pass


def exact(v):
    return D(v) if isinstance(v, (int, float)) else v


def run_multi(case, rng):
    """One sort_rows step over several resources whose same-named key field has different types / key mixes:
    every selected resource must be sorted on its own terms (no state carried from one resource to the next)."""
    d = lab.df()
    counters = {'orders_checked': 0, 'permutations_checked': 0}
    cov = {'class_x_form': {}, 'regime': {'memory': 1}}
    viol = []
    kinds = [rng.choice(['text', 'int', 'mixed', 'decimal', 'float']) for _ in range(rng.choice([2, 3]))]
    if len(set(kinds)) == 1:
        kinds[0] = 'text' if kinds[0] != 'text' else 'mixed'
    reverse = rng.random() < 0.3
    key = rng.choice(['{k}', ['k']])
    tables, steps = [], []
    for j, kd in enumerate(kinds):
        n = rng.choice([0, 1, 5, 40, 200])
        if j == 0 and n == 0:
            n = 5
        rows = [{'id': j * 10000 + i, 'k': keyval(rng, kd)} for i in range(n)]
        tables.append(rows)
        steps.append(lab.source('res%d' % j, [{'name': 'id', 'type': 'integer'},
                                              {'name': 'k', 'type': 'string' if kd == 'text' else 'number'}], rows))
    sel = rng.choice([None, None, ['res%d' % j for j in range(len(kinds))], 'res.*'])
    steps.append(d.sort_rows(key, resources=sel, reverse=reverse))
    cfg = {'class': 'multi_resource', 'kinds': kinds, 'reverse': reverse, 'selector': sel, 'sizes': [len(t) for t in tables]}
    cov['class_x_form']['multi_resource/' + '+'.join(kinds)] = 1
    got = lab.run(steps)

    def add(kind, msg):
        viol.append({'kind': kind, 'mech': 'multi_resource', 'key_class': 'multi_resource',
                     'msg': '%r: %s' % (cfg, msg), 'config': cfg})
    if not got.ok:
        add('unexpected_error', got.errstr())
        return dict(nontrivial=False, violations=viol, cov=cov, counters=counters)
    nontrivial = False
    for j, (rows, out) in enumerate(zip(tables, got.results)):
        asc = [r for _, r in sorted(enumerate(rows), key=lambda p: (exact(p[1]['k']), p[0]))]
        exp = list(reversed(asc)) if reverse else asc
        counters['permutations_checked'] += 1
        counters['orders_checked'] += 1
        if [r['id'] for r in out] != [r['id'] for r in exp]:
            pos = next((i for i, (a, b) in enumerate(zip(out, exp)) if a['id'] != b['id']), min(len(out), len(exp)))
            add('order', 'resource #%d (key type %s, sorted after %r): first difference at position %d: got %r expected %r'
                % (j, kinds[j], kinds[:j], pos, out[pos:pos + 2], exp[pos:pos + 2]))
            break
        ks = [exact(r['k']) for r in rows]
        if len(set(map(str, ks))) >= 2:
            nontrivial = True
    return dict(nontrivial=nontrivial and len(tables) >= 2, violations=viol, cov=cov, counters=counters,
                sample={'config': cfg})


def run_nan(case, rows, key, reverse, batch, cfg, d, counters, cov, viol):
    def isnan(v):
        return v != v
    flds = [{'name': 'id', 'type': 'integer'}, {'name': 'k', 'type': 'number'}]
    got = lab.run([lab.source('res', flds, rows), d.sort_rows(key, reverse=reverse, batch_size=batch)])
    n = len(rows)

    def add(kind, msg):
        viol.append({'kind': kind, 'mech': 'nan_present', 'key_class': 'nan_present', 'msg': msg, 'config': cfg})
    if not got.ok:
        add('unexpected_error', '%r: %s' % (cfg, got.errstr()))
        return dict(nontrivial=False, violations=viol, cov=cov, counters=counters)
    out = got.results[0]
    counters['permutations_checked'] += 1
    counters['orders_checked'] += 1
    if sorted(r['id'] for r in out) != list(range(n)):
        add('not_permutation', '%r: rows lost / duplicated' % (cfg,))
    else:
        real = [r for r in out if not isnan(r['k'])]
        want = [r for _, r in sorted(((i, r) for i, r in enumerate(rows) if not isnan(r['k'])),
                                     key=lambda p: (D(p[1]['k']), p[0]))]
        if reverse:
            # equal keys keep input order in the ascending result; the reverse output is exactly its reverse
            want = list(reversed(want))
        if [r['id'] for r in real] != [r['id'] for r in want]:
            add('order', '%r: the rows whose key is a number are not in order: %r' % (cfg, [r['k'] for r in real][:8]))
    return dict(nontrivial=len(rows) > 2, violations=viol, cov=cov, counters=counters,
                sample={'config': cfg})


def run_case(case):
    if case['family'] == 'optimized_differential':
        from vlib import optlab
        return optlab.as_case_result(['sort_rows'], {'orders_checked': 0, 'permutations_checked': 0})
    c = case['family']
    rng = boot.rng(case['seed'], 'C12', c, case['idx'])
    if c == 'multi_resource':
        return run_multi(case, rng)
    d = lab.df()
    counters = {'orders_checked': 0, 'permutations_checked': 0}
    cov = {'class_x_form': {}, 'regime': {}}
    viol = []
    if case['spill']:
        n = rng.choice([10241, 12000])
    else:
        n = rng.choice([0, 1, 2, 5, 50, 50, 200, 999, 1000, 1001])
    reverse = rng.random() < 0.4
    batch = rng.choice([1, 2, 7, 1000]) if n <= 1000 else rng.choice([7, 1000])
    # key fields + typed key function
    if c == 'fmt_mixed_spec':
        # a plain numeric field followed by a field with a format spec: each part keeps its own meaning
        rows = [{'id': i, 'k': keyval(rng, 'mixed'), 'm': rng.randint(0, 99)} for i in range(n)]
        form = rng.choice(['num_then_spec', 'spec_then_num'])
        key = {'num_then_spec': '{k}{m:02}', 'spec_then_num': '{m:02}{k}'}[form]
        tkey = (lambda r: (exact(r['k']), '%02d' % r['m'])) if form == 'num_then_spec' else \
            (lambda r: ('%02d' % r['m'], exact(r['k'])))
    elif c in ('int', 'float', 'decimal', 'mixed', 'huge', 'highprec', 'negzero', 'text', 'text_unicode', 'overflow',
               'nan_present', 'infinite', 'number_subclasses'):
        rows = [{'id': i, 'k': keyval(rng, c)} for i in range(n)]
        form = rng.choice(['fmt', 'list', 'tuple'])
        key = {'fmt': '{k}', 'list': ['k'], 'tuple': ('k',)}[form]
        tkey = lambda r: (exact(r['k']),)                                  # noqa: E731
    elif c == 'num_num':
        rows = [{'id': i, 'k': keyval(rng, 'int'), 'm': keyval(rng, 'decimal')} for i in range(n)]
        form = rng.choice(['fmt', 'list'])
        key = {'fmt': '{k}{m}', 'list': ['k', 'm']}[form]
        tkey = lambda r: (exact(r['k']), exact(r['m']))                    # noqa: E731
    elif c == 'num_text':
        rows = [{'id': i, 'k': keyval(rng, 'mixed'), 't': rng.choice(TEXT)} for i in range(n)]
        form = rng.choice(['fmt', 'list', 'fmt_sep'])
        key = {'fmt': '{k}{t}', 'list': ['k', 't'], 'fmt_sep': '{k}/{t}'}[form]
        tkey = lambda r: (exact(r['k']), r['t'])                           # noqa: E731
    elif c == 'text_num':
        rows = [{'id': i, 't': rng.choice(TEXT), 'k': keyval(rng, 'int')} for i in range(n)]
        form = rng.choice(['fmt', 'list', 'fmt_sep'])
        key = {'fmt': '{t}{k}', 'list': ['t', 'k'], 'fmt_sep': '{t}|{k}'}[form]
        tkey = lambda r: (r['t'], exact(r['k']))                           # noqa: E731
    elif c == 'text_text':
        rows = [{'id': i, 't': rng.choice(TEXT), 'u': rng.choice(TEXT)} for i in range(n)]
        form = rng.choice(['fmt', 'list', 'fmt_sep', 'fmt_field_twice'])
        key = {'fmt': '{t}{u}', 'list': ['t', 'u'], 'fmt_sep': '{t}, {u}', 'fmt_field_twice': '{t:.1}{u}{t}'}[form]
        tkey = lambda r: (r['t'], r['u'])                                  # noqa: E731
        if form == 'fmt_field_twice':
            # one field used by two parts of the key, each with its own format spec: three parts, in that order
            tkey = lambda r: (r['t'][:1], r['u'], r['t'])                  # noqa: E731
    elif c == 'fmt_pad':
        rows = [{'id': i, 'k': rng.randint(0, 99999), 't': rng.choice(TEXT)} for i in range(n)]
        form = rng.choice(['pad', 'pad_text'])
        key = {'pad': '{k:06d}', 'pad_text': '{t}-{k:06d}'}[form]
        tkey = (lambda r: ('%06d' % r['k'],)) if form == 'pad' else (lambda r: (r['t'], '%06d' % r['k']))
    elif c == 'fmt_sep':
        rows = [{'id': i, 'k': keyval(rng, 'float'), 'm': keyval(rng, 'int')} for i in range(n)]
        form = 'fmt_sep'
        key = '{k}:{m}'
        tkey = lambda r: (exact(r['k']), exact(r['m']))                    # noqa: E731
    else:
        rows = [{'id': i, 't': rng.choice(TEXT_NOPREFIX), 'k': rng.randint(0, 50)} for i in range(n)]
        form = 'callable'
        key = lambda row: '%s/%04d' % (row['t'], row['k'])                 # noqa: E731
        tkey = lambda r: ('%s/%04d' % (r['t'], r['k']),)                   # noqa: E731
        if boot.rng(case['seed'], 'C12', 'callable_form', case['idx']).random() < 0.5:
            # the callable returns the text itself: keys that are proper prefixes of other keys which go on with a
            # space, '-', '!' or a digit (characters below and among the hex digits of the row-number suffix)
            rows = [{'id': i, 't': rng.choice(TEXT + ['a-', 'a 1', 'a1', 'a10', 'ab-2', 'ab 1']), 'k': 0} for i in range(n)]
            form = 'callable_text_itself'
            key = lambda row: row['t']                                     # noqa: E731
            tkey = lambda r: (r['t'],)                                     # noqa: E731
    if not callable(key) and c != 'nan_present' and rows and 'k' in rows[0] and \
            boot.rng(case['seed'], 'C12', 'oddname', c, case['idx']).random() < 0.25:
        # the key field has a name that is not an identifier ('unit price', 'net-weight', 'growth %'): a name like any other
        odd = rng.choice(['unit price', 'net-weight', 'growth %'])
        if not isinstance(key, str):
            # a LIST of field names names fields literally, whatever characters the names contain
            odd = rng.choice([odd, '2020', 'dc:title', 'address.city', 'tags[0]', 'k!r', '{k}'])
        for r in rows:
            r[odd] = r.pop('k')
        key = key.replace('{k', '{' + odd) if isinstance(key, str) else type(key)(odd if x == 'k' else x for x in key)
        inner_tkey = tkey
        tkey = lambda r, inner_tkey=inner_tkey, odd=odd: inner_tkey(dict(r, k=r[odd]))      # noqa: E731
        cov['class_x_form']['%s/%s/key_field_name_not_an_identifier' % (c, form)] = 1
    cov['class_x_form']['%s/%s' % (c, form)] = 1
    cov['regime']['spill' if n > 10240 else 'memory'] = 1
    cfg = {'class': c, 'form': form, 'key': key if not callable(key) else 'callable', 'n': n,
           'reverse': reverse, 'batch_size': batch}
    if c == 'nan_present':
        return run_nan(case, rows, key, reverse, batch, cfg, d, counters, cov, viol)
    if boot.rng(case['seed'], 'C12', 'payload', c, case['idx']).random() < 0.25 and rows:
        # cells that are not part of the key travel through the sorter as they are (microseconds, UTC offsets, tuples)
        import datetime as dt_
        pr_ = boot.rng(case['seed'], 'C12', 'payload/cells', c, case['idx'])
        stamps = [dt_.datetime(2020, 1, 2, 3, 4, 5, 678901), dt_.datetime(2021, 6, 30, 23, 59, 59, 1, tzinfo=dt_.timezone(dt_.timedelta(hours=-3, minutes=-30))),
                  dt_.time(1, 2, 3, 456), None, dt_.datetime(1999, 12, 31, tzinfo=dt_.timezone.utc)]
        for r_ in rows:
            r_['stamp'] = pr_.choice(stamps)
        cfg['payload_cells'] = 'datetime / time with microseconds and offsets'
        cov['regime']['payload_temporal_cells'] = 1
    if boot.rng(case['seed'], 'C12', 'keyorder', c, case['idx']).random() < 0.15 and len(rows) > 1:
        # the rows of a resource are mappings: the order in which a row lists its fields is not part of the row (a row
        # function that rebuilds some rows lists them differently)
        kr = boot.rng(case['seed'], 'C12', 'keyorder/rows', c, case['idx'])
        for i_ in range(1, len(rows)):
            if kr.random() < 0.5:
                ks = list(rows[i_])
                kr.shuffle(ks)
                rows[i_] = {k_: rows[i_][k_] for k_ in ks}
        cfg['rows_list_fields_in_varying_order'] = True
        cov['regime']['rows_list_fields_in_varying_order'] = 1
    # reference: stable sort on the exact typed key
    asc = [r for _, r in sorted(enumerate(rows), key=lambda p: (tkey(p[1]), p[0]))]
    exp = list(reversed(asc)) if reverse else asc
    def srcstep():
        # explicit schema (no inference, no cast): '' stays '', numbers keep their Python type
        typ = {'id': 'integer', 't': 'string', 'u': 'string', 'stamp': 'any'}
        ktyp = 'string' if c in ('text', 'text_unicode') else 'number'
        flds = [{'name': f, 'type': typ.get(f, ktyp)} for f in (rows[0] if rows else {'id': 0})]
        return lab.source('res', flds, rows)
    low_prec = c in ('decimal', 'mixed', 'num_num', 'num_text') and \
        boot.rng(case['seed'], 'C12', 'prec', c, case['idx']).random() < 0.2
    if low_prec:
        # the caller computes under a low-precision decimal context (prec=3, ROUND_DOWN): the ORDER of the keys does not
        # depend on it (9.99 / 10 / 9.5 stay three different keys)
        import decimal as decimal_
        cfg['caller_decimal_context'] = 'prec=3, ROUND_DOWN'
        cov['regime']['caller_low_precision_context'] = 1
        with decimal_.localcontext() as ctx_:
            ctx_.prec = 3
            ctx_.rounding = decimal_.ROUND_DOWN
            got = lab.run([srcstep(), d.sort_rows(key, reverse=reverse, batch_size=batch)])
    else:
        got = lab.run([srcstep(), d.sort_rows(key, reverse=reverse, batch_size=batch)])
    keys = [tkey(r) for r in rows]
    nontrivial = len(set(keys)) >= 2 and len(set(keys)) < len(keys)
    sample = {'config': cfg, 'rows': gen.render(rows[:6], 400)}

    def add(kind, msg, mech=None):
        viol.append({'kind': kind, 'mech': mech or c, 'key_class': c, 'msg': msg, 'config': cfg})
    if not got.ok:
        add('unexpected_error', '%r: %s' % (cfg, got.errstr()))
        return dict(nontrivial=False, violations=viol, cov=cov, counters=counters)
    out = got.results[0]
    counters['permutations_checked'] += 1
    if sorted(r['id'] for r in out) != list(range(n)):
        add('not_permutation', '%r: %d rows out, ids lost/duplicated: missing %r' %
            (cfg, len(out), sorted(set(range(n)) - set(r['id'] for r in out))[:8]))
        return dict(nontrivial=nontrivial, violations=viol, cov=cov, counters=counters, sample=sample)
    counters['orders_checked'] += 1
    got_ids = [r['id'] for r in out]
    exp_ids = [r['id'] for r in exp]
    if got_ids != exp_ids:
        # name the mechanism if a known alternative model explains the observation exactly
        mech = None
        try:
            f_asc = [r['id'] for _, r in sorted(
                enumerate(rows), key=lambda p: (tuple(float(x) if isinstance(x, D) else x
                                                      for x in tkey(p[1])), p[0]))]
            if got_ids == (list(reversed(f_asc)) if reverse else f_asc):
                mech = 'float64_key_collapse'
        except Exception:
            pass
        if mech is None and c == 'negzero':
            import math
            z_asc = [r['id'] for _, r in sorted(
                enumerate(rows), key=lambda p: ((float(p[1]['k']), 0 if math.copysign(1, float(p[1]['k'])) < 0 else 1), p[0]))]
            if got_ids == (list(reversed(z_asc)) if reverse else z_asc):
                mech = 'negative_zero_before_zero'
        pos = next(i for i, (a, b) in enumerate(zip(got_ids, exp_ids)) if a != b)
        add('order', '%r: first difference at position %d: got %r expected %r (keys around: got %r)'
            % (cfg, pos, out[pos], exp[pos], [tkey(r) for r in out[max(0, pos - 1):pos + 2]]), mech)
    elif not all(lab.value_eq(a, b) for a, b in zip(out, exp)):
        add('row_altered', '%r: rows altered by sorting' % cfg)
    # batch-size independence on the same data
    if n <= 1000 and n > 1 and rng.random() < 0.5:
        b2 = rng.choice([b for b in (1, 2, 7, 1000) if b != batch])
        got2 = lab.run([srcstep(), d.sort_rows(key, reverse=reverse, batch_size=b2)])
        if got2.ok and [r['id'] for r in got2.results[0]] != got_ids:
            add('batch_dependence', '%r: batch_size=%d gives a different order than batch_size=%d'
                % (cfg, b2, batch))
        cov['regime']['batch_pair'] = 1
    return dict(nontrivial=nontrivial, violations=viol, cov=cov, counters=counters, sample=sample)
