"""C01: descriptor of chained execution != descriptor of step-by-step evaluation (dumpers).

Steps: data(3 rows) -> dump_to_path(A) -> dump_to_path(B)

A dumper adds count_of_rows / bytes / hash to the descriptor only while/after the rows stream
through it, i.e. after every later step has already taken its copy of the descriptor; and it ADDS
its counts to whatever the incoming descriptor already says (inc_attr).

* chained:       B never sees A's counters; B/datapackage.json says count_of_rows=3 for the resource,
                 and a non-dumper step after A yields a descriptor without any counters.
* step by step:  B runs on A's materialised output (descriptor with count_of_rows=3, bytes=N) and
                 reports count_of_rows=6 and bytes=2N for a 3-row resource.
"""
import json
import os
import shutil
import sys

from dataflows import Flow, dump_to_path, load, add_field


def data():
    return [{'a': i, 'b': 'x%d' % i} for i in range(3)]


def counters(descriptor):
    res = descriptor['resources'][0]
    return {k: res.get(k) for k in ('count_of_rows', 'bytes')}


work = 'c01_demo_tmp'
shutil.rmtree(work, ignore_errors=True)
A, B, A2, B2 = (os.path.join(work, d) for d in ('A', 'B', 'A2', 'B2'))
failed = False
try:
    # chained
    _, dp, _ = Flow(data(), dump_to_path(A), dump_to_path(B)).results()
    chained_file = counters(json.load(open(os.path.join(B, 'datapackage.json'))))
    chained_dp = counters(dp.descriptor)

    # step by step: materialise the output of dump_to_path(A), run dump_to_path(B) on it
    rows1, dp1, _ = Flow(data(), dump_to_path(A2)).results()
    _, dp2, _ = Flow(load((dp1.descriptor, (iter(r) for r in rows1)), strip=False),
                     dump_to_path(B2)).results()
    step_file = counters(json.load(open(os.path.join(B2, 'datapackage.json'))))
    step_dp = counters(dp2.descriptor)

    print('B/datapackage.json, chained     :', chained_file)
    print('B/datapackage.json, step by step:', step_file)
    print('returned descriptor, chained     :', chained_dp)
    print('returned descriptor, step by step:', step_dp)
    if chained_file != step_file or chained_dp != step_dp:
        failed = True
        print('-> MISMATCH (expected: identical, and count_of_rows == 3)')

    # a non-dumper step after the dumper: the counters are missing from the chained outcome
    _, dp, _ = Flow(data(), dump_to_path(A), add_field('c', 'integer', 1)).results()
    _, dp_s, _ = Flow(load((dp1.descriptor, (iter(r) for r in rows1)), strip=False),
                      add_field('c', 'integer', 1)).results()
    print('data, dump, add_field - chained     :', counters(dp.descriptor))
    print('data, dump, add_field - step by step:', counters(dp_s.descriptor))
    if counters(dp.descriptor) != counters(dp_s.descriptor):
        failed = True
        print('-> MISMATCH')
finally:
    shutil.rmtree(work, ignore_errors=True)

if failed:
    print('VIOLATION: chained and step-by-step evaluation disagree on the resource descriptor')
    sys.exit(1)
print('ok')
