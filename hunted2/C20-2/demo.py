"""C20: an array column with a maxLength constraint: dump_to_sql (sqlite) checks the constraint
against the length of the JSON text of the array instead of the number of its items, and so
refuses conforming rows."""
import json
import os
import shutil
import sqlite3
import sys
import tempfile

from dataflows import Flow, dump_to_sql, set_type, update_resource, validate

tmp = tempfile.mkdtemp()
db = os.path.join(tmp, 'a.db')
engine = 'sqlite:///' + db
rows = [{'id': 1, 'tags': ['x', 'y', 'z']}, {'id': 2, 'tags': []}]
constraints = {'maxLength': 3}


def source():
    return [
        [dict(r) for r in rows],
        update_resource(-1, name='res'),
        set_type('tags', type='array', constraints=constraints),
    ]


def table():
    con = sqlite3.connect(db)
    try:
        return [(i, json.loads(tags)) for i, tags in con.execute('select id, tags from t order by id')]
    except sqlite3.Error as e:
        return 'unreadable (%s)' % e
    finally:
        con.close()


violated = False
try:
    print('rows:', rows, ' constraints of the array field:', constraints)
    Flow(*source(), validate()).process()
    print('validate(): the rows conform to the schema (at most 3 items each)')
    print('expected: dump_to_sql (rewrite) stores both rows')
    try:
        Flow(*source(), dump_to_sql({'t': {'resource-name': 'res'}}, engine=engine)).process()
        got = table()
        print('observed: table =', got)
        violated = got != [(1, ['x', 'y', 'z']), (2, [])]
    except Exception as e:
        violated = True
        print('observed: %s: %s' % (type(e).__name__, str(e).splitlines()[0]))
        print('          table =', table())
finally:
    shutil.rmtree(tmp, ignore_errors=True)

sys.exit(1 if violated else 0)
