"""C07: resuming from a checkpoint does not reproduce the first run when an object-typed
cell (or a row) has keys that are not in alphabetical order.

stream() serialises every row with json.dumps(..., sort_keys=True); the resumed run therefore
sees rows and nested objects whose keys were re-ordered.  Steps placed after the checkpoint
observe that order:
  (a) dump_to_path writes the object cell as JSON text -> different file bytes, and therefore a
      different resource 'hash' / package 'hash' in the descriptor returned by the pipeline;
  (b) concatenate lets the *last* non-null source column of a row win -> different cell value.
"""
import contextlib
import io
import os
import shutil
import sys
import tempfile

from dataflows import Flow, checkpoint, dump_to_path, concatenate


def quiet(flow):
    with contextlib.redirect_stdout(io.StringIO()):
        return flow.results()


def main():
    failed = False
    cwd = os.getcwd()
    tmp = tempfile.mkdtemp(prefix='c07-demo-')
    os.chdir(tmp)
    try:
        # ---- (a) nested object whose keys are not sorted, dumped after the checkpoint
        def pipeline_a(out):
            data = [{'id': 1, 'props': {'b': 1, 'a': 2}}]
            return Flow(data, checkpoint('objects'), dump_to_path(out))

        rows1, dp1, _ = quiet(pipeline_a('out1'))   # first run: computes and saves the checkpoint
        rows2, dp2, _ = quiet(pipeline_a('out2'))   # second run: resumes from the checkpoint
        h1 = (dp1.descriptor['hash'], dp1.descriptor['resources'][0]['hash'])
        h2 = (dp2.descriptor['hash'], dp2.descriptor['resources'][0]['hash'])
        csv1 = open('out1/res_1.csv').read()
        csv2 = open('out2/res_1.csv').read()
        print('(a) expected: identical descriptor (incl. hashes) and identical dumped data on resume')
        print('    first run : hashes', h1, 'props keys', list(rows1[0][0]['props']), 'csv', repr(csv1))
        print('    resumed   : hashes', h2, 'props keys', list(rows2[0][0]['props']), 'csv', repr(csv2))
        if dp1.descriptor != dp2.descriptor or csv1 != csv2:
            print('    VIOLATION: descriptor equal =', dp1.descriptor == dp2.descriptor,
                  '; dumped csv equal =', csv1 == csv2)
            failed = True

        # ---- (b) row key order decides which column wins in concatenate
        def pipeline_b():
            data = [{'new_name': 'N', 'legacy_name': 'L'}]
            return Flow(data, checkpoint('rows'),
                        concatenate({'name': ['new_name', 'legacy_name']}))

        rows1, dpb1, _ = quiet(pipeline_b())
        rows2, dpb2, _ = quiet(pipeline_b())
        print('(b) expected: identical rows on resume')
        print('    first run :', rows1)
        print('    resumed   :', rows2)
        if rows1 != rows2:
            print('    VIOLATION: rows differ')
            failed = True
    finally:
        os.chdir(cwd)
        shutil.rmtree(tmp, ignore_errors=True)
    if failed:
        print('FAIL: the resumed run does not reproduce the first run')
        sys.exit(1)
    print('OK')


if __name__ == '__main__':
    main()
