"""
C05 - dump_to_path / dump_to_zip are not transparent for the SCHEMA seen downstream: the field
descriptors that later steps (and the final result) see are rewritten to the dumper's own output
dialect - a date field's declared `format`, a boolean field's `trueValues`/`falseValues`, a number
field's `decimalChar`/`groupChar` are replaced.

Run in an empty cwd:  PYTHONPATH=<tree> /venv/bin/python demo.py
"""
import io
import contextlib
import json
import os
import shutil
import sys

from dataflows import (Flow, set_type, add_field, dump_to_path, dump_to_zip, printer, checkpoint,
                       finalizer, update_stats, validate)

OUT, ZIP, CP = 'out_c05_3', 'out_c05_3.zip', '.checkpoints_c05_3'


def cleanup():
    shutil.rmtree(OUT, ignore_errors=True)
    shutil.rmtree(CP, ignore_errors=True)
    if os.path.exists(ZIP):
        os.remove(ZIP)


def prefix():
    return [
        [{'d': '31/12/2020', 'ok': 'yes', 'n': '1,234.5'},
         {'d': '01/02/2021', 'ok': 'no', 'n': '7'}],
        set_type('d', type='date', format='%d/%m/%Y'),
        set_type('ok', type='boolean', trueValues=['yes'], falseValues=['no']),
        set_type('n', type='number', groupChar=','),
    ]


def label_dates(rows):
    # an ordinary downstream step: render every date the way the schema declares it
    formats = dict((f.name, f.descriptor.get('format')) for f in rows.res.schema.fields if f.type == 'date')
    for row in rows:
        row['label'] = row['d'].strftime(formats['d'])
        yield row


def suffix():
    return [add_field('label', 'string'), label_dates]


def run(*observer):
    with contextlib.redirect_stdout(io.StringIO()):
        rows, dp, _ = Flow(*prefix(), *observer, *suffix()).results()
    fields = dict((f['name'], f) for f in dp.descriptor['resources'][0]['schema']['fields'])
    return rows, fields


cleanup()
failures = []
try:
    base_rows, base_fields = run()
    print('WITHOUT observer')
    for name in ('d', 'ok', 'n'):
        print('   field', json.dumps(base_fields[name], sort_keys=True))
    print('   labels', [r['label'] for r in base_rows[0]])

    observers = [
        ('dump_to_path', lambda: dump_to_path(OUT)),
        ('dump_to_zip', lambda: dump_to_zip(ZIP)),
        ('dump_to_path(format=json)', lambda: dump_to_path(OUT, format='json')),
        ('printer', lambda: printer()),
        ('checkpoint (first run)', lambda: checkpoint('cp', checkpoint_path=CP)),
        ('finalizer', lambda: finalizer(lambda: None)),
        ('update_stats', lambda: update_stats({'x': 1})),
        ('validate', lambda: validate()),
    ]
    for name, make in observers:
        cleanup()
        rows, fields = run(make())
        same = (fields == base_fields and rows == base_rows)
        print('\nWITH %s inserted after the prefix: %s' % (name, 'unchanged' if same else 'CHANGED'))
        if not same:
            failures.append(name)
            for fname in ('d', 'ok', 'n'):
                if fields[fname] != base_fields[fname]:
                    print('   field', json.dumps(fields[fname], sort_keys=True))
            print('   labels', [r['label'] for r in rows[0]])
finally:
    cleanup()

print()
print('EXPECTED: schema (and therefore the rows computed from it) seen downstream is the same with '
      'and without the pass-through step')
if not failures:
    print('OBSERVED: the same - OK')
    sys.exit(0)
print('OBSERVED: downstream schema / rows differ when inserting:', ', '.join(failures))
sys.exit(1)
