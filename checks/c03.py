"""C03 A dumped data package loads back to the same typed data.

Input side: typed rows with an explicit schema enter dump_to_path / dump_to_zip. Output side A: the
real load() of the written package. Output side B: vlib.iolab.decode - an independent decoder driven
only by the written descriptor. Both must give back the typed values that entered the dumper.
"""
import copy
import datetime
import decimal
import os

from vlib import boot, gen, iolab, lab

PROPERTY = 'C03'
LEVEL = 'exploration'
RULE = ('seeded generation: 1..3 resources x 2..7 fields over string/integer/number/boolean/date/time/datetime/'
        'year/array/object in non-alphabetical schema order (row dict order also shuffled) x value classes '
        '(nulls, negatives, high-precision decimals, quotes, delimiters, newlines, CRLF, non-BMP unicode, padded, '
        'empty) x format {csv,json} x {dump_to_path, dump_to_zip} x add_filehash_to_path x '
        'temporal_format_property (per-field outputFormat) x primary key x load strip on/off; distinct = case '
        'hash; non-trivial = >=1 non-null cell of >=3 distinct types went through both output sides')
ASSUMPTIONS = [
    'CSV numbers compare as Decimal; JSON numbers at double precision (as the quantifier says)',
    'array/object cells hold JSON-native values; datetimes are naive; temporal values at second precision',
    'dates before year 1000 are not combined with a user-supplied output format (strptime %Y needs 4 digits)',
    'load(strip=True) (the default) is expected to return exactly str.strip() of padded text cells',
]
REQUIRED_COUNTERS = ['cells_compared_load', 'cells_compared_decoder']
TYPES = ['string', 'integer', 'number', 'boolean', 'date', 'time', 'datetime', 'year', 'array', 'object']
NAME_POOL = ['zeta', 'alpha', 'm1', 'beta', 'Id', 'kappa', 'b', 'a', 'omega', 'C']
TEMPORAL_FMT = {'date': ['%d/%m/%Y', '%Y%m%d'], 'time': ['%H-%M-%S', '%H%M%S'],
                'datetime': ['%d/%m/%Y %H:%M:%S', '%Y%m%dT%H%M%S']}


_TZ = datetime.timezone
AWARE = [datetime.datetime(2020, 1, 2, 12, 0, 0, tzinfo=_TZ(datetime.timedelta(hours=2))),
         datetime.datetime(1999, 12, 31, 23, 59, 59, tzinfo=_TZ.utc),
         datetime.datetime(2021, 6, 1, 0, 30, 0, tzinfo=_TZ(datetime.timedelta(hours=-9, minutes=-30)))]


def gen_cases(tier, seed):
    n = {'quick': 480, 'thorough': 12000}[tier]
    for i in range(n):
        yield {'family': ['csv', 'json'][i % 2] + ['/path', '/zip'][(i // 2) % 2], 'idx': i, 'seed': seed}


def cell_eq(exp, got, fmt, ftype):
    if ftype == 'number' and exp is not None and got is not None:
        if fmt == 'json':
            try:
                if float(exp) != float(exp):
                    return float(got) != float(got)
                return float(exp) == float(got)
            except Exception:
                return False
        return lab.value_eq(exp, got)
    if isinstance(exp, datetime.datetime) and isinstance(got, datetime.datetime):
        # the same wall clock AND the same offset (aware == aware compares instants only; aware == naive is False)
        return exp.replace(tzinfo=None) == got.replace(tzinfo=None) and exp.utcoffset() == got.utcoffset()
    return lab.strict_eq(exp, got)


def run_case(case):
    rng = boot.rng(case['seed'], 'C03', case['idx'])
    d = lab.df()
    fmt, kind = case['family'].split('/')
    counters = {'cells_compared_load': 0, 'cells_compared_decoder': 0}
    cov = {'type_class_fmt': {}, 'config': {}}
    viol = []
    filehash = rng.random() < 0.25
    tfp = rng.random() < 0.3
    strip = rng.random() < 0.25
    nres = rng.choice([1, 1, 2, 3])
    res = []
    for r in range(nres):
        nf = rng.randint(2, 7)
        names = rng.sample(NAME_POOL, nf)
        fields = []
        for n in names:
            t = rng.choice(TYPES)
            fd = {'name': n, 'type': t}
            if tfp and t in TEMPORAL_FMT and rng.random() < 0.7:
                fd['outputFormat'] = rng.choice(TEMPORAL_FMT[t])
            fields.append(fd)
        rng_x = boot.rng(case['seed'], 'C03', 'extra', case['idx'], r)
        if rng_x.random() < 0.06:
            # a field name with leading / trailing blanks is a name like any other
            fields[0]['name'] = rng_x.choice([fields[0]['name'] + ' ', ' ' + fields[0]['name']])
            cov['config']['field_name_with_outer_blank'] = 1
        for fd in fields:
            if fd['type'] == 'datetime' and 'outputFormat' not in fd and rng_x.random() < 0.15:
                # zone-aware datetimes, as load() produces them for a format with %z
                fd['format'] = '%Y-%m-%dT%H:%M:%S%z'
                cov['config']['datetime_format_with_utc_offset'] = 1
        rng_l = boot.rng(case['seed'], 'C03', 'lexical_props', case['idx'], r)
        for fd in fields:
            if fd['type'] == 'number' and rng_l.random() < 0.25:
                # the source declares how ITS text spelled numbers; the dump declares how the written text spells them
                lex = rng_l.choice([{'groupChar': '.', 'decimalChar': ','}, {'groupChar': ','}, {'bareNumber': False},
                                    {'decimalChar': ','}, {'groupChar': ' ', 'bareNumber': False}])
                fd.update(lex)
                cov['config']['number_field_declares/' + '+'.join(sorted(lex))] = 1
            elif fd['type'] == 'integer' and rng_l.random() < 0.1:
                fd['bareNumber'] = False
                cov['config']['integer_field_declares/bareNumber'] = 1
        long_cell = rng_x.random() < 0.04 and any(fd['type'] == 'string' for fd in fields)
        pk = None
        if rng.random() < 0.4:
            fields.insert(rng.randrange(len(fields) + 1), {'name': 'rowid', 'type': 'integer'})
            pk = ['rowid']
        nrows = rng.choice([0, 1, 2, 5, 12, 30])
        rng_n = boot.rng(case['seed'], 'C03', 'nested', case['idx'], r)
        tcov = {}
        rows = []
        for i in range(nrows):
            row = {}
            for fd in fields:
                if fd['name'] == 'rowid':
                    row['rowid'] = i
                    continue
                classes = None
                if fd['type'] in ('date', 'datetime') and 'outputFormat' in fd:
                    classes = ['plain', 'late', 'early']
                if fd.get('format', '').endswith('%z'):
                    if rng.random() < 0.15:
                        row[fd['name']] = None
                    else:
                        row[fd['name']] = rng.choice(AWARE)
                        tcov['datetime/aware/%s' % fmt] = tcov.get('datetime/aware/%s' % fmt, 0) + 1
                    continue
                if fd['type'] == 'string' and not strip and False:
                    classes = None
                v, c = gen.value(rng, fd['type'], classes, null_p=0.15)
                if fd['type'] in ('array', 'object') and v is not None and rng_n.random() < 0.25:
                    # fractions that sit two or three levels deep, under parents that hold no fraction themselves
                    v = rng_n.choice({'array': [[[0.1]], [{'lat': 51.5}], [1, [2, [0.25]]], ['a', {'b': {'c': 2.5}}]],
                                      'object': [{'box': {'h': 0.7}}, {'pts': [[1.5, 2]]}, {'a': 1, 'b': {'c': [0.125]}}]}[fd['type']])
                    c = 'nested_fraction_under_plain_parent'
                row[fd['name']] = v
                key = '%s/%s/%s' % (fd['type'], c, fmt)
                tcov[key] = tcov.get(key, 0) + 1
            if rng.random() < 0.5:
                items = list(row.items())
                rng.shuffle(items)
                row = dict(items)
            rows.append(row)
        if long_cell and rows:
            # a cell longer than python's default csv field size limit (131072)
            fn_ = next(fd['name'] for fd in fields if fd['type'] == 'string')
            rows[0][fn_] = 'long-' + 'x' * 140000
            cov['config']['cell_longer_than_131072'] = 1
        for k in tcov:
            cov['type_class_fmt'][k] = 1
        missing = None
        if rng.random() < 0.2:
            # the schema declares its own missing-value markers (documented use of update_schema); nulls must survive
            missing = rng.choice([['NA'], ['NA', '-'], ['', 'NA'], ['-'], []])
            for row in rows:
                for k_, v_ in row.items():
                    if isinstance(v_, str) and v_ in missing and v_ != '':
                        row[k_] = 'x' + v_
            cov['config']['schema_missingValues/%s' % ('with_empty' if '' in missing else 'without_empty')] = 1
        if rng_x.random() < 0.12:
            # constraints whose values are written in the serialisation the resource ARRIVES with (lexical values, as in
            # any descriptor read from JSON); every generated value satisfies them
            for fd in fields:
                vals = [row[fd['name']] for row in rows if row[fd['name']] is not None]
                if fd['type'] == 'date':
                    fd['format'] = '%d/%m/%Y'
                    fd['constraints'] = {'minimum': '01/01/0001', 'maximum': '31/12/9999'}
                elif fd['type'] == 'datetime':
                    fd['constraints'] = {'maximum': '9999-12-31T23:59:59Z'}
                elif fd.get('bareNumber') is False:
                    continue        # (a textual '-5' is read as 5 under bareNumber=false: no negative bounds as text)
                elif fd['type'] == 'number' and all(v == v and abs(v) != decimal.Decimal('Infinity') for v in vals):
                    fd['decimalChar'] = ','
                    fd['constraints'] = {'minimum': '-100000000000000000000,5'}
                elif fd['type'] == 'boolean':
                    fd['trueValues'], fd['falseValues'] = ['yes'], ['no']
                    fd['constraints'] = {'enum': ['yes', 'no']}
                elif fd['type'] == 'integer' and fd['name'] != 'rowid':
                    fd['constraints'] = {'minimum': str(-2 ** 80)}
            if any('constraints' in fd for fd in fields):
                cov['config']['lexical_constraint_values'] = 1
        res.append({'name': 'res%d' % r, 'fields': fields, 'rows': rows, 'pk': pk, 'missing': missing})
    if filehash and len(res) > 1 and boot.rng(case['seed'], 'C03', 'twins', case['idx']).random() < 0.5:
        # two resources whose written files are byte-identical (same hash, different names)
        res[1] = dict(copy.deepcopy(res[0]), name=res[1]['name'])
        cov['config']['filehash/two_resources_with_identical_content'] = 1
    out = 'out_pkg' if kind == 'path' else 'out.zip'
    opts = {'format': fmt}
    if filehash:
        opts['add_filehash_to_path'] = True
    if tfp:
        opts['temporal_format_property'] = 'outputFormat'
    cfg = {'format': fmt, 'kind': kind, 'add_filehash_to_path': filehash, 'temporal_format_property': tfp,
           'strip': strip, 'resources': [{'name': r['name'], 'fields': r['fields'], 'pk': r['pk'],
                                          'nrows': len(r['rows']), 'missingValues': r['missing']} for r in res]}
    cov['config']['%s/%s%s%s' % (fmt, kind, '/filehash' if filehash else '', '/tfp' if tfp else '')] = 1
    steps = []
    foreign = rng.random() < 0.3
    cfg['incoming_dialect'] = foreign
    for r in res:
        steps.append(lab.source(r['name'], r['fields'], r['rows']))
        if r['pk']:
            steps.append(d.set_primary_key(r['pk'], resources=r['name']))
        if r.get('missing') is not None:
            steps.append(d.update_schema(r['name'], missingValues=list(r['missing'])))
        if foreign:
            # the resource arrives describing ANOTHER serialisation (as if loaded from a ';'-delimited latin-1 file):
            # what the dumper records must describe what it writes
            steps.append(d.update_resource(r['name'], format=rng.choice(['csv', 'tsv', 'xlsx']), encoding='latin-1',
                                           mediatype='text/tab-separated-values',
                                           dialect={'delimiter': ';', 'quoteChar': "'", 'doubleQuote': False,
                                                    'lineTerminator': '\n', 'skipInitialSpace': True, 'header': True}))
    if foreign:
        cov['config']['incoming_dialect'] = 1
    if len(res) > 1 and boot.rng(case['seed'], 'C03', 'stem', case['idx']).random() < 0.2:
        # resources whose paths differ only in their extension (data/t.csv, data/t.tsv, data/t.json): each still gets a
        # data file of its own
        for r, ext in zip(res, ['.csv', '.tsv', '.json']):
            steps.append(d.update_resource(r['name'], path='data/t' + ext))
        cov['config']['paths_differ_only_in_extension'] = 1
        cfg['paths_differ_only_in_extension'] = True
    steps.append(d.dump_to_path(out, **opts) if kind == 'path' else d.dump_to_zip(out, **opts))
    dumped = lab.run(steps, validate=True)
    sample = {'config': cfg, 'rows': gen.render(res[0]['rows'][:3], 600)}

    blank_names = [fd['name'] for r in res for fd in r['fields'] if fd['name'] != fd['name'].strip()]

    def add(kind_, msg, mech):
        if blank_names and mech.startswith(('load_failed/CastError', 'load/row_keys')):
            # the reader underneath load() strips header cells / object keys: explained exactly when the names it reports
            # are the schema's names without their outer blanks
            if kind_ == 'load_failed' and "don't match schema field names" in msg and \
                    any(repr([fd['name'].strip() for fd in r['fields']]) in msg for r in res):
                mech = 'field_name_outer_blank_stripped'
            elif kind_ == 'row_keys' and any(repr(sorted([fd['name'] for fd in r['fields']] +
                                                         sorted({n.strip() for n in blank_names
                                                                 if n in [fd['name'] for fd in r['fields']]}))) in msg
                                           for r in res):
                mech = 'field_name_outer_blank_stripped'
        viol.append({'kind': kind_, 'mech': mech, 'format': fmt, 'msg': msg, 'config': cfg})
    if not dumped.ok:
        add('dump_failed', '%r: dumping failed: %s' % (cfg, dumped.errstr()), 'dump/' + fmt)
        return dict(nontrivial=False, violations=viol, cov=cov, counters=counters)

    def compare(side, got_res, counter):
        """got_res: list of (descriptor, rows) in package order."""
        if [g[0]['name'] for g in got_res] != [r['name'] for r in res]:
            add('resources', '%s: resources %r expected %r' % (side, [g[0]['name'] for g in got_res],
                                                              [r['name'] for r in res]), side + '/resources')
            return
        for r, (gdesc, grows) in zip(res, got_res):
            gf = [(f['name'], f['type']) for f in gdesc['schema']['fields']]
            ef = [(f['name'], f['type']) for f in r['fields']]
            if gf != ef:
                add('schema', '%s: %s fields %r expected %r' % (side, r['name'], gf, ef), side + '/schema')
                continue
            if (gdesc['schema'].get('primaryKey') or None) != r['pk']:
                add('primary_key', '%s: %s primaryKey %r expected %r'
                    % (side, r['name'], gdesc['schema'].get('primaryKey'), r['pk']), side + '/primary_key')
            if len(grows) != len(r['rows']):
                add('row_count', '%s: %s %d rows expected %d' % (side, r['name'], len(grows), len(r['rows'])),
                    side + '/row_count/' + fmt)
                continue
            seen = set()
            for i, (er, gr) in enumerate(zip(r['rows'], grows)):
                if set(gr) != set(er):
                    add('row_keys', '%s: %s row %d keys %r expected %r' % (side, r['name'], i, sorted(gr), sorted(er)),
                        side + '/row_keys')
                    break
                for fd in r['fields']:
                    n, t = fd['name'], fd['type']
                    ev, gv = er[n], gr[n]
                    if side == 'load' and strip and isinstance(ev, str):
                        ev = ev.strip()
                    counters[counter] += 1
                    if cell_eq(ev, gv, fmt, t):
                        continue
                    if ev == '' and gv is None and (not r['missing'] or '' in r['missing']):
                        # (only where '' is the marker of null: declared by the schema itself - the Table Schema default -
                        # or, with an EMPTY list of markers, the one the dumper has to record to write nulls at all)
                        mech = 'empty_string_reads_null'
                    elif isinstance(ev, str) and isinstance(gv, str) and '\r\n' in ev and \
                            gv == ev.replace('\r\n', '\n'):
                        mech = 'crlf_in_cell_reads_lf'
                    else:
                        mech = '%s/%s/%s' % (side, fmt, t)
                    if (mech, side) not in seen:
                        seen.add((mech, side))
                        add('cell', '%s: %s row %d field %r (%s): got %r expected %r; schema order %r'
                            % (side, r['name'], i, n, t, gv, ev, [f['name'] for f in r['fields']]), mech)
                        viol[-1]['side'] = side

    # ---- side B: independent decoder on the written bytes ---------------------------------------
    w = iolab.Written(out, is_zip=(kind == 'zip'))
    try:
        wdesc = w.descriptor()
        got_b = []
        decode_failed = False
        for rd in wdesc['resources']:
            if not w.exists(rd['path']):
                add('missing_file', 'decoder: recorded path %r not among written files %r'
                    % (rd['path'], w.listing()), 'recorded_path_not_written' + ('/filehash' if filehash else ''))
                decode_failed = True
                continue
            try:
                got_b.append((rd, iolab.decode(rd, w.read(rd['path']))))
            except Exception as e:
                add('decode_error', 'decoder: %s: %s: %s' % (rd['path'], type(e).__name__, str(e)[:300]),
                    'decoder/%s/%s' % (fmt, type(e).__name__))
                decode_failed = True
        if not decode_failed:
            compare('decoder', got_b, 'cells_compared_decoder')
    finally:
        w.close()
    # ---- side A: the real load() ---------------------------------------------------------------
    if kind == 'path':
        ld = d.load(os.path.join(out, 'datapackage.json'), strip=strip)
    else:
        ld = d.load(out, format='datapackage', strip=strip)
    loaded = lab.run([ld], validate=True)
    if not loaded.ok:
        add('load_failed', 'load of the written package failed: %s' % loaded.errstr(),
            'load_failed/%s%s' % (type(getattr(loaded.exc, 'cause', loaded.exc)).__name__,
                                  '/filehash' if filehash else ''))
    elif loaded.swallowed or len(loaded.results) != len(loaded.dp['resources']):
        # results() returned normally but an error was logged and rows/resources are missing
        msg = (loaded.swallowed or ['(nothing logged)'])[0]
        nonalpha = any([f['name'] for f in r['fields']] != sorted(f['name'] for f in r['fields']) for r in res)
        mech = 'load_error_swallowed/' + fmt
        if fmt == 'json' and nonalpha:
            mech = 'json_sorted_keys_read_positionally'
        add('load_truncated', 'load of the written package logged an error and returned %d of %d resources: %s; '
            'schema order %r' % (len(loaded.results), len(loaded.dp['resources']), msg[:300],
                                 [[f['name'] for f in r['fields']] for r in res]), mech)
    else:
        compare('load', list(zip(loaded.dp['resources'], loaded.results)), 'cells_compared_load')
    types_seen = {fd['type'] for r in res for fd in r['fields']
                  if any(row.get(fd['name']) is not None for row in r['rows'])}
    nontrivial = len(types_seen) >= 3 and counters['cells_compared_decoder'] > 0 and \
        counters['cells_compared_load'] > 0
    return dict(nontrivial=nontrivial, violations=viol, cov=cov, counters=counters, sample=sample)
