"""C08 - remains of an interrupted checkpoint save end up in the checkpoint committed by the retry.

A job builds a checkpoint from two resources.  The step that enriches the second resource
fails on the first attempt (service outage), so the job retries - the usual retry loop, in
the same process.  The first resource is live data, i.e. it is not byte-identical between
the attempts.  The retry succeeds and commits the checkpoint.

Expected (C08): the failed attempt leaves no trace; the committed checkpoint is complete and
the next run that picks it up returns exactly what the successful attempt produced.
Observed: the failed attempt's file handle is never closed and still holds an unflushed
resource separator; when it is finally flushed (garbage collection / interpreter exit) the
byte is written into the file that has meanwhile been renamed to stream.ndjson, cutting a row
of the committed checkpoint in two.  Every later run picks that checkpoint up and fails.
"""
import os
import shutil
import subprocess
import sys
import tempfile

from dataflows import Flow, checkpoint

NAME = 'quotes'


def live_quotes(attempt):
    # live data: differs from one attempt to the next
    if attempt == 1:
        return [{'symbol': 'AAA', 'price': 9.5}, {'symbol': 'BBB', 'price': 7.25}]
    return [{'symbol': 'AAA', 'price': 10.125}, {'symbol': 'BBB', 'price': 7.375},
            {'symbol': 'CCC', 'price': 101.5}]


def reference():
    return [{'symbol': s, 'sector': 'tech'} for s in ('AAA', 'BBB', 'CCC')]


def enrich(attempt):
    def step(rows):
        for row in rows:
            if 'sector' in row and attempt == 1:
                raise IOError('enrichment service unavailable')
            yield row
    return step


def job():
    """the retry loop (runs in a child process)"""
    for attempt in (1, 2):
        try:
            results = Flow(
                live_quotes(attempt), reference(), enrich(attempt), checkpoint(NAME),
            ).results()[0]
            print('attempt %d succeeded: %r rows' % (attempt, [len(r) for r in results]))
            return 0
        except Exception as e:
            print('attempt %d failed: %s' % (attempt, e))
    return 2


def main():
    workdir = tempfile.mkdtemp()
    os.chdir(workdir)
    try:
        rc = subprocess.call([sys.executable, os.path.abspath(__file__), 'job'])
        assert rc == 0, 'the retry was supposed to succeed'
        files = os.listdir(os.path.join('.checkpoints', NAME))
        print('files in the checkpoint directory after the job:', files)
        expected = [live_quotes(2), reference()]
        print('EXPECTED from the next run:', expected)
        try:
            observed = Flow(checkpoint(NAME)).results()[0]
        except Exception as e:
            observed = 'ERROR: %s' % e
        print('OBSERVED from the next run:', observed)
        if observed != expected:
            with open(os.path.join('.checkpoints', NAME, 'stream.ndjson')) as f:
                print('committed checkpoint, data lines:')
                for line in f.read().split('\n')[1:]:
                    print('   %r' % line)
            print('VIOLATION: the committed checkpoint carries a byte written by the interrupted save')
            return 1
        print('ok')
        return 0
    finally:
        os.chdir('/')
        shutil.rmtree(workdir, ignore_errors=True)


if __name__ == '__main__':
    if sys.argv[1:] == ['job']:
        sys.exit(job())
    sys.exit(main())
