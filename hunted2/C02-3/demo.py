"""C02: concatenate copies the 'required' constraint of a source field to the target and then fills that
field with nulls for the resources that do not have it."""
import sys

from dataflows import Flow, set_type, concatenate


def sources():
    return [
        [{'id': 1, 'email': 'a@example.com'}, {'id': 2, 'email': 'b@example.com'}],   # res_1: has 'email'
        [{'id': 3}, {'id': 4}],                                                            # res_2: no such column
        # a valid descriptor: in res_1 the e-mail address is mandatory (and every row has one)
        set_type('email', resources='res_1', type='string', constraints={'required': True}),
    ]


# control: the inputs conform to their schemas
results, dp, _ = Flow(*sources()).results()
print('inputs valid        :', results)

flow = Flow(*sources(), concatenate({'id': [], 'email': []}))
results, dp, _ = flow.results(on_error=None)     # without the final validation, to look at what is emitted
field = [f for f in dp.descriptor['resources'][0]['schema']['fields'] if f['name'] == 'email'][0]
print('concatenated field  :', field)
print('concatenated rows   :', results[0])

failure = None
try:
    Flow(*sources(), concatenate({'id': [], 'email': []})).results()
except Exception as e:
    failure = e

print('EXPECTED: the rows concatenate emits are valid for the schema concatenate declares; results() passes validation')
nulls = [r for r in results[0] if r.get('email') is None]
if failure is not None or (field.get('constraints', {}).get('required') and nulls):
    print('OBSERVED: target field is declared required=True, yet concatenate itself emits %d rows with email=None; '
          'results() -> %s' % (len(nulls), 'ok' if failure is None else 'FAILS: ' + ' '.join(str(failure).split())[:150]))
    sys.exit(1)
print('OBSERVED: rows and schema agree')
sys.exit(0)
