"""C14: the field-name pattern of set_type also captures the field whose name
is the requested name plus a trailing newline.

set_type compiles '^(?:NAME)$' and uses .match(); in Python '$' also matches
just before a trailing '\n'.  So set_type('a', ..., regex=False) (a literal,
escaped name!) re-types and checks the *other* field 'a\n' as well.  Its
perfectly valid string values are then 'uncastable': the run is aborted, or the
rows are dropped / the cells nulled depending on the policy - although the
only field the user asked to check ('a') holds valid values in every row.
"""
import sys

from dataflows import Flow, set_type, ValidationError
from dataflows.base.schema_validator import drop, clear

OTHER = 'a\n'          # a different field (e.g. a header cell that kept its line break)


def data():
    return [{'a': '1', OTHER: 'hello'}, {'a': '2', OTHER: 'world'}]


expected_rows = [{'a': 1, OTHER: 'hello'}, {'a': 2, OTHER: 'world'}]
expected_types = {'a': 'integer', OTHER: 'string'}

violations = 0
for pname, policy in [('raise', None), ('drop', drop), ('clear', clear)]:
    for regex in (False, True):
        try:
            results, dp, _ = Flow(data(), set_type('a', type='integer', regex=regex, on_error=policy)
                                  ).results(on_error=None)
            rows = results[0]
            types = {f['name']: f['type'] for f in dp.descriptor['resources'][0]['schema']['fields']}
            observed = 'rows=%r types=%r' % (rows, types)
            ok = rows == expected_rows and types == expected_types
        except Exception as e:  # noqa
            cause = getattr(e, 'cause', e)
            observed = '%s row=%r index=%r' % (type(cause).__name__, getattr(cause, 'row', None),
                                               getattr(cause, 'index', None))
            ok = False
        print("set_type('a', type='integer', regex=%s, on_error=%s)" % (regex, pname))
        print('   expected: rows=%r types=%r' % (expected_rows, expected_types))
        print('   observed: %s%s' % (observed, '' if ok else '   <-- VIOLATION'))
        violations += not ok

if violations:
    print("\nVIOLATION: field %r was never selected, all values of field 'a' are valid, yet rows were "
          "rejected / dropped / altered in %d configurations." % (OTHER, violations))
    sys.exit(1)
print('OK')
