"""C01: the outcome of a flow must not depend on whether it is obtained through results(), process()
or datastream().  A Flow over re-iterable data (no load) that contains set_type(..., transform=f)
gives a different outcome every time it is run: the set_type object remembers the matched field names
of every earlier run, so the n-th run applies the transform n times to every cell.  Calling
flow.process() and then flow.results() therefore returns rows that neither process() produced nor a
step-by-step evaluation yields."""
import sys

from dataflows import Flow, set_type, DataStream, ResourceWrapper
from datapackage import Package


def data():
    return [{'name': 'a', 'price': 10}, {'name': 'b', 'price': 20}]


def add_vat(value):
    return value + 1


def make_step():
    return set_type('price', type='integer', transform=add_vat, resources=None)


def step_by_step():
    first = Flow(data()).datastream()
    rows = [list(r) for r in first.res_iter]
    dp = Package(first.dp.descriptor)
    materialised = DataStream(dp, [ResourceWrapper(res, iter(r)) for res, r in zip(dp.resources, rows)])
    out = Flow(make_step()).datastream(materialised)
    return [list(r) for r in out.res_iter]


def main():
    expected = step_by_step()

    flow = Flow(data(), make_step())
    seen_by_process = []

    def spy(rows):
        for row in rows:
            seen_by_process.append(dict(row))
            yield row

    spied = Flow(flow, spy)
    spied.process()                       # outcome through process()
    through_results = flow.results()[0]   # outcome through results(), same Flow object
    through_datastream = [list(r) for r in flow.datastream().res_iter]

    print('steps: [{price:10},{price:20}], set_type("price", type="integer", transform=lambda v: v + 1)')
    print('expected (one step at a time)      :', expected)
    print('rows that passed during process()  :', [seen_by_process])
    print('then results() on the same Flow    :', through_results)
    print('then datastream() on the same Flow :', through_datastream)
    if through_results == expected and through_datastream == expected and [seen_by_process] == expected:
        print('OK: the outcome does not depend on how it is obtained')
        return 0
    print('VIOLATION: every further run of the flow applies the transform once more')
    return 1


if __name__ == '__main__':
    sys.exit(main())
