"""sort_rows with a field-list key: the per-field key parts are concatenated with
no separator, so a text field that is a prefix of another one is ordered by
whatever happens to follow it (the next field), not lexicographically."""
import sys
from dataflows import Flow, sort_rows

failed = False


def run(rows, key, **kw):
    return Flow(rows, sort_rows(key, **kw)).results()[0][0]


# case 1: text field followed by a numeric field
rows = [
    {'name': 'a', 'n': 5},
    {'name': 'ab', 'n': 1},
    {'name': 'aa', 'n': 1},
]
expected = sorted(rows, key=lambda r: (r['name'], r['n']))
for reverse in (False, True):
    exp = expected[::-1] if reverse else expected
    observed = run(rows, ['name', 'n'], reverse=reverse)
    print("key=['name','n'] reverse=%s" % reverse)
    print('  expected:', [(r['name'], r['n']) for r in exp])
    print('  observed:', [(r['name'], r['n']) for r in observed])
    if observed != exp:
        failed = True

# case 2: two text fields, first one prefix-related
rows = [
    {'last': 'li', 'first': 'zoe'},
    {'last': 'lin', 'first': 'adam'},
]
expected = sorted(rows, key=lambda r: (r['last'], r['first']))
observed = run(rows, ['last', 'first'])
print("key=['last','first']")
print('  expected:', [(r['last'], r['first']) for r in expected])
print('  observed:', [(r['last'], r['first']) for r in observed])
if observed != expected:
    failed = True

# sanity: a single text field key orders the same names correctly
single = [r['last'] for r in run(rows, ['last'])]
print("key=['last'] ->", single)

if failed:
    print('VIOLATION: rows are not in ascending (lexicographic / numeric) order of the key fields')
    sys.exit(1)
print('ok')
