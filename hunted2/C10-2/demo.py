"""C10: a selector that selects no resource ('zzz', [] ...) is a no-op for every selector-taking step,
except concatenate: it declares the target resource but never yields a row stream for it, so the
whole flow dies with "iter() returned non-iterator of type 'NoneType'"."""
import sys

from dataflows import Flow, concatenate, delete_resource, filter_rows, sort_rows, update_resource


def base():
    return [
        [{'id': i, 'v': 'x%d' % i} for i in range(3)],
        update_resource(-1, name='a'),
        [{'id': i, 'v': 'y%d' % i} for i in range(3)],
        update_resource(-1, name='a.b'),
    ]


def run(*steps):
    results, dp, _ = Flow(*base(), *steps).results()
    return [(res['name'], rows) for res, rows in zip(dp.descriptor['resources'], results)]


reference = run()
problems = []
for selector in ('zzz', 'a.', [], ['ab']):
    # the other steps: nothing is selected, nothing changes
    for name, step in (('filter_rows', filter_rows(lambda row: False, resources=selector)),
                       ('sort_rows', sort_rows('{v}', reverse=True, resources=selector)),
                       ('delete_resource', delete_resource(selector))):
        assert run(step) == reference, (name, selector)
    try:
        got = run(concatenate(dict(id=[], v=[]), target=dict(name='target', path='target.csv'), resources=selector))
    except Exception as e:
        problems.append('concatenate(resources=%r) raised %s' % (selector, ' '.join(str(e).split())))
        continue
    untouched = [item for item in got if item[0] != 'target']
    rest = [item for item in got if item[0] == 'target']
    if untouched != reference or rest not in ([], [('target', [])]):
        problems.append('concatenate(resources=%r) gave %r' % (selector, got))

print('EXPECTED: with a selector that matches no resource name, concatenate leaves "a" and "a.b" as they are')
print('          (adding at most an empty target resource), like filter_rows / sort_rows / delete_resource do')
if problems:
    print('OBSERVED:')
    for p in problems:
        print('   -', p)
    sys.exit(1)
print('OBSERVED: as expected')
