"""C03: temporal_format_property + a date / datetime before the year 1000: the value is written with an
unpadded year ('02/01/999') which the format recorded in the descriptor ('%d/%m/%Y') cannot parse, so the
dump cannot be loaded back.  Without temporal_format_property the same values round-trip (the default
serialiser pads the year with %04Y)."""
import datetime
import json
import os
import shutil
import sys
import tempfile

from dataflows import Flow, load, dump_to_path, update_resource, validate

ROWS = [dict(id=1, d=datetime.date(2020, 1, 2), dt=datetime.datetime(2020, 1, 2, 3, 4, 5)),
        dict(id=2, d=datetime.date(999, 1, 2), dt=datetime.datetime(476, 9, 4, 12, 0, 0))]


def schema(with_output_format):
    extra_d = dict(outputFormat='%d/%m/%Y') if with_output_format else {}
    extra_dt = dict(outputFormat='%d/%m/%Y %H:%M:%S') if with_output_format else {}
    return dict(fields=[dict(name='id', type='integer'),
                        dict(name='d', type='date', **extra_d),
                        dict(name='dt', type='datetime', **extra_dt)])


def round_trip(out, fmt, with_output_format):
    options = dict(temporal_format_property='outputFormat') if with_output_format else {}
    Flow((dict(r) for r in ROWS),
         update_resource(-1, name='res', path='res.csv', schema=schema(with_output_format)),
         validate(),
         dump_to_path(out, format=fmt, **options)).process()
    fields = json.load(open(os.path.join(out, 'datapackage.json')))['resources'][0]['schema']['fields']
    print('  recorded formats:', [f['format'] for f in fields[1:]])
    try:
        return Flow(load(os.path.join(out, 'datapackage.json'))).results()[0][0]
    except Exception as e:
        return 'load failed: ' + ' '.join(str(e).split())[:160]


def main():
    failures = 0
    tmp = tempfile.mkdtemp(prefix='c03demo')
    try:
        n = 0
        for fmt in ('csv', 'json'):
            for with_output_format in (False, True):
                n += 1
                print('format=%s, temporal_format_property=%s' % (fmt, 'outputFormat' if with_output_format else None))
                back = round_trip(os.path.join(tmp, str(n)), fmt, with_output_format)
                print('  expected:', ROWS)
                print('  observed:', back)
                failures += back != ROWS
    finally:
        shutil.rmtree(tmp, ignore_errors=True)
    if failures:
        print('VIOLATION: %d round trips of dates before the year 1000 failed' % failures)
        return 1
    print('ok')
    return 0


if __name__ == '__main__':
    sys.exit(main())
