"""C14: a Flow containing validate() can only be run once.

validate.process_datapackage() overwrites self.resources (the user's
`resources` argument) with a ResourceMatcher.  On the second run of the very
same Flow / validate object, ResourceMatcher(<ResourceMatcher>, dp) hits
`assert isinstance(self.resources, list)` and the run aborts with an
AssertionError although every row is valid.  No load() is involved: the source
is a plain, re-iterable list (set_type in the same position re-runs fine).
"""
import sys

from dataflows import Flow, validate, set_type
from dataflows.base.schema_validator import drop

data = [{'a': 1, 'b': 'x'}, {'a': 2, 'b': 'y'}, {'a': 3, 'b': 'z'}]
expected = [dict(r) for r in data]

violations = 0
for label, make in [
    ('validate()', lambda: validate()),
    ("validate(resources='res_1', on_error=drop)", lambda: validate(resources='res_1', on_error=drop)),
    ("set_type + validate()", None),
]:
    if make is None:
        flow = Flow([dict(r) for r in data], set_type('a', type='integer'), validate())
    else:
        flow = Flow([dict(r) for r in data], make())
    for run in (1, 2):
        try:
            rows = flow.results(on_error=None)[0][0]
            observed = rows
            ok = rows == expected
        except Exception as e:  # noqa
            observed = '%s: %r' % (type(e).__name__, getattr(e, 'cause', e))
            ok = False
        print('%-45s run %d: expected %r' % (label, run, expected))
        print('%-45s        observed %r' % ('', observed))
        if not ok:
            violations += 1

if violations:
    print('\nVIOLATION: all rows are valid, yet %d run(s) did not emit them unchanged '
          '(validate() aborts with AssertionError when its Flow is run again).' % violations)
    sys.exit(1)
print('OK')
