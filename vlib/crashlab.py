"""crash-lab: enumerate every I/O event of one run as a crash point.

The harness forks; the child rebinds the module-level names through which the checkpoint writer
(dataflows.processors.stream) and the path dumper (file_dumper / to_path) reach the file system to
proxies, so that every open / write / flush / close / rename / makedirs / chunk of a copy / unlink /
chmod is an EVENT. A first child records the trace; child k then calls os._exit(137) right BEFORE
event k (bytes already handed to the OS stay, user-space buffers are lost: the effect of SIGKILL) or
raises OSError there. A sys.addaudithook fallback counts file-system events the shims did not see.
"""
import errno
import json
import os
import shutil as _shutil
import sys
import tempfile as _tempfile
import types

from . import boot


class Plan:
    def __init__(self, mode='record', at=None):
        self.mode, self.at = mode, at          # record | kill | raise
        self.n = 0
        self.trace = []
        self.in_shim = 0
        self.unshimmed = []
        self.fired = None
        self.on_event = None       # optional online monitor called right before every event
        self.raised_exc = None     # the OSError instance raised in 'raise' mode
        self.fired_in_chain_build = False
        self.sticky = None

    def ev(self, kind, detail=''):
        self.n += 1
        if self.on_event is not None and not self.in_shim:
            self.in_shim += 1
            try:
                self.on_event(self.n, kind, detail)
            finally:
                self.in_shim -= 1
        if self.mode == 'record':
            self.trace.append((kind, str(detail)[-60:]))
        if self.mode == 'raise_persistent' and self.sticky and self.sticky in str(detail):
            # the fault is persistent: every later operation on the same file fails as well (retries do not help)
            raise OSError(errno.EIO, 'injected persistent I/O error before %s' % kind)
        if self.at is not None and self.n == self.at and self.fired is None:
            self.fired = (kind, str(detail)[-60:])
            if self.mode == 'kill':
                os._exit(137)
            if self.mode == 'raise_persistent':
                base = os.path.basename(str(detail).split('[')[0].split('->')[0])
                self.sticky = base or None
                self.raised_exc = OSError(errno.EIO, 'injected persistent I/O error before %s' % kind)
                raise self.raised_exc
            if self.mode == 'raise':
                fr = sys._getframe(1)
                while fr is not None:       # was the flow still being chained (step construction)?
                    if fr.f_code.co_name in ('_chain', '_preprocess_chain', '__init__'):
                        self.fired_in_chain_build = True
                        break
                    fr = fr.f_back
                self.raised_exc = OSError(errno.EIO, 'injected I/O error before %s' % kind)
                raise self.raised_exc


class FileProxy:
    def __init__(self, f, plan, label):
        self.__dict__['_f'] = f
        self.__dict__['_plan'] = plan
        self.__dict__['_label'] = label

    def write(self, data):
        self._plan.ev('write', '%s[%d]' % (self._label, len(data)))
        return self._f.write(data)

    def flush(self):
        self._plan.ev('flush', self._label)
        return self._f.flush()

    def close(self):
        self._plan.ev('close', self._label)
        return self._f.close()

    def __getattr__(self, name):
        return getattr(self._f, name)

    def __setattr__(self, name, value):
        setattr(self._f, name, value)

    def __iter__(self):
        return iter(self._f)

    def __enter__(self):
        return self

    def __exit__(self, *a):
        self.close()


def install(plan, scratch):
    """Rebind module-level names of the writer modules to event proxies (in THIS process)."""
    st = boot.module('dataflows.processors.stream')
    fd = boot.module('dataflows.processors.dumpers.file_dumper')
    tp = boot.module('dataflows.processors.dumpers.to_path')
    for m in (st, fd, tp):
        assert isinstance(m, types.ModuleType)

    def shim(fn):
        def wrapped(*a, **kw):
            plan.in_shim += 1
            try:
                return fn(*a, **kw)
            finally:
                plan.in_shim -= 1
        return wrapped

    def p_open(path, mode='r', *a, **kw):
        if any(c in mode for c in 'wax+'):
            plan.ev('open', path)
            return FileProxy(shim(open)(path, mode, *a, **kw), plan, os.path.basename(str(path)))
        return open(path, mode, *a, **kw)

    class OsProxy:
        path = os.path

        def __getattr__(self, name):
            return getattr(os, name)

        def makedirs(self, p, *a, **kw):
            plan.ev('makedirs', p)
            return shim(os.makedirs)(p, *a, **kw)

        def rename(self, a, b):
            plan.ev('rename', '%s->%s' % (os.path.basename(a), os.path.basename(b)))
            return shim(os.rename)(a, b)

        def unlink(self, p):
            plan.ev('unlink', p)
            return shim(os.unlink)(p)

        def chmod(self, p, m):
            plan.ev('chmod', p)
            return shim(os.chmod)(p, m)

    class TempfileProxy:
        def __getattr__(self, name):
            return getattr(_tempfile, name)

        def NamedTemporaryFile(self, *a, **kw):
            plan.ev('mktemp', '')
            f = shim(_tempfile.NamedTemporaryFile)(*a, **kw)
            return FileProxy(f, plan, 'tmp:' + os.path.basename(f.name)[:4])

    class ShutilProxy:
        def __getattr__(self, name):
            return getattr(_shutil, name)

        def copy(self, src, dst):
            # chunked copy: "mid-copy" is a crash point (shutil.copy is not atomic either)
            plan.ev('copy_open', dst)
            plan.in_shim += 1
            try:
                with open(src, 'rb') as fi:
                    data = fi.read()
                fo = open(dst, 'wb', buffering=0)
            finally:
                plan.in_shim -= 1
            n = max(1, len(data) // 3)
            chunks = [data[i:i + n] for i in range(0, len(data), n)] or [b'']
            for c in chunks:
                plan.ev('copy_chunk', '%s[%d]' % (os.path.basename(dst), len(c)))
                fo.write(c)
            plan.ev('copy_close', dst)
            fo.close()
            plan.ev('copy_mode', dst)
            shim(_shutil.copymode)(src, dst)
            return dst
    osp = OsProxy()
    st.open = p_open
    st.os = osp
    fd.os = osp
    fd.tempfile = TempfileProxy()
    tp.os = osp
    tp.shutil = ShutilProxy()

    def audit(event, args):
        # file-system events that did not come through a shim (code paths the shims do not know, other threads):
        # they are crash points too - coarser (no per-write granularity) but nothing escapes the enumeration
        if plan.in_shim:
            return
        hit = None
        try:
            if event == 'open':
                path, mode, flags = args
                if isinstance(path, str) and isinstance(flags, int) and flags & (os.O_WRONLY | os.O_RDWR) \
                        and os.path.abspath(path).startswith(scratch) and '/child_tmp/' not in path \
                        and not path.endswith('rep.json'):
                    hit = ('audit:open', path)
            elif event in ('os.rename', 'os.remove', 'os.mkdir', 'os.rmdir', 'os.chmod', 'shutil.copyfile'):
                if any(isinstance(a, str) and os.path.abspath(a).startswith(scratch) and '/child_tmp/' not in a
                       for a in args):
                    hit = ('audit:' + event, str(args[0]))
        except Exception:
            hit = None
        if hit is not None:
            plan.unshimmed.append(hit)
            plan.ev(hit[0], hit[1])
    sys.addaudithook(audit)


def in_child(fn, report_path, timeout=120):
    """Run fn() in a forked child; fn returns a JSON-able report (written to report_path).
    -> (exit status, report | None). Status 137 = killed by the plan."""
    sys.stdout.flush()
    sys.stderr.flush()
    pid = os.fork()
    if pid == 0:
        code = 0
        # temp files of a killed child must not be left in /tmp: keep them inside the case's scratch directory
        try:
            td = os.path.join(os.path.dirname(os.path.abspath(report_path)), 'child_tmp')
            os.makedirs(td, exist_ok=True)
            _tempfile.tempdir = td
        except Exception:
            pass
        try:
            try:
                rep = fn()
            except SystemExit:
                raise
            except BaseException as e:      # report, never propagate into the parent's stack
                rep = {'child_exception': '%s: %s' % (type(e).__name__, str(e)[:300])}
            with open(report_path, 'w') as f:
                json.dump(rep, f, default=repr)
        except BaseException:
            code = 3
        finally:
            os._exit(code)
    import time
    t0 = time.time()
    while True:
        wpid, status = os.waitpid(pid, os.WNOHANG)
        if wpid:
            break
        if time.time() - t0 > timeout:
            os.kill(pid, 9)
            os.waitpid(pid, 0)
            return 'timeout', None
        time.sleep(0.002)
    code = os.waitstatus_to_exitcode(status)
    rep = None
    if os.path.exists(report_path):
        try:
            rep = json.load(open(report_path))
        except Exception:
            rep = None
        os.unlink(report_path)
    return code, rep
