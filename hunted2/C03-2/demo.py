"""C03: with a schema that declares `missingValues: []` a CSV dump writes nulls as empty cells although the
recorded descriptor declares no missing-value marker at all: the file does not decode to the dumped values
(null integer -> cast error, null string -> '')."""
import csv
import json
import os
import shutil
import sys
import tempfile

from dataflows import Flow, load, dump_to_path, dump_to_zip, update_resource, validate

ROWS = [dict(id=1, qty=5, note='five'), dict(id=2, qty=None, note=None)]
SCHEMA = dict(fields=[dict(name='id', type='integer'), dict(name='qty', type='integer'),
                      dict(name='note', type='string')],
              missingValues=[])      # valid Table Schema: "no string stands for null"


def flow(*steps):
    return Flow((dict(r) for r in ROWS), update_resource(-1, name='res', path='res.csv', schema=SCHEMA),
                validate(), *steps)


def main():
    failures = 0
    tmp = tempfile.mkdtemp(prefix='c03demo')
    try:
        # 1. the data conform to the schema and are what enters the dumper
        entered = flow().results()[0][0]
        print('rows entering the dumper:', entered)
        assert entered == ROWS

        # 2. dump_to_path / dump_to_zip, then load()
        for label, dumper, source, kw in [
            ('dump_to_path', lambda: dump_to_path(os.path.join(tmp, 'p')), os.path.join(tmp, 'p', 'datapackage.json'), {}),
            ('dump_to_zip', lambda: dump_to_zip(os.path.join(tmp, 'z.zip')), os.path.join(tmp, 'z.zip'), dict(format='datapackage')),
        ]:
            flow(dumper()).process()
            print(label, '-> load()')
            print('  expected:', ROWS)
            try:
                back = Flow(load(source, **kw)).results()[0][0]
                print('  observed:', back)
                failures += back != ROWS
            except Exception as e:
                print('  observed: load failed:', str(e).strip().splitlines()[0][:160])
                failures += 1

        # 3. decode the written file with nothing but the recorded descriptor
        descriptor = json.load(open(os.path.join(tmp, 'p', 'datapackage.json')))['resources'][0]
        missing = descriptor['schema']['missingValues']
        with open(os.path.join(tmp, 'p', descriptor['path']), newline='', encoding=descriptor['encoding']) as f:
            cells = list(csv.reader(f, delimiter=descriptor['dialect']['delimiter']))[2]
        print('recorded missingValues: %r; cells written for the row with nulls: %r' % (missing, cells))
        print('  expected: the null cells hold a marker listed in the recorded missingValues')
        undeclared = [c for c in cells[1:] if c not in missing]
        print('  observed: %d null cells hold %r, which the descriptor does not declare as missing'
              % (len(undeclared), undeclared[0] if undeclared else None))
        failures += bool(undeclared)
    finally:
        shutil.rmtree(tmp, ignore_errors=True)
    if failures:
        print('VIOLATION: nulls of a missingValues=[] table do not survive a CSV dump')
        return 1
    print('ok')
    return 0


if __name__ == '__main__':
    sys.exit(main())
