"""join: `mode` passed at the position PROCESSORS.md documents is ignored.

PROCESSORS.md documents the signature
    join(source_name, source_key, target_name, target_key, fields={}, mode='half-outer', source_delete=True)
The real signature has an extra, deprecated `full` parameter BEFORE `mode`, so the sixth
positional argument lands in `full`; any non-empty string is truthy, and join_aux then
overwrites the mode with 'half-outer'.
"""
import sys
import warnings

from dataflows import Flow, join

warnings.simplefilter('ignore')

source = [{'k': 'a', 'v': 1}, {'k': 'c', 'v': 3}]
target = [{'k': 'a'}, {'k': 'b'}]


def run(*args, **kwargs):
    return Flow(
        (dict(r) for r in source),
        (dict(r) for r in target),
        join('res_1', ['k'], 'res_2', ['k'], {'v': {}}, *args, **kwargs),
    ).results()[0][0]


failed = False
for mode, expected in [
    ('inner', [{'k': 'a', 'v': 1}]),
    ('full-outer', [{'k': 'a', 'v': 1}, {'k': 'b', 'v': None}, {'k': 'c', 'v': 3}]),
]:
    by_keyword = run(mode=mode)
    by_position = run(mode)          # sixth argument, as in the documented signature
    print('mode=%r' % mode)
    print('  expected                :', expected)
    print('  join(..., mode=%r)%s:' % (mode, ' ' * (12 - len(mode))), by_keyword)
    print('  join(..., fields, %r)%s:' % (mode, ' ' * (10 - len(mode))), by_position)
    if by_keyword != expected:
        print('  unexpected: keyword form is wrong too')
        failed = True
    if by_position != expected:
        print('  VIOLATION: a half-outer join was computed instead of %s' % mode)
        failed = True

sys.exit(1 if failed else 0)
