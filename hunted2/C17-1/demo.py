"""unpivot: an unpivot field whose `keys` map does not name every extra key yields rows that
lack that (declared) field altogether; the next filter_rows / deduplicate fails with KeyError."""
import sys
from dataflows import Flow, unpivot, filter_rows, deduplicate, set_primary_key

DATA = [
    {'id': 1, 'm_2000': 1, 'm_2001': 2, 'total': 3},
    {'id': 2, 'm_2000': 4, 'm_2001': 5, 'total': 9},
]


def make_unpivot():
    return unpivot(
        [
            {'name': r'm_(\d+)', 'keys': {'sex': 'm', 'year': r'\1'}},
            # the grand total has no year: the key is simply not given (-> null expected)
            {'name': 'total', 'keys': {'sex': 'all'}},
        ],
        [{'name': 'sex', 'type': 'string'}, {'name': 'year', 'type': 'year'}],
        {'name': 'value', 'type': 'integer'},
    )


bad = False
seen = []


def spy(rows):
    for row in rows:
        seen.append(dict(row))
        yield row


results, dp, _ = Flow(DATA, make_unpivot(), spy).results()
declared = [f['name'] for f in dp.descriptor['resources'][0]['schema']['fields']]
print('declared fields            :', declared)
incomplete = [r for r in seen if set(r) != set(declared)]
print('expected                   : every row emitted by unpivot holds all declared fields '
      '(year = None for the "total" rows)')
print('observed rows lacking a key:', incomplete)
if incomplete:
    bad = True

expected_dedup = [
    (1, 'm', 2000), (1, 'm', 2001), (1, 'all', None),
    (2, 'm', 2000), (2, 'm', 2001), (2, 'all', None),
]
for label, step, expected in [
    ('deduplicate on composite key (id, sex, year) with nulls',
     [set_primary_key(['id', 'sex', 'year']), deduplicate()], expected_dedup),
    ("filter_rows(not_equals=[{'year': None}])", [filter_rows(not_equals=[{'year': None}])],
     [k for k in expected_dedup if k[2] is not None]),
]:
    try:
        res = Flow(DATA, make_unpivot(), *step).results()[0][0]
        print(label, '->', [(r['id'], r['sex'], r['year']) for r in res])
    except Exception as e:
        print(label, '-> expected rows %r, observed exception: %r' % (expected, e))
        bad = True

sys.exit(1 if bad else 0)
