"""C05: dump_to_path / dump_to_zip are not transparent for a valid schema whose field has a
serialisation property (date format, decimalChar, trueValues) AND a constraint written in that
serialisation: the pipeline runs without the dumper, and crashes as soon as the dumper is inserted."""
import contextlib
import io
import os
import shutil
import sys
import tempfile

from dataflows import Flow, set_type, dump_to_path, dump_to_zip, printer

CASES = {
    'date, format %d/%m/%Y, minimum "01/01/2020"': (
        lambda: [{'x': '01/02/2020'}, {'x': '05/03/2021'}],
        dict(type='date', format='%d/%m/%Y', constraints={'minimum': '01/01/2020'})),
    'number, decimalChar ",", maximum "99,5"': (
        lambda: [{'x': '1,5'}, {'x': '2,25'}],
        dict(type='number', decimalChar=',', constraints={'maximum': '99,5'})),
    'time, format %H.%M, enum ["09.30", "17.45"]': (
        lambda: [{'x': '09.30'}, {'x': '17.45'}],
        dict(type='time', format='%H.%M', constraints={'enum': ['09.30', '17.45']})),
}


def run(rows, options, observer):
    seen = []

    def downstream(row):
        seen.append(dict(row))

    steps = [rows(), set_type('x', **options)]
    if observer is not None:
        steps.append(observer)
    steps += [downstream]
    with contextlib.redirect_stdout(io.StringIO()):
        _, dp, _ = Flow(*steps).results()
    return seen, dp.descriptor['resources'][0]['schema']


def main():
    tmp = tempfile.mkdtemp()
    tempfile.tempdir = tmp  # the dumpers' own temporary files go there too and are removed at the end
    bad = 0
    try:
        for title, (rows, options) in CASES.items():
            base_rows, base_schema = run(rows, options, None)
            print('CASE', title)
            print('  field descriptor:', base_schema['fields'][0])
            print('  expected (pipeline without observer): rows', base_rows)
            observers = {
                'printer': lambda: printer(),
                'dump_to_path(csv)': lambda: dump_to_path(os.path.join(tmp, 'p')),
                'dump_to_path(json)': lambda: dump_to_path(os.path.join(tmp, 'j'), format='json'),
                'dump_to_zip': lambda: dump_to_zip(os.path.join(tmp, 'z.zip')),
            }
            for name, make in observers.items():
                try:
                    rows_seen, _ = run(rows, options, make())
                    ok = rows_seen == base_rows
                    print('  observed with %-20s rows %s -> %s' % (name, rows_seen, 'same' if ok else 'DIFFERENT'))
                    bad += 0 if ok else 1
                except Exception as e:
                    bad += 1
                    print('  observed with %-20s CRASH: %s' % (name, str(e).strip().splitlines()[0][:150]))
    finally:
        shutil.rmtree(tmp, ignore_errors=True)
    if bad:
        print('VIOLATION: inserting a dumper into a pipeline that works breaks it (%d observer runs failed)' % bad)
        sys.exit(1)
    print('ok: all observers were transparent')


if __name__ == '__main__':
    main()
