"""C20: a null cell of a duration / yearmonth / geopoint / geojson column is stored in the
sqlite table as the 4-character text 'None' instead of NULL."""
import datetime
import os
import shutil
import sqlite3
import sys
import tempfile

from dataflows import Flow, dump_to_sql, set_type, update_resource

tmp = tempfile.mkdtemp()
db = os.path.join(tmp, 'a.db')
rows = [
    {'id': 1, 'took': datetime.timedelta(hours=1), 'month': [2020, 5], 'where': [1, 2], 'tags': ['a'], 'name': 'x'},
    {'id': 2, 'took': None, 'month': None, 'where': None, 'tags': None, 'name': None},
]
violated = False
try:
    out = Flow(
        rows,
        update_resource(-1, name='res'),
        set_type('took', type='duration'),
        set_type('month', type='yearmonth'),
        set_type('where', type='geopoint', format='array'),
        set_type('tags', type='array'),
        dump_to_sql({'t': {'resource-name': 'res'}}, engine='sqlite:///' + db),
    ).results()[0][0]
    print('row 2 downstream:', out[1])
    con = sqlite3.connect(db)
    names = ['id', 'took', 'month', 'where', 'tags', 'name']
    got = dict(zip(names, con.execute('select id, took, month, "where", tags, name from t where id = 2').fetchone()))
    nulls = con.execute('select count(*) from t where took is null').fetchone()[0]
    con.close()
    print('expected: row 2 in the table has NULL in every column but id; '
          '"select count(*) from t where took is null" = 1')
    print('observed: row 2 in the table =', got, '; count of null took =', nulls)
    violated = any(got[n] is not None for n in names[1:]) or nulls != 1
finally:
    shutil.rmtree(tmp, ignore_errors=True)

sys.exit(1 if violated else 0)
