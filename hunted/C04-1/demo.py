"""C04: a source iterable that fails after the 100-row inference sample loses the original
exception: ProcessorError.cause is a tabulator SourceError built from str(original)."""
import logging
import sys

from dataflows import Flow, exceptions

logging.disable(logging.CRITICAL)


class MyException(Exception):
    pass


def rows(fail_at):
    for i in range(300):
        if i == fail_at:
            raise MyException('custom-iterable-error at row %d' % i)
        yield {'a': i}


def cause_of(fail_at, method):
    flow = Flow(rows(fail_at), lambda row: None)
    try:
        getattr(flow, method)()
    except exceptions.ProcessorError as e:
        return e.cause
    except BaseException as e:  # not even a ProcessorError
        return e
    return None


failed = False
for fail_at in (1, 99, 100, 150, 299):
    for method in ('process', 'results'):
        cause = cause_of(fail_at, method)
        ok = isinstance(cause, MyException)
        print('source fails at row %3d, %-7s: expected cause MyException, observed %s.%s(%s) -> %s' % (
            fail_at, method, type(cause).__module__, type(cause).__name__, cause, 'ok' if ok else 'VIOLATION'))
        if not ok:
            failed = True
            print('      cause.__cause__ = %r (the original is not chained as the cause either)' % (cause.__cause__,))

if failed:
    print('FAIL: ProcessorError.cause is not the original exception once the failing row lies past the '
          'inference sample (row index >= 100)')
    sys.exit(1)
print('PASS')
