#!/bin/bash
# seedcheck.sh <seed dir> : is the seeded change still caught by its property's check?
# Differential, so that it also works for seeds written against an older tree: the check runs on the seed's base tree
# (HEAD when the patch still applies there, else meta.json's patch_base) without and with the patch; the seed counts as
# caught when the patched tree yields a violation mechanism the unpatched base does not.
set -u
dir=$(readlink -f $1)
n=$(basename $dir)
prop=$(python3 -c "import json;print(json.load(open('$dir/meta.json'))['property'])")
extra=$(python3 -c "import json;print(' '.join(json.load(open('$dir/meta.json')).get('caught_by_other',[])))" 2>/dev/null)
base=HEAD
git -C /repo apply --check $dir/patch.diff 2>/dev/null || base=$(python3 -c "import json;print(json.load(open('$dir/meta.json'))['patch_base'])")
a=/tmp/sc-$$-$n-a; b=/tmp/sc-$$-$n-b
git -C /repo worktree add -q --detach $a $base || exit 3
git -C /repo worktree add -q --detach $b $base || exit 3
trap 'git -C /repo worktree remove --force '$a' 2>/dev/null; git -C /repo worktree remove --force '$b' 2>/dev/null; rm -rf '$a' '$b' /tmp/sc-'$$'-*' EXIT
git -C $b apply $dir/patch.diff || { echo "$n: PATCH DOES NOT APPLY to $base"; exit 3; }
mkdir -p /tmp/sc-$$-demo
(cd /tmp/sc-$$-demo && PYTHONPATH=$b timeout 180 /venv/bin/python $dir/demo.py > /dev/null 2>&1); rdemo=$?
if [ $rdemo = 0 ]; then echo "$n base=$base NEUTRALISED (its demo passes on the patched tree: the change no longer breaks the property there)"; exit 0; fi
res="MISSED"
for c in $prop $extra; do
  for side in a b; do
    wt=$a; [ $side = b ] && wt=$b
    (cd /tmp && VERIF_REPO=$wt VERIF_EVIDENCE_DIR=/tmp/sc-$$-ev /venv/bin/python ${VERIF_HOME:-/verif}/vcheck $c --tier ${TIER:-quick} --jobs ${JOBS:-4} 2>/dev/null | grep -o 'kind=[^ ]* mech=[^ ]*' | sort -u > /tmp/sc-$$-$c-$side.txt)
  done
  new=$(comm -13 /tmp/sc-$$-$c-a.txt /tmp/sc-$$-$c-b.txt | head -3 | tr '\n' ';')
  if [ -n "$new" ]; then res="CAUGHT by $c: $new"; break; fi
done
echo "$n base=$base $res"
