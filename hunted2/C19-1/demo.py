"""C19: dump_to_path finishes "successfully" and writes a datapackage.json that lists a data file which
does not exist, when the path of one resource is a directory that an earlier resource's path created.

Resource 1 has path 'archive.csv/part.csv'  (a file inside a directory called 'archive.csv').
Resource 2 has path 'archive.csv'.
PathDumper.write_file_to_output() hands the existing DIRECTORY out/archive.csv to shutil.copy(), which then
silently copies resource 2's data to out/archive.csv/<random temp name>.  No error is raised, the descriptor
is written, and it records path/bytes/hash for 'archive.csv' - which is a directory, not that file.
(With the two resources in the opposite order the dump fails with FileExistsError, as it should.)
"""
import hashlib
import json
import os
import shutil
import sys
import tempfile

from dataflows import Flow, dump_to_path, update_resource

work = tempfile.mkdtemp()
out = os.path.join(work, 'out')           # fresh directory
violations = []
try:
    Flow(
        [{'a': 1}, {'a': 2}],
        update_resource(-1, name='part', path='archive.csv/part.csv'),
        [{'b': 'x'}],
        update_resource(-1, name='archive', path='archive.csv'),
        dump_to_path(out),
    ).process()
    print('the flow ended without an error')

    descriptor_file = os.path.join(out, 'datapackage.json')
    print('datapackage.json present:', os.path.exists(descriptor_file))
    listing = sorted(os.path.relpath(os.path.join(d, f), out) for d, _, fs in os.walk(out) for f in fs)
    print('files in the dump directory:', listing)
    if os.path.exists(descriptor_file):
        with open(descriptor_file, encoding='utf-8') as f:
            descriptor = json.load(f)       # parseable: the dump claims to be complete
        for res in descriptor['resources']:
            target = os.path.join(out, res['path'])
            print('listed: path=%r bytes=%r hash=%r' % (res['path'], res.get('bytes'), res.get('hash')))
            if not os.path.isfile(target):
                violations.append('%r is listed but is not a file (isdir=%s)' % (res['path'], os.path.isdir(target)))
                continue
            with open(target, 'rb') as f:
                data = f.read()
            if len(data) != res.get('bytes') or hashlib.md5(data).hexdigest() != res.get('hash'):
                violations.append('%r does not have the recorded size / hash' % res['path'])
except Exception as e:
    # acceptable behaviour: the dump is refused and no descriptor marks it as complete
    print('the dump failed with %s: %s' % (type(e).__name__, str(e)[:200]))
    if os.path.exists(os.path.join(out, 'datapackage.json')):
        violations.append('descriptor present although the dump failed')
finally:
    shutil.rmtree(work, ignore_errors=True)

print()
print('EXPECTED: if a parseable datapackage.json is present, every file it lists exists with the recorded')
print('          size and hash (or the dump fails and leaves no descriptor).')
if violations:
    print('OBSERVED: ' + '; '.join(violations))
    sys.exit(1)
print('OBSERVED: as expected')
sys.exit(0)
