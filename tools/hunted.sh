#!/bin/bash
# hunted.sh [tree] : re-run every demo of /verif/hunted (round 3) and /verif/hunted2 (round 4) against a tree (default /repo)
# and compare with the dispositions.json of that directory: a finding marked "fixed" must pass (exit 0, or the exit code
# given as demo_exit where the demo itself is outdated - see its note); "known" / "out_of_scope" ones are expected to still
# show (exit 1).
tree=${1:-/repo}
here=$(cd "$(dirname "$0")/.." && pwd)
bad=0
for dir in $here/hunted $here/hunted2; do
  for d in $dir/C*/; do
    n=$(basename $d)
    read st want < <(python3 -c "
import json
e=json.load(open('$dir/dispositions.json')).get('$n',{})
print(e.get('status','?'), e.get('demo_exit', 0 if e.get('status')=='fixed' else 1))")
    w=$(mktemp -d /tmp/hunted-XXXXXX)
    (cd $w && PYTHONPATH=$tree timeout 180 /venv/bin/python $d/demo.py >/dev/null 2>&1); rc=$?
    rm -rf $w
    verdict=ok
    if [ "$st" = fixed ] && [ $rc != $want ]; then verdict="REGRESSION (marked fixed, demo exit $rc, expected $want)"; bad=1; fi
    if [ "$st" != fixed ] && [ $rc = 0 ]; then verdict="note: marked $st but the demo passes now"; fi
    echo "$(basename $dir)/$n status=$st demo_exit=$rc $verdict"
  done
done
exit $bad
