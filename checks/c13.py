"""C13 load reproduces the source table faithfully.

Oracle: the generated CSV bytes are re-read by the harness with csv.reader (truth = header text and
cell text per data line); expectations for each option are derived from that truth. Raw rows are taken
from Flow.datastream() (no result-time validation). Schema casting is judged against tableschema
Field.cast_value of the field descriptors load itself emitted.
"""
import copy
import csv
import io
import os

import tableschema
from tableschema.exceptions import CastError

from vlib import boot, gen, lab, refmodel

PROPERTY = 'C13'
LEVEL = 'exploration'
RULE = ('seeded generation: CSV tables 0..120 rows x 1..6 columns x cell classes (quotes, delimiter, newline in '
        'cell, unicode, numeric-looking, empty, padded) x header classes (unique, exact duplicates, case-only '
        'duplicates) x line terminator x infer_strategy x cast_strategy x on_error x strip x limit_rows '
        '{None,1,n-1,n,n+5} x name x deduplicate_headers(+case flag); plus data-package and (descriptor, iterators) '
        'sources x selector forms; distinct = case hash; non-trivial = >=1 data row compared cell by cell')
ASSUMPTIONS = [
    'header cells are non-empty and the header row is full width; no fully blank lines; UTF-8; LF or CRLF line ends',
    "an empty cell may come back as '' or None",
    'INFER_FULL type inference itself is not judged (C02 judges that the inferred type accepts the data)',
    'CRLF inside a cell is not generated here (recorded under C03 as a loader known finding)',
]
REQUIRED_COUNTERS = ['cells_compared']
FAMILIES = ['strings', 'full_nocast', 'cast_strings', 'cast_schema', 'pytypes', 'dup_headers', 'package']

CELLS = {
    'plain': ['abc', 'x', 'Hello World'],
    'quote': ['say "hi"', '"', "it's"],
    'delim': ['a,b', ',', 'x;y'],
    'newline': ['l1\nl2', 'x\n'],
    'unicode': ['żółć', '日本語', '😀 ok'],
    'numeric': ['007', '1.50', '1e5', '-3', '42'],
    'empty': [''],
    'padded': [' lead', 'trail ', '\tboth\t', '  '],
    # 7-bit ASCII text that charset detectors take for an escape-based encoding (UTF-7, HZ-GB-2312)
    'encoding_bait': ['SKU+ABCD1234-X', 'Ref+INVOICE1-A', 'x~{AB~}y'],
    'sniffer_bait': ['"Veni"; "vidi"; "vici"', "'Bobby'", "'x';'y'", 'a|b|c'],
}


def sniffed_alternative(path, delim_opt, true_delim):
    """Alternative model for mis-parsed files: the CSV dialect tabulator derives with csv.Sniffer from the first lines
    (exactly as tabulator.parsers.csv does) and the table that dialect yields. -> (differs_from_writer, header, rows)"""
    import csv
    import io
    text = open(path, encoding='utf-8', newline='').read()
    lines = io.StringIO(text, newline=None).readlines()[:100]      # tabulator feeds text lines (universal newlines)
    try:
        dialect = csv.Sniffer().sniff(''.join(lines), delim_opt or ',\t;|')
        if not dialect.escapechar:
            dialect.doublequote = True
    except csv.Error:
        class dialect(csv.excel):
            pass
    if delim_opt:
        dialect.delimiter = delim_opt
    differs = (dialect.delimiter != true_delim or dialect.quotechar != '"' or bool(dialect.skipinitialspace)
               or not dialect.doublequote)
    try:
        table = list(csv.reader(io.StringIO(text, newline=None), dialect))
    except csv.Error:
        return differs, None, None
    table = [r for r in table if r]
    return differs, (table[0] if table else []), table[1:]


def gen_cases(tier, seed):
    # the processors of this property once more with assertions disabled (python -O) against a normal interpreter
    yield {'family': 'optimized_differential', 'idx': 9 * 10 ** 6, 'seed': seed, 'spill': False, 'big': False, 'proc': 'optimized_differential', 'names': ['a'], 'selector': None}
    n = {'quick': 110, 'thorough': 3000}[tier]
    for fam in FAMILIES:
        for i in range(n):
            yield {'family': fam, 'idx': i, 'seed': seed}
    for i in range(4):
        yield {'family': 'legacy_encoding', 'idx': i, 'seed': seed}
    for i in range(2):
        yield {'family': 'long_cell_late', 'idx': i, 'seed': seed}


def write_csv(path, header, rows, lineterminator, delimiter=','):
    buf = io.StringIO(newline='')
    w = csv.writer(buf, lineterminator=lineterminator, delimiter=delimiter)
    w.writerow(header)
    w.writerows(rows)
    data = buf.getvalue().encode('utf-8')
    with open(path, 'wb') as f:
        f.write(data)
    # truth: independent re-read of the bytes
    rr = list(csv.reader(io.StringIO(data.decode('utf-8'), newline=''), delimiter=delimiter))
    return rr[0], rr[1:]


def run_case(case):
    if case['family'] == 'optimized_differential':
        from vlib import optlab
        return optlab.as_case_result(['load_limit'], {'cells_compared': 0})
    fam = case['family']
    rng = boot.rng(case['seed'], 'C13', fam, case['idx'])
    d = lab.df()
    counters = {'cells_compared': 0}
    cov = {'options': {}, 'cell_class': {}}
    viol = []
    if fam == 'package':
        return run_package(case, rng, d, counters, cov, viol)
    if fam == 'legacy_encoding':
        return run_legacy_encoding(case, rng, d, counters, cov, viol)
    if fam == 'long_cell_late':
        return run_long_cell_late(case, rng, d, counters, cov, viol)
    if fam == 'cast_strings' and case['idx'] % 3 == 0:
        return run_typed_source_strings(case, rng, d, counters, cov, viol)
    ncols = rng.randint(1, 6)
    header = rng.sample(['alpha', 'b', 'C', 'delta', 'e1', 'Ünï', 'g h', 'share %', 'Rate%s'], ncols)
    hclass = 'unique'
    dedup_fmt = None
    if fam == 'dup_headers' and ncols >= 2:
        hclass = rng.choice(['exact', 'case', 'triple', 'many', 'two_groups', 'collides_generated', 'case_collides_generated'])
        force_ci = False
        if hclass == 'case_collides_generated' and ncols >= 3:
            # headers that differ in case only, next to a unique header that looks like the name generated for one of them
            dedup_fmt = rng.choice([' (%s)', '_%s'])
            header[0], header[1] = 'Name', 'name'
            header[2] = 'Name' + dedup_fmt % 1
            force_ci = True
        elif hclass == 'case_collides_generated':
            hclass = 'exact'
        if hclass == 'collides_generated' and ncols >= 3:
            # a unique header that already looks like a name de-duplication would generate
            dedup_fmt = rng.choice([' (%s)', ' (%s)', '_%s'])
            header[1] = header[0]
            header[2] = header[0] + dedup_fmt % rng.choice([1, 2])
        elif hclass == 'collides_generated':
            hclass = 'exact'
        if hclass == 'many' and ncols >= 4:
            header = [header[0]] * ncols if rng.random() < 0.5 else [header[0]] * (ncols - 1) + [header[-1]]
        elif hclass == 'two_groups' and ncols >= 5:
            header = [header[0], header[1]] * (ncols // 2) + ([header[2]] if ncols % 2 else [])
        elif hclass in ('many', 'two_groups'):
            hclass = 'exact'
        if hclass in ('collides_generated', 'case_collides_generated'):
            pass
        elif hclass == 'exact':
            header[1] = header[0]
        elif hclass == 'case':
            header[0], header[1] = 'name', 'NAME'
        elif ncols >= 3:
            header[1] = header[2] = header[0]
        else:
            header[1] = header[0]
            hclass = 'exact'
    nrows = rng.choice([0, 1, 2, 5, 30, 99, 100, 101, 120])
    numeric_cols = set()
    if fam == 'cast_schema':
        numeric_cols = {c for c in range(ncols) if rng.random() < 0.6}
    padded_numbers = False
    if fam in ('full_nocast', 'cast_strings') and boot.rng(case['seed'], 'C13', 'padnum', case['idx']).random() < 0.35:
        # columns of numbers written with blanks around them ('  1', '300 '): inferred numeric, the cell text kept;
        # strip=True strips these cells like any other
        numeric_cols = {c for c in range(ncols) if rng.random() < 0.5} or {0}
        padded_numbers = True
    classes = sorted(CELLS)
    if rng.random() < 0.5:
        classes = [c for c in classes if c != 'newline']
    rows = []
    bad_rows = set()
    sample_size = None
    if fam == 'cast_schema':
        sample_size = rng.choice([5, 20])
    for i in range(nrows):
        row = []
        for c in range(ncols):
            if c in numeric_cols:
                v = str(rng.randint(-50, 500))
                if sample_size and i >= sample_size and rng.random() < 0.08:
                    v = rng.choice(['oops', '1.5x', 'n/a'])
                    bad_rows.add(i)
                if padded_numbers and rng.random() < 0.4:
                    v = rng.choice(['  ' + v, ' ' + v, v + ' '])
                    cov['cell_class']['number_with_blanks_around'] = 1
                row.append(v)
            else:
                cl = rng.choice(classes)
                cov['cell_class'][cl] = 1
                row.append(rng.choice(CELLS[cl]))
        if all(v == '' for v in row):
            row[0] = 'x'
        rows.append(row)
    lt = rng.choice(['\r\n', '\n'])
    delim = rng.choice([',', ',', ';', '\t', '|'])
    # (the case of a file extension means nothing)
    path = 'in_%d.%s' % (case['idx'], boot.rng(case['seed'], 'C13', 'ext', fam, case['idx']).choice(['csv', 'csv', 'CSV', 'Csv']))
    cov['options']['extension/' + path.rsplit('.', 1)[1]] = 1
    t_header, t_rows = write_csv(path, header, rows, lt, delim)
    assert t_header == header and t_rows == rows
    strip = rng.random() < 0.5
    limit = rng.choice([None, None, 1, max(1, nrows - 1), max(1, nrows), nrows + 5, 0])
    if fam == 'cast_schema' and bad_rows and rng.random() < 0.5:
        limit = max(1, min(bad_rows))       # the first offending row is the one right AFTER the limit
    elif fam == 'cast_schema' and bad_rows and rng.random() < 0.5:
        limit = min(nrows - 1, max(bad_rows) + 2)      # offending rows BEFORE the limit, valid rows after it
    name = rng.choice([None, 'custom-name'])
    kw = {'strip': strip}
    if delim != ',':
        kw['delimiter'] = delim
    if limit is not None:
        kw['limit_rows'] = limit
    if name:
        kw['name'] = name
    policy = None
    if fam == 'strings':
        kw.update(infer_strategy=d.load.INFER_STRINGS, cast_strategy=rng.choice([None, d.load.CAST_DO_NOTHING]))
    elif fam == 'cast_strings':
        kw.update(infer_strategy=rng.choice([d.load.INFER_STRINGS, d.load.INFER_FULL]),
                  cast_strategy=d.load.CAST_TO_STRINGS)
    elif fam == 'cast_schema':
        policy = rng.choice(['raise', 'drop', 'ignore', 'clear'])
        on_error_ = {'raise': d.load.ERRORS_RAISE, 'drop': d.load.ERRORS_DROP,
                     'ignore': d.load.ERRORS_IGNORE, 'clear': d.load.ERRORS_CLEAR}[policy]
        if policy == 'drop' and boot.rng(case['seed'], 'C13', 'handler', case['idx']).random() < 0.5:
            # the caller's own handler in the documented 4-argument form that also accepts further context
            def on_error_(res_name, row, index, error, **context):      # noqa: F811
                return False
            cov['options']['on_error/own_handler_with_varkw'] = 1
        kw.update(infer_strategy=d.load.INFER_FULL, cast_strategy=d.load.CAST_WITH_SCHEMA,
                  on_error=on_error_,
                  sample_size=sample_size)
    elif fam == 'pytypes':
        kw.update(infer_strategy=d.load.INFER_PYTHON_TYPES, cast_strategy=d.load.CAST_DO_NOTHING)
    elif fam == 'dup_headers':
        kw.update(infer_strategy=d.load.INFER_STRINGS)
        if rng.random() < 0.7:
            kw['deduplicate_headers'] = True
        if rng.random() < 0.5:
            kw['deduplicate_headers_case_sensitive'] = False
        if hclass == 'case_collides_generated':
            kw['deduplicate_headers'] = True
            kw['deduplicate_headers_case_sensitive'] = False
        if dedup_fmt not in (None, ' (%s)'):
            kw['deduplicate_headers_format'] = dedup_fmt
    cov['options']['delimiter/%r' % delim] = 1
    cfg = {'family': fam, 'header': header, 'nrows': nrows, 'lineterminator': lt, 'delimiter': delim,
           'header_class': hclass,
           'options': {k: (v if not callable(v) else getattr(v, '__name__', 'fn')) for k, v in kw.items()}}
    cov['options']['%s/strip=%s/limit=%s/%s' % (fam, strip, 'none' if limit is None else
                                                 ('lt' if limit < nrows else 'ge'), hclass)] = 1
    got = lab.run([d.load(path, **kw)], via='datastream')

    def add(kind, msg, mech=None, at=None):
        # a mis-parse that the dialect csv.Sniffer derives from this very file reproduces is named as such
        if kind in ('headers', 'row_count', 'cell', 'row_keys', 'unexpected_error', 'duplicate_headers_accepted') \
                and mech != 'leading_space_lost_sniffed_dialect':
            try:
                differs, ah, ar = sniffed_alternative(path, kw.get('delimiter'), delim)
                if kind == 'duplicate_headers_accepted':
                    # the sniffed dialect merges / splits the header cells so that no duplicate is left to reject
                    onames = [f['name'] for f in got.dp['resources'][0]['schema']['fields']]
                    if differs and ah is not None and onames == [h.strip() for h in ah]:
                        mech = 'sniffed_dialect_misparse'
                elif differs and ah is not None and got.ok:
                    onames = [f['name'] for f in got.dp['resources'][0]['schema']['fields']]
                    if onames != [h.strip() for h in ah]:
                        # with rows of differing width, tabulator's "auto" preset may take a later row as the header row
                        # (a column whose header cell is empty is left out)
                        for k_ in range(min(10, len(ar))):
                            cand_ = [h.strip() for h in ar[k_]]
                            cand2_ = [h for h in cand_ if h]
                            def dedup_of(names_, c_):
                                # names_ is c_ with its repeated cells (and only those) given a generated suffix
                                low_ = [h_ if kw.get('deduplicate_headers_case_sensitive', True) else h_.lower() for h_ in c_]
                                return len(names_) == len(c_) and all(
                                    o_ == h_ or (low_.count(l_) > 1 and h_ != '' and o_.startswith(h_))
                                    for o_, h_, l_ in zip(names_, c_, low_))
                            if onames == cand_ or onames == cand2_ or (
                                    kw.get('deduplicate_headers') and (dedup_of(onames, cand_) or dedup_of(onames, cand2_))):
                                ah, ar = ar[k_], ar[k_ + 1:]
                                break
                    if kw.get('deduplicate_headers'):
                        same_header = len(onames) in (len(ah), len([h for h in ah if h.strip()]))
                    else:
                        same_header = onames == [h.strip() for h in ah] or onames == [h.strip() for h in ah if h.strip()]
                    n_alt = len(ar) if limit is None else min(limit, len(ar))
                    ok_alt = same_header and (fam == 'cast_schema' or len(got.results[0]) == n_alt)
                    if ok_alt and kind == 'cell' and at is not None:
                        i_, col_ = at
                        cell = ar[i_][col_] if i_ < len(ar) and col_ < len(ar[i_]) else None
                        if cell is not None and strip:
                            cell = cell.strip()
                        gv_ = got.results[0][i_].get(onames[col_]) if i_ < len(got.results[0]) else None
                        ok_alt = (cell == gv_) or (cell in ('', None) and gv_ in ('', None)) or str(cell) == str(gv_)
                        if not ok_alt and fam == 'cast_schema' and len(got.results[0]) != n_alt and i_ < len(got.results[0]):
                            # rows were dropped by the error policy, so positions no longer line up: the observed row
                            # must then be reproduced WHOLE (every header column) by some row of the alternative table
                            grow_ = got.results[0][i_]

                            def same_(c_, g_):
                                c_ = c_.strip() if strip else c_
                                return (c_ in ('', None) and g_ in ('', None)) or str(c_) == str(g_)
                            ok_alt = any(len(r_) > col_ and len(r_) >= len(onames) and
                                         all(same_(r_[j_], grow_.get(onames[j_])) for j_ in range(len(onames)))
                                         for r_ in ar)
                    if ok_alt:
                        mech = 'sniffed_dialect_misparse'
                elif differs and not got.ok and kind == 'unexpected_error':
                    mech = 'sniffed_dialect_misparse'
            except Exception:
                pass
        viol.append({'kind': kind, 'mech': mech or fam, 'msg': '%r: %s' % (cfg, msg), 'config': cfg})
    # duplicate header expectations
    cs = kw.get('deduplicate_headers_case_sensitive', True)
    keyed = header if cs else [h.lower() for h in header]
    has_dups = len(set(keyed)) != len(keyed)
    if has_dups and not kw.get('deduplicate_headers'):
        if got.ok:
            add('duplicate_headers_accepted', 'duplicate headers loaded without deduplicate_headers: fields %r'
                % [f['name'] for f in got.dp['resources'][0]['schema']['fields']])
        return dict(nontrivial=False, violations=viol, cov=cov, counters=counters)
    exp_n = nrows if limit is None else min(limit, nrows)
    # expected outcome for schema casting with an offending row
    if not got.ok and fam == 'cast_schema' and policy == 'raise':
        # which row is the first one the INFERRED schema rejects? (the sample may be inferred more narrowly than the
        # generator intended, e.g. a column of 0/1 as boolean): take the schema from the same load without casting
        kw2 = dict(kw, cast_strategy=d.load.CAST_DO_NOTHING)
        kw2.pop('on_error', None)
        probe = lab.run([d.load(path, **kw2)], via='datastream')
        if probe.ok:
            fo = tableschema.Schema(probe.dp['resources'][0]['schema']).fields
            for i_, cells in enumerate(rows):
                try:
                    for f_, c_ in zip(fo, cells):
                        f_.cast_value(c_.strip() if strip and isinstance(c_, str) and False else c_)
                except CastError:
                    bad_rows = set(bad_rows) | {i_}
                    break
    if not got.ok:
        if fam == 'cast_schema' and policy == 'raise' and any(i < exp_n for i in bad_rows):
            c = getattr(got.exc, 'cause', got.exc)   # datastream(): the raw exception, not wrapped
            if type(c).__name__ != 'ValidationError':
                add('wrong_cause', 'offending row raised %r' % (c,))
            return dict(nontrivial=True, violations=viol, cov=cov, counters=counters)
        add('unexpected_error', got.errstr())
        return dict(nontrivial=False, violations=viol, cov=cov, counters=counters)
    rd = got.dp['resources'][0]
    names = [f['name'] for f in rd['schema']['fields']]
    if name and rd['name'] != name:
        add('name', 'resource name %r expected %r' % (rd['name'], name))
    # header expectations
    if has_dups:
        ok = len(names) == len(header) and len(set(names)) == len(names) and \
            all(n.startswith(h) for n, h in zip(names, header))
        cnt = {}
        for k in keyed:
            cnt[k] = cnt.get(k, 0) + 1
        ok = ok and all(n == h for n, h, k in zip(names, header, keyed) if cnt[k] == 1)
        if not ok:
            add('headers', 'de-duplicated field names %r for header %r' % (names, header))
            return dict(nontrivial=False, violations=viol, cov=cov, counters=counters)
    elif names != header:
        add('headers', 'field names %r expected %r' % (names, header))
        return dict(nontrivial=False, violations=viol, cov=cov, counters=counters)
    grows = got.results[0]
    if fam == 'pytypes' and rows:
        # "a datatype matching their python type": every cell of a CSV file is text
        for f_, col in zip(rd['schema']['fields'], zip(*rows)):
            if all(c != '' for c in col[:1000]) and f_['type'] != 'string':
                add('pytypes_type', 'INFER_PYTHON_TYPES declares field %r as %r, its cells are all text' % (f_['name'], f_['type']))
                break
    # expected rows
    fobj = tableschema.Schema(rd['schema']).fields if fam == 'cast_schema' else None
    exp = []
    # limit_rows is "how many rows of the source to stream": the first n data lines, whatever on_error does with them
    for i, cells in enumerate(rows[:exp_n]):
        if fam == 'cast_schema':
            out, bad = {}, []
            for n, f, c in zip(names, fobj, cells):
                try:
                    out[n] = f.cast_value(c)
                except CastError:
                    out[n] = c
                    bad.append(n)
            if bad:
                if policy == 'raise':
                    break
                if policy == 'drop':
                    continue
                if policy == 'clear':
                    for n in bad:
                        out[n] = None
            exp.append((out, bad))
        else:
            exp.append((dict(zip(names, cells)), []))
    if fam == 'cast_schema':
        if policy == 'raise' and any(i < nrows for i in bad_rows) and len(exp) < (nrows + 1 if limit is None else limit):
            # a raise was due before the limit was reached but the run returned normally
            if any(b < (nrows if limit is None else limit) for b in bad_rows) and len(exp) < exp_n:
                add('missing_raise', 'offending row %r before limit but run returned %d rows'
                    % (sorted(bad_rows)[:3], len(grows)))
                return dict(nontrivial=True, violations=viol, cov=cov, counters=counters)
    if len(grows) != len(exp):
        add('row_count', '%d rows expected %d (limit_rows=%r, file has %d data lines)'
            % (len(grows), len(exp), limit, nrows), '%s/limit' % fam if limit is not None else fam)
        return dict(nontrivial=False, violations=viol, cov=cov, counters=counters)
    for i, ((er, bad), gr) in enumerate(zip(exp, grows)):
        if list(gr) != names:
            add('row_keys', 'row %d keys %r expected %r' % (i, list(gr), names))
            break
        stop = False
        for n in names:
            ev, gv = er[n], gr[n]
            counters['cells_compared'] += 1
            if isinstance(ev, str) and strip:
                ev = ev.strip()
            if fam in ('strings', 'full_nocast', 'pytypes', 'dup_headers', 'cast_strings'):
                okv = (gv == ev) or (ev == '' and gv is None and fam != 'cast_strings')
                if fam == 'cast_strings' and not isinstance(gv, str):
                    okv = False
                if fam in ('strings', 'dup_headers') and gv is not None and not isinstance(gv, str):
                    okv = False
            else:
                okv = lab.strict_eq(ev, gv) or (n in bad and policy == 'ignore' and gv == ev) or \
                    (ev == '' and gv is None)
            if not okv:
                mech = '%s/%s' % (fam, 'none_as_text' if (gv == 'None' and ev in ('', None)) else 'cell')
                if not strip and isinstance(ev, str) and ev.startswith(' ') and \
                        (gv == ev.lstrip(' ') or (ev.lstrip(' ') == '' and gv in ('', None))):
                    # only the leading blanks are gone although strip=False: the CSV dialect was sniffed with
                    # skipinitialspace=True (tabulator / csv.Sniffer on a small sample)
                    mech = 'leading_space_lost_sniffed_dialect'
                add('cell', 'row %d field %r: got %r expected %r (strip=%s)' % (i, n, gv, ev, strip), mech,
                    at=(i, names.index(n)))
                stop = True
                break
        if stop:
            break
    sample = {'config': cfg, 'file_head': gen.render(rows[:3], 300)}
    return dict(nontrivial=len(exp) > 0, violations=viol, cov=cov, counters=counters, sample=sample)


LEGACY = {
    'shift_jis': ['東京都新宿区西新宿', '大阪府大阪市北区梅田', 'これは日本語のテキストです', '私は学生です。よろしくお願いします'],
    'euc_kr': ['서울특별시 강남구 테헤란로', '부산광역시 해운대구', '이것은 한국어 텍스트입니다', '오늘 날씨가 좋습니다'],
}


def run_long_cell_late(case, rng, d, counters, cov, viol):
    """A cell longer than csv's default field limit (131072) far beyond the rows load samples when it opens the file."""
    n, at = 1500, [1200, 1499][case['idx'] % 2]
    path = 'late_long_%d.csv' % at
    with open(path, 'w', newline='') as f:
        f.write('id,text\n')
        for i in range(n):
            f.write('%d,%s\n' % (i, ('L' * 200000) if i == at else 'short%d' % i))
    cfg = {'family': 'long_cell_late', 'rows': n, 'long_cell_at_row': at}
    cov['options']['long_cell_at_row_%d_of_%d' % (at, n)] = 1
    got = lab.run([d.load(path, infer_strategy=d.load.INFER_STRINGS)], validate=True)
    counters['cells_compared'] += 2 * n
    if not got.ok:
        viol.append({'kind': 'unexpected_error', 'mech': 'long_cell_late/failed', 'config': cfg,
                     'msg': '%r: load failed: %s' % (cfg, got.errstr()[-200:])})
    else:
        rows = got.results[0]
        if len(rows) != n or rows[at]['text'] != 'L' * 200000 or rows[at - 1]['text'] != 'short%d' % (at - 1):
            viol.append({'kind': 'row_count', 'mech': 'long_cell_late/rows', 'config': cfg,
                         'msg': '%r: %d rows loaded, the long cell has %d characters' % (
                             cfg, len(rows), len(rows[at]['text']) if len(rows) > at else -1)})
    return dict(nontrivial=True, violations=viol, cov=cov, counters=counters, sample={'config': cfg})


def run_legacy_encoding(case, rng, d, counters, cov, viol):
    """A csv file in a legacy multi-byte encoding, no encoding option: the detection recognises it (and a UTF-8 control of
    the same table loads the same rows)."""
    enc = ['shift_jis', 'euc_kr'][case['idx'] % 2]
    n = [100, 40][(case['idx'] // 2) % 2]
    values = LEGACY[enc]
    rows = [dict(id=str(i), address=values[i % 4], note=values[(i + 1) % 4]) for i in range(n)]
    text = 'id,address,note\n' + ''.join('%(id)s,"%(address)s","%(note)s"\n' % r for r in rows)
    cfg = {'family': 'legacy_encoding', 'encoding': enc, 'nrows': n}
    cov['options']['legacy_encoding/%s/%d' % (enc, n)] = 1
    for label, codec in (('utf8_control', 'utf-8'), ('legacy', enc)):
        path = '%s_%s.csv' % (label, enc)
        with open(path, 'wb') as f:
            f.write(text.encode(codec))
        got = lab.run([d.load(path, infer_strategy=d.load.INFER_STRINGS)], validate=True)
        counters['cells_compared'] += 3 * n
        if not got.ok:
            viol.append({'kind': 'unexpected_error', 'mech': 'legacy_encoding/%s/failed' % label, 'config': cfg,
                         'msg': '%r: the %s file failed to load: %s' % (cfg, label, got.errstr()[-200:])})
        elif lab.rows_diff(rows, got.results[0]):
            viol.append({'kind': 'rows', 'mech': 'legacy_encoding/%s/rows' % label, 'config': cfg,
                         'msg': '%r: %s file: %s' % (cfg, label, lab.rows_diff(rows, got.results[0], 1)[0][:300])})
    return dict(nontrivial=True, violations=viol, cov=cov, counters=counters, sample={'config': cfg})


def run_package(case, rng, d, counters, cov, viol):
    """load from a data package on disk and from a (descriptor, iterators) pair x selector forms."""
    names = rng.sample(['a', 'ab', 'abc', 'a.b', 'axb', 'b'], rng.randint(1, 4))
    if boot.rng(case['seed'], 'C13', 'dotted_pair', case['idx']).random() < 0.3:
        names = ['a.b', 'axb'] + rng.sample(['a', 'ab', 'b'], rng.randint(0, 2))
        rng.shuffle(names)
    fields = [{'name': 'id', 'type': 'integer'}, {'name': 't', 'type': 'string'}]
    tables = {n: [{'id': i, 't': '%s-%d' % (n, i)} for i in range(rng.choice([0, 1, 4]))] for n in names}
    k = len(names)
    selector = rng.choice([None, names[0], 'a.*', 'a|ab', [names[-1]], list(names), 0, -1, k - 1, [], 'zzz',
                           [names[0], 'nope']])
    if 'a.b' in names and 'axb' in names and boot.rng(case['seed'], 'C13', 'dotted_name', case['idx']).random() < 0.6:
        # a LISTED name and a name picked by index are taken literally: 'a.b' in a list is not a pattern for 'axb'
        selector = rng.choice([['a.b'], names.index('a.b'), ['a.b', 'b']])
    kind = rng.choice(['package', 'tuple', 'zip', 'tuple_streaming'])
    strat = rng.choice([None, None, 'strings+strings', 'full+strings', 'strings+nothing'])
    skw = {}
    if strat:
        a, b = strat.split('+')
        skw = {'infer_strategy': {'strings': d.load.INFER_STRINGS, 'full': d.load.INFER_FULL}[a],
               'cast_strategy': {'strings': d.load.CAST_TO_STRINGS, 'nothing': d.load.CAST_DO_NOTHING}[b]}
    cfg = {'family': 'package', 'kind': kind, 'names': names, 'selector': selector, 'strategies': strat}
    cov['options']['package/%s/%s' % (kind, type(selector).__name__)] = 1
    want = refmodel.sel(selector, names)
    srcs = [lab.source(n, fields, tables[n]) for n in names]
    if kind == 'tuple':
        desc = {'resources': [{'name': n, 'path': n + '.csv', 'schema': {'fields': copy.deepcopy(fields)}}
                              for n in names]}
        step = d.load((desc, [iter(copy.deepcopy(tables[n])) for n in names]), resources=copy.deepcopy(selector), **skw)
    elif kind == 'tuple_streaming':
        # the resources component is ONE sequential stream (as a datastream's res_iter over a stream file): the next
        # resource exists only once the previous one was read; asking for it earlier skips what was not read yet
        desc = {'resources': [{'name': n, 'path': n + '.csv', 'schema': {'fields': copy.deepcopy(fields)}}
                              for n in names]}
        SEP = object()
        flat = iter([x for n in names for x in (copy.deepcopy(tables[n]) + [SEP])])

        def one_resource():
            for x in flat:
                if x is SEP:
                    return
                yield x

        def resources_stream():
            cur = None
            for _ in names:
                if cur is not None:
                    for _skipped in cur:
                        pass
                cur = one_resource()
                yield cur
        step = d.load((desc, resources_stream()), resources=copy.deepcopy(selector), **skw)
        kind = 'tuple'
        cfg['resources_component'] = 'one sequential stream'
        cov['options']['package/tuple/resources_as_one_sequential_stream'] = 1
    elif kind == 'package':
        with boot.quiet():
            d.Flow(*srcs, d.dump_to_path('pk')).process()
        step = d.load('pk/datapackage.json', resources=copy.deepcopy(selector), **skw)
    else:
        with boot.quiet():
            d.Flow(*srcs, d.dump_to_zip('pk.zip')).process()
        step = d.load('pk.zip', format='datapackage', resources=copy.deepcopy(selector), **skw)
    # the flow already holds a resource under the name of one of the selected resources: the loaded one gets a free
    # name - and still its own rows, as do the resources after it
    taken = None
    pre = []
    if want and boot.rng(case['seed'], 'C13', 'taken', case['idx']).random() < 0.3:
        taken = rng.choice(want)
        pre = [lab.source(taken, [{'name': 'z', 'type': 'integer'}], [{'z': 1}, {'z': 2}])]
        cfg['name_already_taken_in_the_flow'] = taken
        cov['options']['package/%s/name_already_taken' % kind] = 1
    got = lab.run(pre + [step], via='datastream') if strat else lab.run(pre + [step], validate=True)

    def add(kind_, msg):
        viol.append({'kind': kind_, 'mech': 'package/' + kind + ('/' + strat if strat else '') +
                     ('/name_taken' if taken else ''),
                     'msg': '%r: %s' % (cfg, msg), 'config': cfg})
    if taken and got.ok:
        # judged by position: [the resource that was there] + the selected ones in package order
        if len(got.names) != len(want) + 1 or got.names[0] != taken or len(set(got.names)) != len(got.names) or \
                [n for n in got.names[1:] if n in want and n != taken] != [n for n in want if n != taken]:
            add('resource_selection', 'with %r already in the flow: resources %r, expected %r + %r (the clashing one under a '
                'free name)' % (taken, got.names, [taken], want))
        else:
            for n, rws in zip(want, got.results[1:]):
                counters['cells_compared'] += 2 * len(rws)
                want_rows = tables[n]
                if strat and strat.endswith('+strings'):
                    want_rows = [{k: str(v) for k, v in r.items()} for r in tables[n]]
                if lab.rows_diff(want_rows, rws):
                    add('rows', 'resource %s (position %d): %s' % (n, want.index(n) + 1, lab.rows_diff(want_rows, rws)))
        return dict(nontrivial=any(tables[n] for n in want), violations=viol, cov=cov, counters=counters,
                    sample={'config': cfg})
    if not got.ok:
        if want:
            add('unexpected_error', got.errstr())
        return dict(nontrivial=False, violations=viol, cov=cov, counters=counters)
    if got.names != want:
        add('resource_selection', 'loaded %r expected %r' % (got.names, want))
    else:
        for n, rws in zip(got.names, got.results):
            counters['cells_compared'] += 2 * len(rws)
            want_rows = tables[n]
            if strat and strat.endswith('+strings'):
                # the string cast strategy yields only strings, whatever the source kind
                want_rows = [{k: str(v) for k, v in r.items()} for r in tables[n]]
            if lab.rows_diff(want_rows, rws):
                add('rows', 'resource %s: %s' % (n, lab.rows_diff(want_rows, rws)))
    return dict(nontrivial=bool(want) and any(tables[n] for n in want), violations=viol, cov=cov,
                counters=counters, sample={'config': cfg})


def run_typed_source_strings(case, rng, d, counters, cov, viol):
    """A source whose raw values are typed (JSON rows): the string strategies must yield only strings."""
    import json
    n = rng.choice([1, 3, 20])
    rows = [{'a': rng.randint(-5, 99), 'b': rng.choice([1.5, 2.25, -0.5]), 'c': rng.choice([True, False]),
             'd': rng.choice(['x', 'y z', '7']), 'e': rng.choice([None, 'v'])} for _ in range(n)]
    path = 'typed_%d.json' % case['idx']
    with open(path, 'w') as f:
        json.dump(rows, f)
    infer = rng.choice([d.load.INFER_STRINGS, d.load.INFER_FULL, d.load.INFER_PYTHON_TYPES])
    cfg = {'family': 'cast_strings', 'source': 'json', 'infer_strategy': infer, 'nrows': n}
    cov['options']['cast_strings/json/%s' % infer] = 1
    got = lab.run([d.load(path, infer_strategy=infer, cast_strategy=d.load.CAST_TO_STRINGS)], via='datastream')

    def add(kind, msg):
        viol.append({'kind': kind, 'mech': 'cast_strings/typed_source', 'msg': '%r: %s' % (cfg, msg), 'config': cfg})
    if not got.ok:
        add('unexpected_error', got.errstr())
        return dict(nontrivial=False, violations=viol, cov=cov, counters=counters)
    grows = got.results[0]
    if len(grows) != n:
        add('row_count', '%d rows expected %d' % (len(grows), n))
    for er, gr in zip(rows, grows):
        for k, ev in er.items():
            counters['cells_compared'] += 1
            gv = gr.get(k)
            if ev is None:
                ok = gv is None or isinstance(gv, str)
            else:
                ok = isinstance(gv, str) and (gv == str(ev) or (isinstance(ev, float) and float(gv) == ev))
            if not ok:
                add('non_string', 'field %r: got %r (%s) for source value %r' % (k, gv, type(gv).__name__, ev))
                return dict(nontrivial=True, violations=viol, cov=cov, counters=counters)
    return dict(nontrivial=True, violations=viol, cov=cov, counters=counters, sample={'config': cfg})
