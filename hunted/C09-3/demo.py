"""C09: dump_to_path(add_filehash_to_path=True) never rewrites an existing datapackage.json.

add_filehash_to_path makes the output directory content-addressed (<hash>/res_1.csv), so dumping
a new version of the data into the same directory is its natural use.  The second dump writes
the new data file, process() returns the new stats - but datapackage.json on disk is silently left
as it was: it still describes (path, bytes, hash, row count) the OLD data, and disagrees with the
stats returned by process().
"""
import json
import os
import shutil
import sys
import tempfile

from dataflows import Flow, dump_to_path

failures = []
workdir = tempfile.mkdtemp(prefix='c09-stale-')
try:
    out = os.path.join(workdir, 'out')

    old_rows = [dict(id=i) for i in range(5)]
    new_rows = [dict(id=i) for i in range(50)]

    Flow(old_rows, dump_to_path(out, add_filehash_to_path=True)).process()
    dp, stats = Flow(new_rows, dump_to_path(out, add_filehash_to_path=True)).process()

    with open(os.path.join(out, 'datapackage.json'), encoding='utf-8') as f:
        written = json.load(f)
    wres = written['resources'][0]
    rres = dp.descriptor['resources'][0]

    print('stats returned by the 2nd process():', {k: stats[k] for k in ('count_of_rows', 'hash')})
    print('descriptor returned by the 2nd process(): path=%s rows=%s bytes=%s'
          % (rres['path'], rres['count_of_rows'], rres['bytes']))
    print('datapackage.json on disk after the 2nd dump: path=%s rows=%s bytes=%s hash=%s, package rows=%s hash=%s'
          % (wres['path'], wres['count_of_rows'], wres['bytes'], wres['hash'],
             written['count_of_rows'], written['hash']))
    print('new data file exists on disk:', os.path.exists(os.path.join(out, rres['path'])))

    print('expected: written descriptor count_of_rows == %d, hash == %s, resource path == %s'
          % (stats['count_of_rows'], stats['hash'], rres['path']))
    if written['count_of_rows'] != stats['count_of_rows']:
        failures.append('written count_of_rows %r != stats count_of_rows %r'
                        % (written['count_of_rows'], stats['count_of_rows']))
    if written['hash'] != stats['hash']:
        failures.append('written package hash %s != stats hash %s' % (written['hash'], stats['hash']))
    if wres['path'] != rres['path']:
        failures.append('written resource path %s does not point at the file written by this dump (%s)'
                        % (wres['path'], rres['path']))
    if wres['count_of_rows'] != len(new_rows):
        failures.append('written resource count_of_rows %r != %d rows dumped'
                        % (wres['count_of_rows'], len(new_rows)))
finally:
    shutil.rmtree(workdir, ignore_errors=True)

if failures:
    print('VIOLATION:')
    for f in failures:
        print('  -', f)
    sys.exit(1)
print('OK')
