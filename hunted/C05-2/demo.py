"""
C05 - a dumper reports wrong per-resource counters when the resource descriptor that reaches it
already carries counters (which is the case for every datapackage that was itself written by
dump_to_path / dump_to_zip and is read back with load()): the new row count and byte size are
ADDED to the old values instead of replacing them.

Run in an empty cwd:  PYTHONPATH=<tree> /venv/bin/python demo.py
"""
import json
import os
import shutil
import sys

from dataflows import Flow, load, dump_to_path, filter_rows, delete_resource

A, B = 'out_c05_2a', 'out_c05_2b'
for d in (A, B):
    shutil.rmtree(d, ignore_errors=True)

try:
    # a datapackage produced by the library itself: 5 rows
    Flow([{'id': i, 'v': 'row-%d' % i} for i in range(5)], dump_to_path(A)).process()

    def prefix():
        return [load(os.path.join(A, 'datapackage.json')),
                filter_rows(lambda row: row['id'] < 2)]          # 2 rows are left

    prefix_rows = Flow(*prefix()).results()[0]

    # observer inserted after the prefix; the suffix deletes the resource
    _, stats = Flow(*prefix(), dump_to_path(B), delete_resource('res_1')).process()

    descriptor = json.load(open(os.path.join(B, 'datapackage.json')))
    res = descriptor['resources'][0]
    real_size = os.path.getsize(os.path.join(B, res['path']))
    persisted_rows = Flow(load(os.path.join(B, 'datapackage.json'))).results()[0]

    print('rows at the dumper position          :', len(prefix_rows[0]))
    print('rows actually written to %s :' % res['path'], len(persisted_rows[0]))
    print('size of the written file (bytes)     :', real_size)
    print()
    print('EXPECTED resource counters: count_of_rows=%d bytes=%d' % (len(prefix_rows[0]), real_size))
    print('OBSERVED resource counters: count_of_rows=%r bytes=%r' % (res.get('count_of_rows'), res.get('bytes')))
    print('         (package level   : count_of_rows=%r, stats count_of_rows=%r)' % (
        descriptor.get('count_of_rows'), stats.get('count_of_rows')))

    ok = res.get('count_of_rows') == len(prefix_rows[0]) and res.get('bytes') == real_size
finally:
    for d in (A, B):
        shutil.rmtree(d, ignore_errors=True)

if ok:
    print('\nOK: the dumper reported exactly the stream at its position')
    sys.exit(0)
print('\nVIOLATION: the per-resource row/byte counters persisted by the dumper are not those of the '
      'stream it saw (old counters were added to the new ones)')
sys.exit(1)
