#!/venv/bin/python
import json, sys, glob, jsonschema
schema = json.load(open('/root/.vp/EVIDENCE.schema.json'))
bad = 0
for f in sorted(glob.glob('/verif/evidence/*.json')):
    try:
        ev = json.load(open(f)); jsonschema.validate(ev, schema)
        c = ev['coverage']
        print('%s ok tier=%s eval=%d distinct=%d viol=%s wall=%.0fs' % (f.split('/')[-1], ev['tier'], c['evaluations'], c['distinct_nontrivial'], ev.get('violations'), ev['wall_s']))
    except Exception as e:
        bad += 1; print(f, 'INVALID', str(e)[:200])
sys.exit(1 if bad else 0)
