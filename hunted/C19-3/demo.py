"""C19: dump_to_path(force_format=False) lists data files in datapackage.json that it never writes.

PROCESSORS.md: with force_format=False the "format will be deduced from the file extension.
Resources with unknown extensions will be discarded."  The dumper indeed writes no data file for
such a resource - but it keeps the resource in the descriptor it writes.  The descriptor in the
fresh output directory therefore lists a file that does not exist (and carries no size / hash for
it), so its presence does not tell a consumer that every listed file is there.
The same happens for a CSV resource whose path is spelt 'REGIONS.CSV' (the extension is compared
case-sensitively).
"""
import hashlib
import json
import os
import shutil
import sys
import tempfile

from dataflows import Flow, load, dump_to_path


def main():
    work = tempfile.mkdtemp(prefix='c19-demo-')
    try:
        src = os.path.join(work, 'src')
        out = os.path.join(work, 'out')
        os.makedirs(src)
        with open(os.path.join(src, 'cities.csv'), 'w') as f:
            f.write('city,population\nparis,2100000\nlyon,520000\n')
        with open(os.path.join(src, 'REGIONS.CSV'), 'w') as f:
            f.write('region,capital\nidf,paris\nara,lyon\n')
        with open(os.path.join(src, 'rivers.tsv'), 'w') as f:
            f.write('river\tlength\nseine\t777\nrhone\t813\n')
        with open(os.path.join(src, 'datapackage.json'), 'w') as f:
            json.dump({'name': 'geo', 'resources': [
                {'name': 'regions', 'path': 'REGIONS.CSV', 'format': 'csv', 'profile': 'tabular-data-resource',
                 'schema': {'fields': [{'name': 'region', 'type': 'string'}, {'name': 'capital', 'type': 'string'}]}},
            ]}, f)

        Flow(load(os.path.join(src, 'cities.csv')),           # path cities.csv   -> CSV
             load(os.path.join(src, 'datapackage.json')),     # path REGIONS.CSV  -> CSV resource, upper-case extension
             load(os.path.join(src, 'rivers.tsv')),           # path rivers.tsv   -> "unknown extension"
             dump_to_path(out, force_format=False)).process()

        with open(os.path.join(out, 'datapackage.json'), encoding='utf-8') as f:
            dp = json.load(f)
        print('expected: datapackage.json present => every file it lists exists with the recorded size and hash')
        print('          (discarded resources are not listed)')
        print('observed: directory listing', sorted(os.listdir(out)))
        problems = []
        for res in dp['resources']:
            path = os.path.join(out, res['path'])
            if not os.path.exists(path):
                status = 'MISSING (recorded bytes=%r hash=%r)' % (res.get('bytes'), res.get('hash'))
                problems.append(res['path'])
            else:
                data = open(path, 'rb').read()
                good = len(data) == res.get('bytes') and hashlib.md5(data).hexdigest() == res.get('hash')
                status = 'ok' if good else 'MISMATCH'
                if not good:
                    problems.append(res['path'])
            print('observed: descriptor lists %-10s path %-12s -> %s' % (res['name'], res['path'], status))
        if problems:
            print('VIOLATION: the descriptor is present but these listed files are not: %s' % problems)
            return 1
        print('no violation observed')
        return 0
    finally:
        shutil.rmtree(work, ignore_errors=True)


if __name__ == '__main__':
    sys.exit(main())
