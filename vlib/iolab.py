"""io-lab: independent readers of what the dumpers wrote (no dataflows code involved).

CSV is read with csv.reader configured ONLY from the written descriptor's dialect/encoding; JSON with
json.loads; cells are cast with the Table Schema reference implementation (tableschema.Field) built
from the written field descriptors + missingValues. Sizes / md5 are computed from the raw bytes.
"""
import csv
import hashlib
import io
import json
import os
import zipfile

import tableschema


class Written:
    """A dumped package on disk (directory) or in a zip file."""

    def __init__(self, location, is_zip=False):
        self.location, self.is_zip = location, is_zip
        self._zip = zipfile.ZipFile(location) if is_zip else None

    def exists(self, path):
        if self.is_zip:
            return path in self._zip.namelist()
        return os.path.isfile(os.path.join(self.location, path))

    def read(self, path):
        if self.is_zip:
            return self._zip.read(path)
        with open(os.path.join(self.location, path), 'rb') as f:
            return f.read()

    def listing(self):
        if self.is_zip:
            return sorted(self._zip.namelist())
        out = []
        for root, _, files in os.walk(self.location):
            for fn in files:
                out.append(os.path.relpath(os.path.join(root, fn), self.location))
        return sorted(out)

    def descriptor(self):
        return json.loads(self.read('datapackage.json').decode('utf-8'))

    def close(self):
        if self._zip is not None:
            self._zip.close()


def md5(data):
    return hashlib.md5(data).hexdigest()


def fields_of(res_desc):
    schema = res_desc.get('schema', {})
    return tableschema.Schema({'fields': schema.get('fields', []),
                               'missingValues': schema.get('missingValues', [''])}).fields


def raw_csv_rows(res_desc, data):
    """-> (header, rows of cell text) using only the recorded dialect and encoding."""
    dialect = res_desc.get('dialect', {})
    text = data.decode(res_desc.get('encoding', 'utf-8'))
    kw = dict(delimiter=dialect.get('delimiter', ','), quotechar=dialect.get('quoteChar', '"'),
              doublequote=dialect.get('doubleQuote', True),
              skipinitialspace=dialect.get('skipInitialSpace', False))
    if 'escapeChar' in dialect:
        kw['escapechar'] = dialect['escapeChar']
    # the independent reader must not impose a limit the written format does not have - but the process-wide limit is
    # put back at once, because the library under test reads CSV in this same process
    old_limit = csv.field_size_limit(2 ** 31 - 1)
    try:
        rows = list(csv.reader(io.StringIO(text, newline=''), **kw))
    finally:
        csv.field_size_limit(old_limit)
    if not rows:
        return [], []
    return rows[0], rows[1:]


def count_data_rows(res_desc, data):
    fmt = res_desc.get('format')
    if fmt == 'csv':
        return len(raw_csv_rows(res_desc, data)[1])
    if fmt == 'json':
        return len(json.loads(data.decode(res_desc.get('encoding', 'utf-8'))))
    if fmt == 'geojson':
        doc = json.loads(data.decode(res_desc.get('encoding', 'utf-8')))
        if doc.get('type') != 'FeatureCollection':
            raise ValueError('not a FeatureCollection')
        return len(doc['features'])
    if fmt == 'xlsx':
        import io
        import openpyxl
        wb = openpyxl.load_workbook(io.BytesIO(data), read_only=True)
        try:
            if len(wb.sheetnames) != 1:
                raise ValueError('sheets %r' % wb.sheetnames)
            n = sum(1 for _ in wb[wb.sheetnames[0]].iter_rows(values_only=True))
        finally:
            wb.close()
        return max(n - 1, 0)
    raise ValueError(fmt)


def decode(res_desc, data):
    """-> list of typed dict rows, decoded from the bytes with nothing but the descriptor."""
    fields = fields_of(res_desc)
    fmt = res_desc.get('format')
    out = []
    if fmt == 'csv':
        header, rows = raw_csv_rows(res_desc, data)
        names = [f.name for f in fields]
        if header != names:
            raise ValueError('csv header %r != schema fields %r' % (header, names))
        for cells in rows:
            if len(cells) != len(fields):
                raise ValueError('csv row width %d != %d: %r' % (len(cells), len(fields), cells))
            out.append({f.name: f.cast_value(c) for f, c in zip(fields, cells)})
    elif fmt == 'json':
        for obj in json.loads(data.decode(res_desc.get('encoding', 'utf-8'))):
            extra = set(obj) - {f.name for f in fields}
            if extra:
                raise ValueError('json row has undeclared keys %r' % sorted(extra))
            out.append({f.name: f.cast_value(obj.get(f.name)) for f in fields})
    else:
        raise ValueError('unknown format %r' % fmt)
    return out


# ---- ndjson streams / checkpoints (independent reader of the extended-JSON encoding) -------------

def _untag(obj):
    import datetime
    import decimal
    if isinstance(obj, list):
        return [_untag(x) for x in obj]
    if isinstance(obj, dict):
        if len(obj) == 1:
            (k, v), = obj.items()
            if k == 'type{decimal}':
                return decimal.Decimal(v)
            if k == 'type{date}':
                return datetime.date(*[int(p) for p in v.split('-')])
            if k == 'type{time}':
                hms, _, frac = v.partition('.')
                h, m, s = [int(p) for p in hms.split(':')]
                return datetime.time(h, m, s, int(frac.ljust(6, '0')) if frac else 0)
            if k == 'type{datetime}':
                iso, ofs, name = v
                dpart, tpart = iso.split('T')
                hms, _, frac = tpart.partition('.')
                y, mo, d = [int(p) for p in dpart.split('-')]
                h, m, s = [int(p) for p in hms.split(':')]
                tz = None
                if ofs is not None:
                    td = datetime.timedelta(seconds=ofs)
                    tz = datetime.timezone(td, name) if name is not None else datetime.timezone(td)
                return datetime.datetime(y, mo, d, h, m, s, int(frac.ljust(6, '0')) if frac else 0, tzinfo=tz)
            if k == 'type{set}':
                return set(_untag(x) for x in v)
        return {k: _untag(v) for k, v in obj.items()}
    return obj


def parse_ndjson(text):
    """-> (descriptor, [rows per resource], complete: bool, problems: [str]).
    Layout written by `stream`: descriptor line, then per resource its rows followed by one blank line."""
    problems = []
    lines = text.split('\n')
    if text and not text.endswith('\n'):
        problems.append('last line not newline-terminated')
    if lines and lines[-1] == '':
        lines = lines[:-1]
    if not lines:
        return None, [], False, ['empty']
    try:
        desc = json.loads(lines[0])
    except Exception as e:
        return None, [], False, ['descriptor line unparseable: %s' % e]
    resources, cur, terminated = [], [], 0
    for ln in lines[1:]:
        if ln == '':
            resources.append(cur)
            cur = []
            terminated += 1
            continue
        try:
            cur.append(_untag(json.loads(ln)))
        except Exception as e:
            problems.append('row line unparseable: %s' % e)
            break
    if cur:
        problems.append('rows after the last terminator')
        resources.append(cur)
    want = len(desc.get('resources', []))
    if terminated != want:
        problems.append('%d resource terminators for %d resources' % (terminated, want))
    return desc, resources, not problems, problems
