"""join keeps its key index in the step object, across runs of the Flow.

join_aux() creates its two KVFile indexes when the step is BUILT, not when it runs.
 (a) A Flow whose run was interrupted by an error (here: a transient failure in a later
     step) and is run again still holds the source rows of the first attempt: every
     aggregate is computed over the source rows twice.
 (b) After a successful run the indexes are closed, so running the same Flow (or re-using
     the same join step in another Flow) fails with an empty AssertionError.
All inputs are plain lists, so the Flow itself is perfectly re-iterable.
"""
import sys
import warnings

from dataflows import Flow, join

warnings.simplefilter('ignore')

source = [{'k': 'a', 'v': 1}, {'k': 'a', 'v': 2}]
target = [{'k': 'a'}]
fields = {
    'n': {'aggregate': 'count'},
    'total': {'name': 'v', 'aggregate': 'sum'},
    'values': {'name': 'v', 'aggregate': 'array'},
}
expected = [{'k': 'a', 'n': 2, 'total': 3, 'values': [1, 2]}]
failed = False

# (a) retry after a transient failure downstream of the join
state = {'fail': True}


def flaky(row):
    if state['fail']:
        state['fail'] = False
        raise RuntimeError('transient failure')


flow = Flow(source, target, join('res_1', ['k'], 'res_2', ['k'], fields), flaky)
try:
    flow.results()
    print('(a) unexpected: first attempt did not fail')
except Exception as e:
    print('(a) first attempt failed as arranged:', type(e).__name__)
observed = flow.results()[0][0]
print('(a) expected on retry:', expected)
print('(a) observed on retry:', observed)
if observed != expected:
    print('(a) VIOLATION: aggregates include the source rows of the aborted first attempt')
    failed = True

# (b) plain second run of a Flow that succeeded
flow = Flow(source, target, join('res_1', ['k'], 'res_2', ['k'], fields))
first = flow.results()[0][0]
print('(b) first run :', first)
try:
    second = flow.results()[0][0]
    print('(b) second run:', second)
    if second != expected:
        print('(b) VIOLATION: second run differs')
        failed = True
except Exception as e:
    cause = e.__cause__ if e.__cause__ is not None else e
    print('(b) second run raised %s(%r) caused by %s(%r)' % (
        type(e).__name__, str(e), type(cause).__name__, str(cause)))
    print('(b) VIOLATION: the same Flow over the same lists cannot be run again')
    failed = True

sys.exit(1 if failed else 0)
