"""C16 - concatenate declares a primaryKey on its target that the concatenated rows do not have:
  (a) of a composite key only the fields that are mapped are kept (['year', 'month'] -> ['year']),
  (b) the key of the first resource is declared for the union of all concatenated resources.
The rows themselves are fine, but the descriptor now makes a false claim: the dump of the result cannot be
loaded back (duplicate key) and deduplicate() - which trusts the key - removes rows.

Run:  PYTHONPATH=<tree> /venv/bin/python demo.py      (exit status 1 = the property is violated)
"""
import shutil
import sys
import tempfile

from dataflows import Flow, concatenate, deduplicate, dump_to_path, load, set_primary_key, update_resource

failed = False
tmp = tempfile.mkdtemp(prefix='c16-pk-')


def check(label, steps, expected):
    """steps() gives fresh steps ending with concatenate; expected = rows of the concatenated resource"""
    global failed
    results, dp, _ = Flow(*steps()).results()
    target = dp.descriptor['resources'][0]
    pk = target['schema'].get('primaryKey')
    print('--', label)
    print('   rows emitted by concatenate:', results[0], '(as expected)' if results[0] == expected else '(UNEXPECTED)')
    print('   declared primaryKey of %r: %r' % (target['name'], pk))
    if pk:
        keys = [tuple(row[k] for k in pk) for row in results[0]]
        if len(set(keys)) != len(keys):
            failed = True
            print('   -> not a key of these rows: key values', keys)
    # consequence 1: dump and load back
    out = tempfile.mkdtemp(dir=tmp)
    Flow(*steps(), dump_to_path(out)).process()
    try:
        back = Flow(load(out + '/datapackage.json')).results()[0][0]
        print('   dump_to_path + load: %d of %d rows' % (len(back), len(expected)))
        if back != expected:
            failed = True
    except Exception as e:
        failed = True
        print('   dump_to_path + load raises %s: %s' % (type(e).__name__, ' '.join(str(e).split())[:200]))
    # consequence 2: a step that relies on the declared key
    dedup = Flow(*steps(), deduplicate()).results()[0][0]
    print('   followed by deduplicate(): %d of %d rows are left (no two rows are equal)' % (len(dedup), len(expected)))
    if dedup != expected:
        failed = True


try:
    # (a) one resource, composite key, only a part of the key is kept by the field mapping
    monthly = [{'year': 2019, 'month': 1, 'total': 10},
               {'year': 2019, 'month': 2, 'total': 20},
               {'year': 2020, 'month': 1, 'total': 30}]
    check('(a) composite key [year, month], concatenate keeps year and total',
          lambda: [[dict(r) for r in monthly], set_primary_key(['year', 'month']),
                   concatenate({'year': [], 'total': []})],
          [{'year': r['year'], 'total': r['total']} for r in monthly])

    # (b) two resources, each with a valid key 'id' of its own
    first = [{'id': 1, 'name': 'one'}, {'id': 2, 'name': 'two'}]
    second = [{'id': 1, 'title': 'uno'}, {'id': 3, 'title': 'tres'}]
    check('(b) two resources, each keyed by its own id',
          lambda: [[dict(r) for r in first], [dict(r) for r in second], set_primary_key(['id']),
                   concatenate({'id': [], 'name': ['title']})],
          [{'id': 1, 'name': 'one'}, {'id': 2, 'name': 'two'}, {'id': 1, 'name': 'uno'}, {'id': 3, 'name': 'tres'}])
finally:
    shutil.rmtree(tmp, ignore_errors=True)

if failed:
    print('VIOLATION: the resource produced by concatenate declares a primary key that its rows do not satisfy; '
          'downstream the rows are rejected or lost')
    sys.exit(1)
print('OK')
sys.exit(0)
