"""C09: re-dumping a loaded dump with renamed or disabled counters leaves the OLD dump's
bytes / hash / count_of_rows in the written resource descriptor, where they contradict the new file.

The dumpers restart counters carried over from an earlier dump only under the names THEY write to.
`counters` is documented: every counter may be renamed (also dotted) or set to null "to prevent the
counting".  `bytes` and `hash` are the standard Data Package resource properties for the size / digest
of the file at `path`, so a descriptor that keeps stale ones describes a file that is not the written one.
"""
import hashlib
import json
import os
import shutil
import sys
import tempfile

from dataflows import Flow, dump_to_path, filter_rows, load

CASES = [
    ('hash counter disabled', {'resource-hash': None}),
    ('bytes counter disabled', {'resource-bytes': None}),
    ('resource counters renamed (nested with dots)', {'resource-rowcount': 'stats.rows',
                                                     'resource-bytes': 'stats.bytes',
                                                     'resource-hash': 'stats.md5'}),
]


def main():
    tmp = tempfile.mkdtemp(prefix='c09-demo-', dir='.')
    failed = False
    try:
        first = os.path.join(tmp, 'first')
        Flow([{'id': i, 'text': 'row %d' % i} for i in range(10)], dump_to_path(first)).process()
        for n, (title, counters) in enumerate(CASES):
            out = os.path.join(tmp, 'second-%d' % n)
            Flow(
                load(os.path.join(first, 'datapackage.json')),
                filter_rows(lambda row: row['id'] < 3),          # 3 of the 10 rows survive
                dump_to_path(out, format='json', counters=counters),
            ).process()
            with open(os.path.join(out, 'datapackage.json')) as f:
                resource = json.load(f)['resources'][0]
            with open(os.path.join(out, resource['path']), 'rb') as f:
                data = f.read()
            actual = dict(bytes=len(data), hash=hashlib.md5(data).hexdigest(), count_of_rows=len(json.loads(data)))
            print('--- %s: counters=%r' % (title, counters))
            print('written file %s: %r' % (resource['path'], actual))
            for key, value in actual.items():
                if key in resource and resource[key] != value:
                    failed = True
                    print('   descriptor records %s=%r, expected %r (or no such property)' % (key, resource[key], value))
            if 'stats' in resource:
                print('   (renamed counters, correct: %r)' % resource['stats'])
    finally:
        shutil.rmtree(tmp, ignore_errors=True)
    if failed:
        print('VIOLATION: the written descriptor records a byte count / MD5 hash / row count that is not '
              "the written file's - it is the previous dump's CSV file (10 rows)")
        sys.exit(1)
    print('OK: everything the descriptor records about the file is true')


if __name__ == '__main__':
    main()
