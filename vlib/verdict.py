"""Aggregation of case results into a verdict, evidence file, replay files.

A case result (returned by checks/cXX.run_case) is a dict:
  nontrivial : bool      the deciding monitor made >=1 non-vacuous comparison (rule per check)
  violations : [ {kind, mech, msg, ...} ]   structural records; `mech` names the mechanism
  cov        : {table: {cell: n}}           coverage tables (summed)
  counters   : {name: n}                    monitor reach counters (summed)
  sample     : anything JSON-able           rendering of the inputs, for evidence samples
  inconclusive : str|None                   reason this case could not be decided
"""
import json
import os
import time

from . import boot

KF_PATH = os.path.join(boot.VERIF, 'known_findings.json')
# evidence / replay files normally go to the checkout; tools that evaluate OTHER trees in parallel redirect them
OUT = os.environ.get('VERIF_EVIDENCE_DIR') or boot.VERIF


def load_known():
    with open(KF_PATH) as f:
        return json.load(f)['findings']


def kf_match(entry, prop, v):
    if entry.get('property') != prop or entry.get('status') != 'open':
        return False
    for k, want in entry.get('match', {}).items():
        got = v.get(k)
        if isinstance(want, list):
            if got not in want:
                return False
        elif got != want:
            return False
    return True


class Aggregate:
    def __init__(self, prop, level, tier, seed, rule, assumptions, required_counters=()):
        self.prop, self.level, self.tier, self.seed = prop, level, tier, seed
        self.rule, self.assumptions = rule, list(assumptions)
        self.required = list(required_counters)
        self.evaluations = 0
        self.distinct = set()
        self.cov = {}
        self.counters = {}
        self.samples = []
        self.violations = []      # (case, violation)
        self.inconclusive = []
        self.extra = {}
        self.t0 = time.time()

    def add(self, case, res):
        self.evaluations += 1
        h = boot.chash(case)
        if res.get('nontrivial'):
            self.distinct.add(h)
        for t, cells in (res.get('cov') or {}).items():
            tt = self.cov.setdefault(t, {})
            for c, n in cells.items():
                tt[c] = tt.get(c, 0) + n
        for c, n in (res.get('counters') or {}).items():
            self.counters[c] = self.counters.get(c, 0) + n
        if res.get('sample') is not None and res.get('nontrivial') and len(self.samples) < 4 \
                and (not self.samples or case.get('family') not in
                     [s['case'].get('family') for s in self.samples]):
            self.samples.append({'case': case, 'inputs': res['sample']})
        for v in res.get('violations') or []:
            self.violations.append((case, v))
        if res.get('inconclusive'):
            self.inconclusive.append((case, res['inconclusive']))

    def finish(self, exhaustive=None):
        """Classify, write evidence + replays, print verdict lines, return exit code."""
        known = load_known()
        prop = self.prop
        kf_hits = {}
        new = {}
        for case, v in self.violations:
            ent = next((e for e in known if kf_match(e, prop, v)), None)
            if ent is not None:
                kf_hits.setdefault(ent['slug'], [ent, 0, (case, v)])[1] += 1
            else:
                key = (v.get('kind'), v.get('mech'))
                new.setdefault(key, []).append((case, v))
        for slug, (ent, n, _) in sorted(kf_hits.items()):
            print('KNOWN-FINDING: property=%s %s [%s; observed in %d case(s) this run]'
                  % (prop, ent['what'], slug, n))
        rdir = os.path.join(OUT, 'replays', prop)
        nviol = 0
        for key, lst in sorted(new.items(), key=lambda kv: str(kv[0])):
            if nviol >= 10:
                break
            case, v = lst[0]
            os.makedirs(rdir, exist_ok=True)
            path = os.path.join(rdir, '%s-%s.json' % (str(key[0]), boot.chash([case, key])))
            with open(path, 'w') as f:
                json.dump({'property': prop, 'case': case, 'violation': v,
                           'same_mechanism_cases': len(lst), 'tree': boot.tree_identity()},
                          f, indent=1, default=repr)
            print('VIOLATION property=%s replay=%s' % (prop, path))
            print('  kind=%s mech=%s cases=%d: %s' % (key[0], key[1], len(lst),
                                                     str(v.get('msg'))[:400]))
            nviol += 1
        missing = [c for c in self.required if not self.counters.get(c)]
        inconc = None
        if missing:
            inconc = 'monitor reach counters are zero: %s' % ','.join(missing)
        elif self.inconclusive and not new:
            # undecided cases: tolerated only if rare (shared machine), reported always
            if len(self.inconclusive) > max(2, self.evaluations // 50):
                inconc = '%d undecided cases, e.g. %s' % (len(self.inconclusive),
                                                          str(self.inconclusive[0][1])[:200])
        if len(self.distinct) < 2 and not new:
            inconc = inconc or 'fewer than 2 distinct non-trivial cases'
        cov = {
            'evaluations': self.evaluations,
            'distinct_nontrivial': len(self.distinct),
            'rule': self.rule,
            'samples': self.samples or [{'note': 'no non-trivial case'}],
            'tables': self.cov,
            'monitor_counters': self.counters,
            'undecided_cases': len(self.inconclusive),
            'undecided_reasons': [str(r)[:300] for _, r in self.inconclusive[:5]],
            'known_finding_hits': {s: n for s, (_, n, _) in kf_hits.items()},
            'new_violation_mechanisms': [list(map(str, k)) for k in new],
            'tree': boot.tree_identity(),
        }
        if exhaustive is not None:
            cov['exhaustive'] = bool(exhaustive)
        cov.update(self.extra)
        ev = {
            'property_id': prop, 'tier': self.tier, 'seed': self.seed, 'level': self.level,
            'coverage': cov, 'assumptions': self.assumptions,
            'wall_s': round(time.time() - self.t0, 2), 'violations': len(new),
        }
        os.makedirs(os.path.join(OUT, 'evidence'), exist_ok=True)
        with open(os.path.join(OUT, 'evidence', prop + '.json'), 'w') as f:
            json.dump(ev, f, indent=1, default=repr, sort_keys=True)
        print('%s tier=%s seed=%s evaluations=%d distinct_nontrivial=%d known=%d new=%d undecided=%d wall=%.1fs'
              % (prop, self.tier, self.seed, self.evaluations, len(self.distinct),
                 len(kf_hits), len(new), len(self.inconclusive), time.time() - self.t0))
        if new:
            return 1
        if inconc:
            print('INCONCLUSIVE property=%s reason=%s' % (prop, inconc))
            return 2
        return 0
