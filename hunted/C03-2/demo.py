"""C03: a package dumped with format='json' does not load back to the same typed values when
array / object cells contain non-integer JSON numbers: every float nested in such a cell comes
back as decimal.Decimal ([0.1] != [Decimal('0.1')]), and the loaded rows can no longer be
dumped to CSV at all (json.dumps chokes on Decimal).
The same table dumped with format='csv' round-trips exactly.
"""
import logging
import os
import shutil
import sys
import tempfile

from dataflows import Flow, dump_to_path, dump_to_zip, load, set_type, update_resource

logging.disable(logging.CRITICAL)  # the dumper logs a long traceback for the re-dump failure shown below
workdir = tempfile.mkdtemp(prefix='c03-nested-')
ROWS = [
    dict(id=1, readings=[0.1, 2.5, -3.75], meta={'scale': 0.25, 'tags': ['a', 'b'], 'limits': [1.5, 10]}),
    dict(id=2, readings=[], meta={}),
]


def typed_source():
    return [
        [dict(r) for r in ROWS],
        update_resource(-1, name='sensors', path='sensors.csv'),
        set_type('id', type='integer'),
        set_type('readings', type='array'),
        set_type('meta', type='object'),
    ]


def strict_equal(a, b):
    """equal values AND equal python types, recursively"""
    if type(a) is not type(b):
        return False
    if isinstance(a, dict):
        return set(a) == set(b) and all(strict_equal(a[k], b[k]) for k in a)
    if isinstance(a, list):
        return len(a) == len(b) and all(strict_equal(x, y) for x, y in zip(a, b))
    return a == b


failed = False
try:
    for fmt in ('csv', 'json'):
        for kind in ('path', 'zip'):
            out = os.path.join(workdir, 'out_%s_%s' % (fmt, kind))
            if kind == 'path':
                dumper = dump_to_path(out, format=fmt)
                source, kw = os.path.join(out, 'datapackage.json'), {}
            else:
                dumper = dump_to_zip(out + '.zip', format=fmt)
                source, kw = out + '.zip', dict(format='datapackage')
            entered = Flow(*typed_source(), dumper).results()[0][0]
            loaded = Flow(load(source, **kw)).results()[0][0]
            same = len(entered) == len(loaded) and all(strict_equal(a, b) for a, b in zip(entered, loaded))
            print('format=%-4s via %-4s: %s' % (fmt, kind, 'round trip OK' if same else 'ROUND TRIP DIFFERS'))
            if not same:
                failed = True
                print('   expected:', entered[0])
                print('   observed:', loaded[0])
                print('   plain == of first row:', entered[0] == loaded[0])
                # consequence: the loaded package cannot be written as CSV any more
                try:
                    Flow(load(source, **kw), dump_to_path(os.path.join(workdir, 're_dump'))).process()
                    print('   re-dumping the loaded package as CSV: ok')
                except Exception as e:
                    print('   re-dumping the loaded package as CSV fails: %s' % str(e).strip().splitlines()[-1])
finally:
    shutil.rmtree(workdir, ignore_errors=True)

if failed:
    print('VIOLATION: array/object cells of a JSON-format dump do not load back to the values that were dumped')
    sys.exit(1)
print('no violation observed')
sys.exit(0)
