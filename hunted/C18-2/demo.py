"""C18 - the predicate is evaluated twice for the first selected row.

parallelize(row_func, predicate=p) must apply row_func exactly once to every row for which the
predicate holds and pass the others through, i.e. behave like the sequential loop

    for row in rows:
        if p(row):
            row_func(row)
        yield row

up to row order.  fork() evaluates p(row) to find the first selected row, pushes that row back in
front of the stream and producer() evaluates p(row) a second time.  A predicate that keeps state -
here the classic "only fetch every url once" - answers False the second time, so the first selected
row is bypassed WITHOUT row_func being applied (and without any worker ever seeing it).
"""
import sys

from dataflows import Flow, parallelize


def fetch(row):
    row['fetched'] = True


def only_first_occurrence():
    seen = set()

    def predicate(row):
        if row['url'] in seen:
            return False
        seen.add(row['url'])
        return True
    return predicate


def make_rows():
    return [dict(url='http://example.com/%d' % (i % 4), fetched=False) for i in range(8)]


def main():
    # sequential reference semantics
    expected = []
    predicate = only_first_occurrence()
    for row in make_rows():
        if predicate(row):
            fetch(row)
        expected.append(row)

    failures = 0
    for workers in (1, 2, 4):
        calls = []
        inner = only_first_occurrence()

        def counting_predicate(row, inner=inner, calls=calls):
            calls.append(row['url'])
            return inner(row)

        observed = Flow(make_rows(),
                        parallelize(fetch, num_processors=workers, predicate=counting_predicate)
                        ).results()[0][0]
        key = lambda r: (r['url'], r['fetched'])
        exp, obs = sorted(map(key, expected)), sorted(map(key, observed))
        print('num_processors=%d' % workers)
        print('  expected (multiset): %s' % exp)
        print('  observed (multiset): %s' % obs)
        print('  predicate calls: %d for %d rows (expected %d)' % (len(calls), len(observed), len(observed)))
        if exp != obs or len(calls) != len(observed):
            failures += 1
            missing = [k for k in exp if k not in obs]
            print('  -> row_func was never applied to %s although the predicate selected it' % missing)
    if failures:
        print('VIOLATION: the first selected row is delivered unprocessed (predicate evaluated twice)')
        return 1
    print('OK: property holds')
    return 0


if __name__ == '__main__':
    sys.exit(main())
