"""C01: checkpoint(name, steps=[...]) placed after other steps of a Flow runs its own steps
BEFORE the steps that precede it in the flow, so Flow(s1, checkpoint(steps=[s2])) is not
s1-then-s2.  Evaluating the two links one at a time, wrapping the checkpoint in an always-true
conditional, or writing the steps ungrouped all give the expected rows."""
import contextlib
import io
import os
import shutil
import sys
import tempfile

from dataflows import Flow, checkpoint, conditional, DataStream, ResourceWrapper
from datapackage import Package


def inc(row):
    row['a'] += 1


def data():
    return [{'a': 1}, {'a': 2}]


def rows_of(datastream):
    return [list(resource) for resource in datastream.res_iter]


def run(func):
    # every run gets its own (empty) checkpoint directory: nothing is ever loaded from a checkpoint
    path = tempfile.mkdtemp(dir='.')
    try:
        with contextlib.redirect_stdout(io.StringIO()):
            return func(path)
    finally:
        shutil.rmtree(path, ignore_errors=True)


def step_by_step(path):
    # link 1 on its own, fully materialised ...
    first = Flow(data()).datastream()
    rows = rows_of(first)
    dp = Package(first.dp.descriptor)
    materialised = DataStream(dp, [ResourceWrapper(res, iter(r)) for res, r in zip(dp.resources, rows)])
    # ... then link 2 on that output
    return rows_of(Flow(checkpoint('cp', checkpoint_path=path, steps=[inc])).datastream(materialised))


def main():
    workdir = tempfile.mkdtemp()
    cwd = os.getcwd()
    os.chdir(workdir)
    try:
        expected = run(step_by_step)
        wrapped = run(lambda path: Flow(
            data(),
            conditional(lambda dp: True, Flow(checkpoint('cp', checkpoint_path=path, steps=[inc]))),
        ).results()[0])
        ungrouped = run(lambda path: Flow(data(), inc, checkpoint('cp', checkpoint_path=path)).results()[0])
        observed = run(lambda path: Flow(data(), checkpoint('cp', checkpoint_path=path, steps=[inc])).results()[0])
    finally:
        os.chdir(cwd)
        shutil.rmtree(workdir, ignore_errors=True)

    print('links: [{a:1},{a:2}] , checkpoint("cp", steps=[inc])      (inc: row["a"] += 1)')
    print('expected (one link at a time)                 :', expected)
    print('checkpoint wrapped in conditional(always true):', wrapped)
    print('Flow(data, inc, checkpoint("cp"))             :', ungrouped)
    print('observed Flow(data, checkpoint(steps=[inc]))  :', observed)
    if observed == expected == wrapped == ungrouped:
        print('OK: chained execution equals step-by-step evaluation')
        return 0
    print('VIOLATION: the checkpoint ran its own steps before the steps that precede it in the flow: '
          'inc saw no rows and silently had no effect')
    return 1


if __name__ == '__main__':
    sys.exit(main())
