"""C01: lazy chained execution != step-by-step evaluation (unstream / resumed checkpoint).

A two-resource package is written with stream() and read back with unstream(); the next step is an
ordinary `rows` callable that keeps the first two rows of every resource (itertools.islice).

Step by step (unstream's output fully materialised, then head2 applied) every resource keeps ITS
first two rows.  Chained lazily, all resource readers of unstream() share one file handle and a
reader that was not read to its end is not skipped: the second resource is served the remaining
rows of the FIRST resource.  The same happens through checkpoint(): the resumed run of an unchanged
flow returns different rows than its first run.
"""
import contextlib
import io
import itertools
import os
import shutil
import sys

from dataflows import Flow, stream, unstream, checkpoint


def head2(rows):
    yield from itertools.islice(rows, 2)


def res_a():
    return [{'id': i, 'v': 'a%d' % i} for i in range(6)]


def res_b():
    return [{'id': 50 + i, 'w': 'b%d' % i} for i in range(4)]


def raw_rows(flow):
    # datastream(): the rows exactly as the last step emits them (no validation on top)
    ds = flow.datastream()
    return [list(r) for r in ds.res_iter]


workdir = 'c01_demo_tmp'
shutil.rmtree(workdir, ignore_errors=True)
os.makedirs(workdir)
failed = False
try:
    path = os.path.join(workdir, 'pkg.ndjson')
    Flow(res_a(), res_b(), stream(path)).process()

    # step by step: materialise unstream's output, then apply head2 to every resource
    materialised = raw_rows(Flow(unstream(path)))
    expected = [list(head2(iter(rows))) for rows in materialised]
    observed = raw_rows(Flow(unstream(path), head2))
    print('== unstream(file), head2')
    print('expected (step by step):', expected)
    print('observed (Flow(...))   :', observed)
    if expected != observed:
        failed = True
        print('-> MISMATCH: resource 2 holds rows of resource 1')

    # the same through checkpoint(): first run vs resumed run of the very same pipeline
    cp_dir = os.path.join(workdir, 'cp')

    def pipeline():
        return Flow(res_a(), res_b(), checkpoint('c01', checkpoint_path=cp_dir), head2)

    with contextlib.redirect_stdout(io.StringIO()):
        first = raw_rows(pipeline())
        resumed = raw_rows(pipeline())
    print('== res_a, res_b, checkpoint, head2')
    print('first run  :', first)
    print('resumed run:', resumed)
    if first != resumed:
        failed = True
        print('-> MISMATCH: the resumed run does not reproduce the first run')
finally:
    shutil.rmtree(workdir, ignore_errors=True)

if failed:
    print('VIOLATION: the chained flow does not produce the rows of the step-by-step evaluation')
    sys.exit(1)
print('ok')
