"""C10: an integer selects ONE resource by position (negative from the end).
The matcher translates the position into a name and then matches by name, so when two resources
carry the same name -- which the library itself produces when two (valid) data packages that both
call their resource 'data' are loaded one after the other -- resources=-1 / resources=0 selects
both of them, and the step changes a resource that was not selected."""
import shutil
import sys

from dataflows import (Flow, load, dump_to_path, update_resource, set_type, add_field,
                       filter_rows, delete_resource)

try:
    # two independent, valid data packages; both call their only resource 'data'
    Flow([dict(a=1), dict(a=2)], update_resource(-1, name='data', path='data.csv'),
         dump_to_path('pkg_2019')).process()
    Flow([dict(a=3), dict(a=4)], update_resource(-1, name='data', path='data.csv'),
         dump_to_path('pkg_2020')).process()

    def run(*extra):
        rows, dp, _ = Flow(load('pkg_2019/datapackage.json'),
                           load('pkg_2020/datapackage.json'),
                           *extra).results()
        return [(r, rs) for r, rs in zip(dp.descriptor['resources'], rows)]

    reference = run()
    print('resource names by position:', [r['name'] for r, _ in reference])

    failed = False
    checks = [
        # (description, step, position that is selected)
        ("set_type('a', type='number')  [default resources=-1]", set_type('a', type='number'), 1),
        ("add_field('d', 'integer', 7, resources=-1)", add_field('d', 'integer', 7, resources=-1), 1),
        ("filter_rows(lambda row: False, resources=0)", filter_rows(lambda row: False, resources=0), 0),
        ("delete_resource(0)", delete_resource(0), 0),
    ]
    for description, step, selected in checks:
        other = 1 - selected
        observed = run(step)
        print(description)
        print('  expected: only position %d changes; position %d keeps descriptor and rows %r'
              % (selected, other, reference[other][1]))
        if len(observed) == 2:
            same = observed[other] == reference[other]
            print('  observed: position %d %s: fields %r rows %r'
                  % (other, 'unchanged' if same else 'CHANGED',
                     [(f['name'], f['type']) for f in observed[other][0]['schema']['fields']],
                     observed[other][1]))
        else:
            # delete_resource(0): exactly the second resource must remain
            same = observed == [reference[other]]
            print('  observed: %d resource(s) left: %r' % (len(observed), [rs for _, rs in observed]))
        failed = failed or not same
finally:
    shutil.rmtree('pkg_2019', ignore_errors=True)
    shutil.rmtree('pkg_2020', ignore_errors=True)

if failed:
    print('VIOLATION: an integer selector changed a resource at another position')
    sys.exit(1)
print('ok')
