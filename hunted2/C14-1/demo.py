"""C14: a custom 4-argument on_error handler that also has a keyword-only parameter (or a
keyword bound with functools.partial, or **kwargs) is taken for a 5-argument handler."""
import functools
import sys

from dataflows import Flow, set_type, validate

DATA = [{'a': '1', 'b': 'x'}, {'a': 'oops', 'b': 'y'}, {'a': '3', 'b': 'z'}]
EXPECTED_ROWS = [{'a': 1, 'b': 'x'}, {'a': 3, 'b': 'z'}]


def log_and_drop(resource_name, row, row_index, exception, *, log):
    # documented 4-argument form: callback(resource_name, row, row_index, exception)
    log.append((resource_name, row_index))
    return False      # drop the row


def log_and_drop_kw(resource_name, row, row_index, exception, **extra):
    return False


def run(label, make_step):
    log = []
    handlers = {
        'partial(handler, log=...)': functools.partial(log_and_drop, log=log),
        'handler with **kwargs': log_and_drop_kw,
    }
    failures = 0
    for hname, handler in handlers.items():
        del log[:]
        try:
            # the handler really is callable with the four documented arguments
            assert handler('res', {}, 0, None) is False
            del log[:]
            results, _, _ = Flow([dict(r) for r in DATA], make_step(handler)).results(on_error=None)
            observed = results[0]
        except Exception as e:
            observed = 'run aborted: %r' % (getattr(e, 'cause', e),)
        ok = observed == EXPECTED_ROWS
        print('%s, on_error=%s' % (label, hname))
        print('   expected: row #1 dropped ->', EXPECTED_ROWS)
        print('   observed:', observed)
        failures += 0 if ok else 1
    return failures


failures = 0
failures += run('set_type(a, type=integer)', lambda h: set_type('a', type='integer', on_error=h))
failures += run('validate()', lambda h: Flow(
    # declare the type without checking, then check with validate()
    set_type('a', type='integer', on_error=lambda *a: True),
    validate(on_error=h)))

if failures:
    print('VIOLATION: a 4-argument error handler was called with 5 positional arguments; '
          'the policy it implements (drop) was not applied')
    sys.exit(1)
print('ok')
