#!/bin/bash
# rebase_seeds.sh : re-express every seeded patch that no longer applies to /repo HEAD as a patch against HEAD
# (cherry-pick of "base + patch" onto HEAD in a scratch worktree); conflicts are listed, nothing is forced.
set -u
head=$(git -C /repo rev-parse HEAD)
for d in /verif/seeded/C*/; do
  n=$(basename $d)
  git -C /repo apply --check $d/patch.diff 2>/dev/null && continue
  base=$(python3 -c "import json;print(json.load(open('$d/meta.json')).get('patch_base',''))")
  [ -z "$base" ] && { echo "$n: no patch_base"; continue; }
  wt=/tmp/rb-$n-$$
  git -C /repo worktree add -q --detach $wt $base || { echo "$n: cannot add worktree"; continue; }
  if git -C $wt apply $d/patch.diff 2>/dev/null; then
    git -C $wt -c user.name=x -c user.email=x@x commit -qam "seed $n" 
    c=$(git -C $wt rev-parse HEAD)
    git -C $wt checkout -q --detach $head
    if git -C $wt -c user.name=x -c user.email=x@x cherry-pick -n $c >/dev/null 2>&1; then
      [ -f $d/patch.orig.diff ] || cp $d/patch.diff $d/patch.orig.diff
      git -C $wt diff HEAD > $d/patch.diff
      python3 - "$d" "$head" <<'PY'
import json, sys
p = sys.argv[1] + '/meta.json'
m = json.load(open(p))
m.setdefault('patch_base_original', m.get('patch_base'))
m['patch_base'] = sys.argv[2][:7]
json.dump(m, open(p, 'w'), indent=1)
PY
      echo "$n: rebased"
    else
      echo "$n: CONFLICT"
    fi
  else
    echo "$n: patch does not apply to its recorded base $base"
  fi
  git -C /repo worktree remove --force $wt 2>/dev/null; rm -rf $wt
done
