"""C20: two dump_to_sql steps in one flow (same resource, same SQLite file) dead-lock on the
database as soon as the resource has more rows than one batch."""
import os
import shutil
import sqlite3
import sys
import tempfile
import time

from dataflows import Flow, dump_to_sql, update_resource

tmp = tempfile.mkdtemp()
db = os.path.join(tmp, 'a.db')
engine = 'sqlite:///' + db
N = 10
rows = [{'k': i, 'v': 'x%d' % i} for i in range(N)]


def count():
    con = sqlite3.connect(db)
    try:
        return con.execute('select count(*) from t').fetchone()[0]
    except sqlite3.Error as e:
        return 'unreadable (%s)' % e
    finally:
        con.close()


violated = False
try:
    for batch_size in (1000, 3):
        if os.path.exists(db):
            os.remove(db)
        print('%d rows, batch_size=%d: dump (rewrite) then dump (append) into the same table, in one flow' % (N, batch_size))
        print('  expected: the table holds the rows of the first dump plus the rows of the second: %d rows' % (2 * N))
        started = time.time()
        try:
            Flow(
                [dict(r) for r in rows],
                update_resource(-1, name='res'),
                dump_to_sql({'t': {'resource-name': 'res', 'mode': 'rewrite'}}, engine=engine, batch_size=batch_size),
                dump_to_sql({'t': {'resource-name': 'res', 'mode': 'append'}}, engine=engine, batch_size=batch_size),
            ).process()
            got = count()
            print('  observed: %r rows' % got)
            violated |= got != 2 * N
        except Exception as e:
            violated = True
            print('  observed: after %.1f s %s: %s' % (time.time() - started, type(e).__name__, str(e).splitlines()[0]))
            print('            rows in the table: %r' % count())
finally:
    shutil.rmtree(tmp, ignore_errors=True)

sys.exit(1 if violated else 0)
