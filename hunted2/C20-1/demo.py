"""C20: a second dump (append / update) into a table that has a duration (or yearmonth,
geopoint, geojson) column fails, although the first dump that created the table succeeded."""
import datetime
import os
import shutil
import sqlite3
import sys
import tempfile

from dataflows import Flow, dump_to_sql, set_type, update_resource

tmp = tempfile.mkdtemp()
db = os.path.join(tmp, 'a.db')
engine = 'sqlite:///' + db


def dump(rows, mode):
    Flow(
        rows,
        update_resource(-1, name='res'),
        set_type('id', type='integer'),
        set_type('took', type='duration'),
        dump_to_sql({'t': {'resource-name': 'res', 'mode': mode, 'update_keys': ['id']}}, engine=engine),
    ).process()


def table():
    con = sqlite3.connect(db)
    try:
        return con.execute('select id, took from t order by id').fetchall()
    finally:
        con.close()


failed = False
try:
    dump([{'id': 1, 'took': datetime.timedelta(hours=1)}], 'rewrite')
    print('after dump 1 (rewrite):', table())
    for mode, row in (('append', {'id': 2, 'took': datetime.timedelta(hours=2)}),
                      ('update', {'id': 1, 'took': datetime.timedelta(hours=3)})):
        print('dump (%s) of %r' % (mode, row))
        print('  expected: the dump succeeds like the first one did, table gets the row')
        try:
            dump([row], mode)
            print('  observed: ok, table =', table())
        except Exception as e:
            failed = True
            print('  observed: %s: %s' % (type(e).__name__, str(e).splitlines()[0]))
            print('  table =', table())
finally:
    shutil.rmtree(tmp, ignore_errors=True)

sys.exit(1 if failed else 0)
