"""C11: a key given as a LIST OF FIELD NAMES is turned into a str.format
template ('{name}'), so perfectly legal field names such as '2020', 'geo.code'
or 'dc:id' are parsed by the format mini-language (positional index, attribute
access, format spec) and the join crashes - or, when a field named like the
prefix exists, silently keys on the wrong thing."""
import datetime
import sys
import warnings

from dataflows import Flow, join

warnings.simplefilter('ignore')


def run(src, tgt, key):
    res, _, _ = Flow(
        [dict(r) for r in src], [dict(r) for r in tgt],
        join('res_1', key, 'res_2', key, {'v': {'aggregate': 'sum'}}),
    ).results()
    return res[0]


failed = False
for name in ['code', '2020', 'geo.code', 'dc:id']:
    src = [{name: 1, 'v': 10}, {name: 1, 'v': 5}, {name: 2, 'v': 7}]
    tgt = [{name: 2}, {name: 1}]
    expected = [{name: 2, 'v': 7}, {name: 1, 'v': 15}]
    try:
        observed = run(src, tgt, [name])
    except Exception as e:  # noqa
        cause = e.__cause__ or e
        observed = 'EXCEPTION %s: %s' % (type(cause).__name__, cause)
    ok = observed == expected
    print('key field %-10r expected %r\n%21s observed %r%s' % (
        name, expected, '', observed, '' if ok else '   <-- VIOLATION'))
    failed |= not ok

# silent variant: the table has a date field 'day' and a field called 'day.year';
# the key ['day.year'] is rendered as attribute .year of the *other* field.
src = [{'day': datetime.date(2020, 1, 1), 'day.year': 'FY19', 'v': 1},
       {'day': datetime.date(2020, 6, 1), 'day.year': 'FY20', 'v': 2}]
tgt = [{'day': datetime.date(2020, 3, 3), 'day.year': 'FY19'}]
expected = 1     # only the FY19 source row has the same 'day.year' value
observed = run(src, tgt, ['day.year'])[0]['v']
print("key ['day.year'] with a date field 'day': expected v=%r, observed v=%r%s" % (
    expected, observed, '' if observed == expected else '   <-- VIOLATION (keyed on day.year attribute = 2020)'))
failed |= observed != expected

sys.exit(1 if failed else 0)
