"""C02: load(<datapackage.json>, extract_missing_values=True) emits rows with a field the schema does not declare."""
import os
import shutil
import sys
import tempfile

from dataflows import Flow, load, dump_to_path

tmp = tempfile.mkdtemp(prefix='c02_1_', dir='.')
try:
    # a perfectly ordinary data package, written by the library itself
    Flow([{'a': 1, 'b': 'x'}, {'a': None, 'b': 'y'}],
         dump_to_path(os.path.join(tmp, 'dp'))).process()

    def undeclared(source):
        results, dp, _ = Flow(load(source, extract_missing_values=True)).results()
        declared = [f['name'] for f in dp.descriptor['resources'][0]['schema']['fields']]
        extra = sorted(set(k for row in results[0] for k in row) - set(declared))
        return declared, results[0], extra

    # control: the same option on the CSV file declares the new field
    declared, rows, extra = undeclared(os.path.join(tmp, 'dp', 'res_1.csv'))
    print('CSV source          : declared fields', declared, '- undeclared row keys', extra)
    assert extra == [], 'control failed'

    declared, rows, extra = undeclared(os.path.join(tmp, 'dp', 'datapackage.json'))
    print('datapackage source  : declared fields', declared, '- undeclared row keys', extra)
    print('first row           :', rows[0])

    # consequence: the package cannot even be dumped
    dump_error = None
    try:
        Flow(load(os.path.join(tmp, 'dp', 'datapackage.json'), extract_missing_values=True),
             dump_to_path(os.path.join(tmp, 'dp2'))).process()
    except Exception as e:
        dump_error = e
    print('dump_to_path of it  :', 'ok' if dump_error is None else 'FAILS with %r' % (dump_error,))

    print('EXPECTED: every row carries only fields its resource schema declares '
          '(a "missingValues" object field is declared, as for a CSV source)')
    if extra:
        print('OBSERVED: rows carry the undeclared field(s) %r' % extra)
        sys.exit(1)
    print('OBSERVED: rows and schema agree')
    sys.exit(0)
finally:
    shutil.rmtree(tmp, ignore_errors=True)
