"""C01: a step that works on its own breaks the chain it is part of.

`rename` is a `package` callable written exactly like the tutorial's example (change the
descriptor, yield package.pkg, `yield from package`); the change it makes is giving the first
resource another name.

Step by step - run [data, rename], materialise (descriptor + rows), run the next step on that -
everything works and the result is resource 'people' with the extra field.  Chained in one Flow,
ANY step placed after `rename` (built-in or user function) fails with an empty ProcessorError.
"""
import sys

from dataflows import Flow, add_field, load


def data():
    return [{'a': 1}, {'a': 2}]


def rename(package):
    package.pkg.descriptor['resources'][0]['name'] = 'people'
    package.pkg.descriptor['resources'][0]['path'] = 'people.csv'
    yield package.pkg
    yield from package


def touch(row):
    row['a'] = row['a'] + 0


def outcome(flow):
    rows, dp, _ = flow.results()
    return ([r.name for r in dp.resources],
            [[f['name'] for f in r.descriptor['schema']['fields']] for r in dp.resources],
            rows)


failed = False
for label, make_next in [('add_field', lambda: add_field('z', 'integer', 7)),
                         ('row function', lambda: touch)]:
    # step by step: materialise the output of [data, rename] and feed it to the next step
    rows1, dp1, _ = Flow(data(), rename).results()
    expected = outcome(Flow(load((dp1.descriptor, (iter(r) for r in rows1)), strip=False), make_next()))
    try:
        observed = outcome(Flow(data(), rename, make_next()))
    except Exception as e:
        observed = 'raised %s: %r (cause: %r)' % (type(e).__name__, str(e), e.__cause__)
    print('== data, rename, %s' % label)
    print('expected (step by step):', expected)
    print('observed (Flow(...))   :', observed)
    if observed != expected:
        failed = True
        print('-> MISMATCH')

if failed:
    print('VIOLATION: the chained flow fails although every step works on the materialised '
          'output of the previous one')
    sys.exit(1)
print('ok')
