"""deduplicate: in a key field of type `any` the distinct cells true / 1 (and false / 0) are
taken for one key value (Python: True == 1 and hash(True) == hash(1)), so rows with a key of
their own are dropped."""
import sys
from dataflows import Flow, deduplicate, set_primary_key

# e.g. the rows of a JSON file: [{"code": 1, ...}, {"code": true, ...}, {"code": "1", ...}, ...]
DATA = [
    {'code': 1, 'label': 'integer one'},
    {'code': True, 'label': 'boolean true'},
    {'code': '1', 'label': 'text 1'},
    {'code': False, 'label': 'boolean false'},
    {'code': 0, 'label': 'integer zero'},
    {'code': 1, 'label': 'integer one again (the only real duplicate)'},
]

results, dp, _ = Flow(DATA, set_primary_key(['code']), deduplicate()).results()
schema = dp.descriptor['resources'][0]['schema']
print('schema  :', schema['fields'], 'primaryKey =', schema['primaryKey'])


def ident(v):
    # the identity of a cell of an `any` field: its type and its value (true is not 1, '1' is not 1)
    return (type(v).__name__, v)


expected, seen = [], set()
for row in DATA:
    if ident(row['code']) not in seen:
        seen.add(ident(row['code']))
        expected.append(row)

print('expected:', [r['label'] for r in expected])
print('observed:', [r['label'] for r in results[0]])
sys.exit(1 if results[0] != expected else 0)
