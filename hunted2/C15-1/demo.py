"""C15: add_computed_field 'sum' / 'avg' over duration fields.

'sum' is documented as "summed value for given columns in a row", 'avg' as "average value
from given columns in a row".  Durations (Table Schema type 'duration', python timedelta) can
be added and divided, and 'min' / 'max' over the very same fields work and declare a
'duration' field.  'sum' and 'avg' however crash, because they are computed with the builtin
sum(), which starts from the integer 0.
"""
import sys
import datetime

from dataflows import Flow, set_type, add_computed_field

H = datetime.timedelta(hours=1)


def run(operation):
    rows = [
        {'id': 1, 'work': 1 * H, 'travel': 2 * H},
        {'id': 2, 'work': 4 * H, 'travel': None},
    ]
    seen = []

    def capture(row):
        seen.append(dict(row))

    dp, _ = Flow(
        rows,
        set_type('work', type='duration'),
        set_type('travel', type='duration'),
        add_computed_field(target='total', operation=operation, source=['work', 'travel']),
        capture,
    ).process()
    field = [f for f in dp.descriptor['resources'][0]['schema']['fields'] if f['name'] == 'total'][0]
    return field['type'], [r['total'] for r in seen]


expected = {
    'min': ('duration', [1 * H, 4 * H]),
    'max': ('duration', [2 * H, 4 * H]),
    'sum': ('duration', [3 * H, 4 * H]),
    'avg': ('duration', [1.5 * H, 4 * H]),
}

failed = False
for operation, exp in expected.items():
    try:
        got = run(operation)
    except Exception as e:
        got = 'raised %r (cause: %r)' % (e, e.__cause__)
    ok = got == exp
    print('%-3s expected: %r' % (operation, exp))
    print('    observed: %s   %s' % (got, 'ok' if ok else '<-- VIOLATION'))
    failed = failed or not ok

if failed:
    print('\nVIOLATION: sum / avg of the duration columns of a row is not computed '
          '(min / max over the same columns are)')
    sys.exit(1)
print('no violation')
