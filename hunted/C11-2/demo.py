"""C11: full-outer join whose key is a Python format string that uses a format
spec / conversion (e.g. '{id:03}', documented: "String, which would be
interpreted as a Python format string"): the extra row emitted for an unmatched
source key has lost its key value (id is null) and carries a bogus column
literally named 'id:03'."""
import sys
import warnings

from dataflows import Flow, join

warnings.simplefilter('ignore')

SRC = [dict(id=1, v='a'), dict(id=7, v='b'), dict(id=8, v='c')]
TGT = [dict(id=1, t='x'), dict(id=3, t='y')]


def run(key):
    res, _, _ = Flow(
        [dict(r) for r in SRC], [dict(r) for r in TGT],
        join('res_1', key, 'res_2', key, {'v': {}}, mode='full-outer'),
    ).results()
    return res[0]


def canon(rows):
    return sorted((sorted(r.items(), key=str) for r in rows), key=str)


expected = [
    dict(id=1, t='x', v='a'),
    dict(id=3, t='y', v=None),
    dict(id=7, t=None, v='b'),
    dict(id=8, t=None, v='c'),
]
by_list = run(['id'])
by_fmt = run('{id:03}')       # renders exactly the same groups: 001, 003, 007, 008

print('expected                 :', expected)
print('observed, key ["id"]     :', by_list)
print('observed, key "{id:03}"  :', by_fmt)
assert canon(by_list) == canon(expected), 'control is wrong, demo is broken'

if canon(by_fmt) != canon(expected):
    lost = [r for r in by_fmt if r.get('id') is None]
    bogus = sorted({k for r in by_fmt for k in r} - {'id', 't', 'v'})
    print('VIOLATION: %d unmatched-source rows have id=None (expected 7 and 8); '
          'bogus columns: %r' % (len(lost), bogus))
    sys.exit(1)
sys.exit(0)
