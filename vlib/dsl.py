"""Pipeline DSL: typed random programs over the built-in processors and user callables.

A program is (tables, specs). `specs` are JSON-able dicts; `build(spec, env)` turns one into a FRESH
real dataflows step (processors are stateful), `gen_program` emits only steps whose documented
preconditions hold in the tracked package shape (field exists, consecutive resources for concatenate,
source before target for join, no name clash) - that is what "well-typed pipeline" means here.
"""
import copy
import datetime
import decimal
import functools
import io

from . import lab

D = decimal.Decimal

# ------------------------------------------------------------------------------------------------
# package shape tracked by the generator:  [{'name', 'fields': [[name, type], ...], 'pk': [...]}]


def initial_tables(rng, nres=None, sizes=(0, 1, 2, 3, 7, 99, 100, 101, 250), typed_extra=True):
    nres = nres or rng.choice([1, 2, 2, 3, 4])
    tables = []
    for r in range(nres):
        fields = [['id', 'integer'], ['n', 'integer'], ['s', 'string']]
        if rng.random() < 0.6:
            fields.append(['m', 'integer'])
        if rng.random() < 0.5:
            fields.append(['q', 'number'])
        if typed_extra and rng.random() < 0.4:
            fields.append(['d', 'date'])
        if typed_extra and rng.random() < 0.4:
            fields.append(['b', 'boolean'])
        if typed_extra and rng.random() < 0.25:
            fields.append(['arr', 'array'])
        size = rng.choice(sizes)
        rows = []
        for i in range(size):
            row = {}
            for fn, ft in fields:
                if fn == 'id':
                    row[fn] = r * 1000 + i
                elif ft == 'integer':
                    row[fn] = rng.choice([0, 1, 2, 3, 5, 8, -4, 17])
                elif ft == 'string':
                    row[fn] = rng.choice(['a', 'b', 'ab', 'hello', 'x y', 'é', None])
                elif ft == 'number':
                    row[fn] = rng.choice([D('1.5'), D('2'), D('-0.25'), None])
                elif ft == 'date':
                    row[fn] = rng.choice([datetime.date(2020, 1, 1), datetime.date(1999, 12, 31), None])
                elif ft == 'boolean':
                    row[fn] = rng.choice([True, False, None])
                elif ft == 'array':
                    row[fn] = rng.choice([[1, 2], ['a'], [], None])
            rows.append(row)
        tables.append({'name': 'r%d' % r, 'fields': fields, 'rows': rows, 'kind': rng.choice(['load', 'load', 'iter'])})
    return tables


def shape_of(tables):
    return [{'name': t['name'], 'fields': copy.deepcopy(t['fields']), 'pk': []} for t in tables]


def _res(shape, name):
    return next(r for r in shape if r['name'] == name)


def _fnames(res):
    return [f[0] for f in res['fields']]


def _ftype(res, name):
    return next(f[1] for f in res['fields'] if f[0] == name)


# ------------------------------------------------------------------------------------------------
# user callables (registry), each available in five shapes

def u_bump_n(row):
    row['n'] = row['n'] + 1


def u_upper_s(row):
    return dict(row, s=row['s'].upper() if row['s'] is not None else None)


def u_rows_drop_odd(rows):
    for row in rows:
        if row['id'] % 2 == 0:
            yield row


def u_rows_twice_n(rows):
    for row in rows:
        row['n'] = row['n'] * 2
        yield row


def u_pkg_title(package):
    package.pkg.descriptor['title'] = (package.pkg.descriptor.get('title') or '') + '+u'
    yield package.pkg
    yield from package


def u_pkg_neg_n(package):
    yield package.pkg
    for res in package:
        yield ({**row, 'n': -row['n']} for row in res)


def u_arr_append(row):
    # edits a NESTED cell value in place (a shallow row copy upstream would share it)
    if isinstance(row.get('arr'), list):
        row['arr'].append(9)
    row['n'] = row['n'] + 0


def u_rows_first2(rows):
    # a consumer that stops reading its resource early (e.g. "preview the first rows")
    import itertools
    return itertools.islice(rows, 2)


def u_rows_break3(rows):
    for i, row in enumerate(rows):
        if i >= 3:
            break
        yield row


def u_pkg_rename_first(package):
    # documented style: edit the descriptor, yield it, pass the resources on
    names = [r['name'] for r in package.pkg.descriptor['resources']]
    if names and 'people' not in names:
        package.pkg.descriptor['resources'][0]['name'] = 'people'
        package.pkg.descriptor['resources'][0]['path'] = 'people.csv'
    yield package.pkg
    yield from package


USER = {'u_pkg_rename_first': ('package', u_pkg_rename_first), 'u_rows_first2': ('rows', u_rows_first2), 'u_rows_break3': ('rows', u_rows_break3),
        'u_arr_append': ('row', u_arr_append), 'u_bump_n': ('row', u_bump_n), 'u_upper_s': ('row', u_upper_s),
        'u_rows_drop_odd': ('rows', u_rows_drop_odd), 'u_rows_twice_n': ('rows', u_rows_twice_n),
        'u_pkg_title': ('package', u_pkg_title), 'u_pkg_neg_n': ('package', u_pkg_neg_n)}
SHAPES = ['function', 'lambda', 'bound_method', 'partial', 'callable_object']


class _Holder:
    def __init__(self, fn):
        self.fn = fn

    def row(self, row):
        return self.fn(row)

    def rows(self, rows):
        return self.fn(rows)

    def package(self, package):
        return self.fn(package)


def make_callable(name, form):
    kind, fn = USER[name]
    if form == 'function':
        return fn
    if form == 'lambda':
        return {'row': (lambda row: fn(row)), 'rows': (lambda rows: fn(rows)),
                'package': (lambda package: fn(package))}[kind]
    if form == 'bound_method':
        return getattr(_Holder(fn), kind)
    if form == 'partial':
        def wrap(extra, **kw):
            return fn(kw[kind])
        return {'row': functools.partial(lambda extra, row: fn(row), 0),
                'rows': functools.partial(lambda extra, rows: fn(rows), 0),
                'package': functools.partial(lambda extra, package: fn(package), 0)}[kind]
    if form == 'callable_object':
        class Obj:
            pass
        if kind == 'row':
            Obj.__call__ = lambda self, row: fn(row)
        elif kind == 'rows':
            Obj.__call__ = lambda self, rows: fn(rows)
        else:
            Obj.__call__ = lambda self, package: fn(package)
        return Obj()
    raise KeyError(form)


def keep_n_small(row):
    return row['n'] < 6


def keep_id_mod3(row):
    return row['id'] % 3 != 0


CONDS = {'keep_n_small': keep_n_small, 'keep_id_mod3': keep_id_mod3}


# ------------------------------------------------------------------------------------------------
# environment for observers

class Env:
    def __init__(self, tag=''):
        self.tag = tag
        self.printers = {}         # printer key -> {'headers': [...], 'tables': [...]}
        self.printed = []          # (resource name) headers
        self.tables_printed = []
        self.streams = {}          # key -> StringIO
        self.finalized = []        # (key, stats or None)
        self.dump_dirs = []
        self.zips = []

    def sink_header(self, name, kw):
        self.printed.append(name)

    def sink_table(self, data, kw):
        self.tables_printed.append(data)


# ------------------------------------------------------------------------------------------------
# op catalogue: gen(rng, shape) -> spec | None ; shape(spec, shape) -> shape ; build(spec, env) -> step

def _pick_res(rng, shape, pred=lambda r: True):
    c = [r for r in shape if pred(r)]
    return rng.choice(c) if c else None


def _has(r, *names):
    return all(n in _fnames(r) for n in names)


OPS = {}


def op(name, streaming=False, observer=False):
    def deco(cls):
        cls.name, cls.streaming, cls.observer = name, streaming, observer
        OPS[name] = cls
        return cls
    return deco


def _sel_for(rng, shape, res):
    """A selector that selects exactly [res] (several forms)."""
    names = [r['name'] for r in shape]
    forms = [res['name'], [res['name']], names.index(res['name'])]
    return rng.choice(forms)


@op('add_field', streaming=True)
class AddField:
    @staticmethod
    def gen(rng, shape):
        r = _pick_res(rng, shape)
        new = 'af%d' % rng.randint(0, 999)
        if any(new in _fnames(x) for x in shape):
            return None
        typ, val = rng.choice([('integer', 5), ('string', 'k'), ('boolean', True), ('number', 2.5), ('array', [1])])
        if typ == 'array':
            new = 'arr' if not any('arr' in _fnames(x) for x in shape) else new
        if len(shape) > 1 and rng.random() < 0.3:
            # several resources edited by one step (all of them, or a list of two)
            names = [x['name'] for x in shape]
            sel = None if rng.random() < 0.5 else rng.sample(names, 2)
            return {'op': 'add_field', 'res': sel if sel else names, 'sel': sel, 'name': new, 'type': typ,
                    'default': val}
        return {'op': 'add_field', 'res': r['name'], 'sel': _sel_for(rng, shape, r), 'name': new, 'type': typ,
                'default': val}

    @staticmethod
    def shape(spec, shape):
        for n in (spec['res'] if isinstance(spec['res'], list) else [spec['res']]):
            _res(shape, n)['fields'].append([spec['name'], spec['type']])
        return shape

    @staticmethod
    def build(spec, env):
        return lab.df().add_field(spec['name'], spec['type'], spec['default'], resources=copy.deepcopy(spec['sel']))


@op('delete_fields', streaming=True)
class DeleteFields:
    @staticmethod
    def gen(rng, shape):
        r = _pick_res(rng, shape, lambda r: len([f for f in _fnames(r) if f not in ('id', 'n', 's')]) >= 1)
        if not r:
            return None
        f = rng.choice([f for f in _fnames(r) if f not in ('id', 'n', 's')])
        if f in r['pk']:
            return None
        return {'op': 'delete_fields', 'res': r['name'], 'sel': _sel_for(rng, shape, r), 'fields': [f]}

    @staticmethod
    def shape(spec, shape):
        r = _res(shape, spec['res'])
        r['fields'] = [f for f in r['fields'] if f[0] not in spec['fields']]
        return shape

    @staticmethod
    def build(spec, env):
        return lab.df().delete_fields(list(spec['fields']), resources=copy.deepcopy(spec['sel']), regex=False)


@op('select_fields', streaming=True)
class SelectFields:
    @staticmethod
    def gen(rng, shape):
        r = _pick_res(rng, shape, lambda r: len(r['fields']) > 3)
        if not r:
            return None
        keep = ['id', 'n', 's'] + [f for f in _fnames(r) if f not in ('id', 'n', 's') and rng.random() < 0.5]
        keep = [f for f in keep if f in _fnames(r)]
        if any(k not in keep for k in r['pk']):
            return None
        rng.shuffle(keep)
        return {'op': 'select_fields', 'res': r['name'], 'sel': _sel_for(rng, shape, r), 'fields': keep}

    @staticmethod
    def shape(spec, shape):
        r = _res(shape, spec['res'])
        by = dict((f[0], f) for f in r['fields'])
        r['fields'] = [by[f] for f in spec['fields']]
        return shape

    @staticmethod
    def build(spec, env):
        return lab.df().select_fields(list(spec['fields']), resources=copy.deepcopy(spec['sel']), regex=False)


@op('rename_fields', streaming=True)
class RenameFields:
    @staticmethod
    def gen(rng, shape):
        r = _pick_res(rng, shape, lambda r: any(f not in ('id', 'n', 's') for f in _fnames(r)))
        if not r:
            return None
        f = rng.choice([f for f in _fnames(r) if f not in ('id', 'n', 's')])
        new = f + '_r'
        if new in _fnames(r) or f in r['pk']:
            return None
        return {'op': 'rename_fields', 'res': r['name'], 'sel': _sel_for(rng, shape, r), 'map': {f: new}}

    @staticmethod
    def shape(spec, shape):
        r = _res(shape, spec['res'])
        for f in r['fields']:
            f[0] = spec['map'].get(f[0], f[0])
        return shape

    @staticmethod
    def build(spec, env):
        return lab.df().rename_fields(dict(spec['map']), resources=copy.deepcopy(spec['sel']), regex=False)


@op('add_computed_field', streaming=True)
class AddComputed:
    @staticmethod
    def gen(rng, shape):
        r = _pick_res(rng, shape)
        new = 'cf%d' % rng.randint(0, 999)
        if any(new in _fnames(x) for x in shape):
            return None
        ints = [f[0] for f in r['fields'] if f[1] == 'integer' and f[0] in ('id', 'n', 'm')]
        kind = rng.choice(['sum', 'format', 'constant', 'max', 'multiply', 'join', 'avg', 'min'])
        spec = {'op': 'add_computed_field', 'res': r['name'], 'sel': _sel_for(rng, shape, r), 'target': new,
                'operation': kind}
        if kind in ('sum', 'max', 'min', 'multiply'):
            spec['source'] = ints
            spec['type'] = 'integer'
        elif kind == 'avg':
            spec['source'] = ints
            spec['type'] = 'number'
        elif kind == 'format':
            spec['with'] = '{id}-{n}'
            spec['type'] = 'string'
        elif kind == 'join':
            spec['source'] = ['id', 'n']
            spec['with'] = '/'
            spec['type'] = 'string'
        else:
            spec['with'] = 'const'
            spec['type'] = 'any'
        return spec

    @staticmethod
    def shape(spec, shape):
        _res(shape, spec['res'])['fields'].append([spec['target'], spec['type']])
        return shape

    @staticmethod
    def build(spec, env):
        f = {'target': spec['target'], 'operation': spec['operation']}
        if 'source' in spec:
            f['source'] = list(spec['source'])
        if 'with' in spec:
            f['with'] = spec['with']
        return lab.df().add_computed_field([f], resources=copy.deepcopy(spec['sel']))


@op('find_replace', streaming=True)
class FindReplace:
    @staticmethod
    def gen(rng, shape):
        r = _pick_res(rng, shape, lambda r: _has(r, 's') and _ftype(r, 's') == 'string')
        if not r:
            return None
        return {'op': 'find_replace', 'res': r['name'], 'sel': _sel_for(rng, shape, r),
                'patterns': rng.choice([[['a', 'A']], [['l+', 'L'], ['e', '3']], [['^', '>']]])}

    @staticmethod
    def shape(spec, shape):
        return shape

    @staticmethod
    def build(spec, env):
        return lab.df().find_replace([{'name': 's', 'patterns': [{'find': a, 'replace': b}
                                                               for a, b in spec['patterns']]}],
                                     resources=copy.deepcopy(spec['sel']))


@op('set_type', streaming=True)
class SetType:
    @staticmethod
    def gen(rng, shape):
        r = _pick_res(rng, shape, lambda r: _has(r, 'm') and _ftype(r, 'm') == 'integer')
        if not r:
            return None
        return {'op': 'set_type', 'res': r['name'], 'sel': _sel_for(rng, shape, r), 'field': 'm', 'type': 'number'}

    @staticmethod
    def shape(spec, shape):
        for f in _res(shape, spec['res'])['fields']:
            if f[0] == spec['field']:
                f[1] = spec['type']
        return shape

    @staticmethod
    def build(spec, env):
        return lab.df().set_type(spec['field'], type=spec['type'], resources=copy.deepcopy(spec['sel']))


@op('validate', streaming=True, observer=True)
class Validate:
    @staticmethod
    def gen(rng, shape):
        return {'op': 'validate'}

    @staticmethod
    def shape(spec, shape):
        return shape

    @staticmethod
    def build(spec, env):
        return lab.df().validate()


@op('filter_rows', streaming=True)
class FilterRows:
    @staticmethod
    def gen(rng, shape):
        r = _pick_res(rng, shape, lambda r: _has(r, 'n', 'id'))
        if not r:
            return None
        return {'op': 'filter_rows', 'res': r['name'], 'sel': _sel_for(rng, shape, r),
                'cond': rng.choice(sorted(CONDS))}

    @staticmethod
    def shape(spec, shape):
        return shape

    @staticmethod
    def build(spec, env):
        return lab.df().filter_rows(condition=CONDS[spec['cond']], resources=copy.deepcopy(spec['sel']))


@op('set_primary_key', streaming=True)
class SetPK:
    @staticmethod
    def gen(rng, shape):
        r = _pick_res(rng, shape, lambda r: _has(r, 'id', 'n'))
        if not r:
            return None
        return {'op': 'set_primary_key', 'res': r['name'], 'sel': _sel_for(rng, shape, r),
                'pk': rng.choice([['id'], ['n'], ['n', 's']])}

    @staticmethod
    def shape(spec, shape):
        _res(shape, spec['res'])['pk'] = list(spec['pk'])
        return shape

    @staticmethod
    def build(spec, env):
        return lab.df().set_primary_key(list(spec['pk']), resources=copy.deepcopy(spec['sel']))


@op('deduplicate')
class Dedup:
    @staticmethod
    def gen(rng, shape):
        r = _pick_res(rng, shape, lambda r: r['pk'] and all(k in _fnames(r) for k in r['pk']))
        if not r:
            return None
        return {'op': 'deduplicate', 'res': r['name'], 'sel': _sel_for(rng, shape, r)}

    @staticmethod
    def shape(spec, shape):
        return shape

    @staticmethod
    def build(spec, env):
        return lab.df().deduplicate(resources=copy.deepcopy(spec['sel']))


@op('sort_rows')
class SortRows:
    @staticmethod
    def gen(rng, shape):
        r = _pick_res(rng, shape, lambda r: _has(r, 'n', 'id') and _ftype(r, 'n') == 'integer')
        if not r:
            return None
        return {'op': 'sort_rows', 'res': r['name'], 'sel': _sel_for(rng, shape, r),
                'key': rng.choice(['{n}', '{n}{id}', '{id}']), 'reverse': rng.random() < 0.3}

    @staticmethod
    def shape(spec, shape):
        return shape

    @staticmethod
    def build(spec, env):
        return lab.df().sort_rows(spec['key'], resources=copy.deepcopy(spec['sel']), reverse=spec['reverse'])


@op('unpivot', streaming=True)
class Unpivot:
    @staticmethod
    def gen(rng, shape):
        r = _pick_res(rng, shape, lambda r: _has(r, 'n', 'm') and _ftype(r, 'm') == 'integer'
                      and _ftype(r, 'n') == 'integer' and not r['pk'] and not _has(r, 'key', 'value'))
        if not r:
            return None
        return {'op': 'unpivot', 'res': r['name'], 'sel': _sel_for(rng, shape, r)}

    @staticmethod
    def shape(spec, shape):
        r = _res(shape, spec['res'])
        r['fields'] = [f for f in r['fields'] if f[0] not in ('n', 'm')] + [['key', 'string'], ['n', 'integer']]
        return shape

    @staticmethod
    def build(spec, env):
        # the unpivoted cell value lands in a field called 'n' again so that later steps keep working
        return lab.df().unpivot([{'name': 'n', 'keys': {'key': 'N'}}, {'name': 'm', 'keys': {'key': 'M'}}],
                                [{'name': 'key', 'type': 'string'}], {'name': 'n', 'type': 'integer'},
                                regex=False, resources=copy.deepcopy(spec['sel']))


@op('concatenate', streaming=True)
class Concatenate:
    @staticmethod
    def gen(rng, shape):
        if len(shape) < 2:
            return None
        i = rng.randrange(len(shape) - 1)
        a, b = shape[i], shape[i + 1]
        fa, fb = dict(map(tuple, a['fields'])), dict(map(tuple, b['fields']))
        common = [f for f in _fnames(a) if f in fb and fa[f] == fb[f]]
        if not {'id', 'n', 's'} <= set(common):
            return None
        # differently typed same-named fields would be ill-typed
        if any(fa[f] != fb[f] for f in fa if f in fb):
            return None
        tname = 'cat%d' % rng.randint(0, 99)
        if tname in [r['name'] for r in shape]:
            return None
        fields = [f for f in common]
        return {'op': 'concatenate', 'members': [a['name'], b['name']], 'target': tname, 'fields': fields,
                'types': [fa[f] for f in fields]}

    @staticmethod
    def shape(spec, shape):
        i = [r['name'] for r in shape].index(spec['members'][0])
        new = {'name': spec['target'], 'fields': [[f, t] for f, t in zip(spec['fields'], spec['types'])], 'pk': []}
        return shape[:i] + [new] + shape[i + 2:]

    @staticmethod
    def build(spec, env):
        return lab.df().concatenate({f: [] for f in spec['fields']},
                                    target={'name': spec['target'], 'path': spec['target'] + '.csv'},
                                    resources=list(spec['members']))


@op('duplicate')
class Duplicate:
    @staticmethod
    def gen(rng, shape):
        r = _pick_res(rng, shape)
        tname = 'dup%d' % rng.randint(0, 99)
        if tname in [x['name'] for x in shape]:
            return None
        return {'op': 'duplicate', 'res': r['name'], 'target': tname, 'to_end': rng.random() < 0.5,
                'batch': rng.choice([1, 2, 1000])}

    @staticmethod
    def shape(spec, shape):
        i = [r['name'] for r in shape].index(spec['res'])
        new = copy.deepcopy(shape[i])
        new['name'] = spec['target']
        return shape + [new] if spec['to_end'] else shape[:i + 1] + [new] + shape[i + 1:]

    @staticmethod
    def build(spec, env):
        return lab.df().duplicate(spec['res'], target_name=spec['target'], target_path=spec['target'] + '.csv',
                                  batch_size=spec['batch'], duplicate_to_end=spec['to_end'])


@op('delete_resource', streaming=True)
class DeleteResource:
    @staticmethod
    def gen(rng, shape):
        if len(shape) < 2:
            return None
        r = rng.choice(shape)
        return {'op': 'delete_resource', 'res': r['name'], 'sel': _sel_for(rng, shape, r)}

    @staticmethod
    def shape(spec, shape):
        return [r for r in shape if r['name'] != spec['res']]

    @staticmethod
    def build(spec, env):
        return lab.df().delete_resource(copy.deepcopy(spec['sel']))


@op('update_resource', streaming=True)
class UpdateResource:
    @staticmethod
    def gen(rng, shape):
        r = _pick_res(rng, shape)
        spec = {'op': 'update_resource', 'res': r['name'], 'sel': _sel_for(rng, shape, r), 'props': {'title': 'T'}}
        if rng.random() < 0.4:
            new = r['name'] + 'x'
            if new not in [x['name'] for x in shape]:
                spec['props'] = {'name': new, 'path': new + '.csv'}
        return spec

    @staticmethod
    def shape(spec, shape):
        if 'name' in spec['props']:
            _res(shape, spec['res'])['name'] = spec['props']['name']
        return shape

    @staticmethod
    def build(spec, env):
        return lab.df().update_resource(copy.deepcopy(spec['sel']), **spec['props'])


@op('update_schema', streaming=True)
class UpdateSchema:
    @staticmethod
    def gen(rng, shape):
        r = _pick_res(rng, shape)
        return {'op': 'update_schema', 'res': r['name'], 'sel': _sel_for(rng, shape, r)}

    @staticmethod
    def shape(spec, shape):
        return shape

    @staticmethod
    def build(spec, env):
        return lab.df().update_schema(copy.deepcopy(spec['sel']), missingValues=['', 'NA'])


@op('update_package', streaming=True)
class UpdatePackage:
    @staticmethod
    def gen(rng, shape):
        return {'op': 'update_package', 'props': {'title': 'pkg%d' % rng.randint(0, 9), 'name': 'the-pkg'}}

    @staticmethod
    def shape(spec, shape):
        return shape

    @staticmethod
    def build(spec, env):
        return lab.df().update_package(**spec['props'])


@op('join')
class Join:
    @staticmethod
    def gen(rng, shape):
        if len(shape) < 2:
            return None
        i = rng.randrange(len(shape) - 1)
        j = rng.randrange(i + 1, len(shape))
        src, tgt = shape[i], shape[j]
        if not (_has(src, 'n', 'id', 's') and _has(tgt, 'n')):
            return None
        if _ftype(src, 'n') != 'integer' or _ftype(tgt, 'n') != 'integer':
            return None
        agg = rng.choice(['sum', 'max', 'min', 'first', 'last', 'count', 'array', 'avg'])
        newf = 'j%d' % rng.randint(0, 999)
        if newf in _fnames(tgt):
            return None
        typ = {'count': 'integer', 'array': 'array', 'avg': 'number', 'median': 'number'}.get(agg, 'integer')
        return {'op': 'join', 'source': src['name'], 'target': tgt['name'], 'agg': agg, 'field': newf,
                'ftype': typ, 'mode': rng.choice(['inner', 'half-outer', 'half-outer']),
                'source_delete': rng.random() < 0.6}

    @staticmethod
    def shape(spec, shape):
        _res(shape, spec['target'])['fields'].append([spec['field'], spec['ftype']])
        if spec['source_delete']:
            shape = [r for r in shape if r['name'] != spec['source']]
        return shape

    @staticmethod
    def build(spec, env):
        return lab.df().join(spec['source'], ['n'], spec['target'], ['n'],
                             {spec['field']: {'name': 'id', 'aggregate': spec['agg']}},
                             mode=spec['mode'], source_delete=spec['source_delete'])


@op('append_iterable', streaming=True)
class AppendIterable:
    @staticmethod
    def gen(rng, shape):
        n = rng.choice([0, 1, 3, 101])
        if n == 0:
            return None     # an empty iterable has no inferable schema (documented: fields=[])
        name = 'res_%d' % (len(shape) + 1)
        if name in [r['name'] for r in shape]:
            return None     # auto-name clash: ill-formed (judged separately by the dedicated C02 family)
        return {'op': 'append_iterable', 'n': n, 'name': name, 'base': rng.randint(5000, 9000)}

    @staticmethod
    def rows(spec):
        return [{'id': spec['base'] + i, 'n': (i * 7) % 5, 's': 'it%d' % (i % 3)} for i in range(spec['n'])]

    @staticmethod
    def shape(spec, shape):
        return shape + [{'name': spec['name'], 'fields': [['id', 'integer'], ['n', 'integer'], ['s', 'string']],
                         'pk': []}]

    @staticmethod
    def build(spec, env):
        return AppendIterable.rows(spec)


@op('append_load', streaming=True)
class AppendLoad:
    @staticmethod
    def gen(rng, shape):
        name = 'ld%d' % rng.randint(0, 99)
        if name in [r['name'] for r in shape]:
            return None
        return {'op': 'append_load', 'n': rng.choice([0, 2, 50]), 'name': name, 'base': rng.randint(10000, 12000)}

    @staticmethod
    def shape(spec, shape):
        return shape + [{'name': spec['name'], 'fields': [['id', 'integer'], ['n', 'integer'], ['s', 'string']],
                         'pk': []}]

    @staticmethod
    def build(spec, env):
        rows = [{'id': spec['base'] + i, 'n': i % 4, 's': 'ld'} for i in range(spec['n'])]
        return lab.source(spec['name'], [{'name': 'id', 'type': 'integer'}, {'name': 'n', 'type': 'integer'},
                                         {'name': 's', 'type': 'string'}], rows)


# ---- observers ---------------------------------------------------------------------------------

@op('printer', streaming=True, observer=True)
class Printer:
    @staticmethod
    def gen(rng, shape):
        return {'op': 'printer', 'num_rows': rng.choice([1, 3, 10]), 'key': 'p%d' % rng.randint(0, 10 ** 6)}

    @staticmethod
    def shape(spec, shape):
        return shape

    @staticmethod
    def build(spec, env):
        # output is recorded per printer instance: several printers of one lazily evaluated flow interleave
        rec = env.printers.setdefault(spec.get('key', 'p'), {'headers': [], 'tables': []})

        def header(name, kw):
            rec['headers'].append(name)
            env.sink_header(name, kw)

        def table(data, kw):
            rec['tables'].append(data)
            env.sink_table(data, kw)
        return lab.df().printer(num_rows=spec['num_rows'], header_print=header, table_print=table)


@op('dump_to_path', streaming=True, observer=True)
class DumpToPath:
    @staticmethod
    def gen(rng, shape):
        return {'op': 'dump_to_path', 'format': rng.choice(['csv', 'json']), 'key': 'd%d' % rng.randint(0, 10 ** 6)}

    @staticmethod
    def shape(spec, shape):
        return shape

    @staticmethod
    def build(spec, env):
        d = 'dump_%s_%s' % (env.tag, spec['key'])
        env.dump_dirs.append(d)
        return lab.df().dump_to_path(d, format=spec['format'])


@op('dump_to_zip', streaming=True, observer=True)
class DumpToZip:
    @staticmethod
    def gen(rng, shape):
        return {'op': 'dump_to_zip', 'format': rng.choice(['csv', 'json']), 'key': 'z%d' % rng.randint(0, 10 ** 6)}

    @staticmethod
    def shape(spec, shape):
        return shape

    @staticmethod
    def build(spec, env):
        z = 'zip_%s_%s.zip' % (env.tag, spec['key'])
        env.zips.append(z)
        return lab.df().dump_to_zip(z, format=spec['format'])


@op('stream', streaming=True, observer=True)
class Stream:
    @staticmethod
    def gen(rng, shape):
        return {'op': 'stream', 'key': 's%d' % rng.randint(0, 10 ** 6)}

    @staticmethod
    def shape(spec, shape):
        return shape

    @staticmethod
    def build(spec, env):
        class KeepOpen(io.StringIO):
            def close(self):       # stream() closes its file; keep the text readable for the monitor
                self.closed_called = True
        f = KeepOpen()
        env.streams[spec['key']] = f
        return lab.df().stream(f)


@op('finalizer', streaming=True, observer=True)
class Finalizer:
    @staticmethod
    def gen(rng, shape):
        return {'op': 'finalizer', 'key': 'f%d' % rng.randint(0, 10 ** 6), 'stats': rng.random() < 0.5}

    @staticmethod
    def shape(spec, shape):
        return shape

    @staticmethod
    def build(spec, env):
        if spec['stats']:
            def cb(stats):
                env.finalized.append((spec['key'], dict(stats)))
        else:
            def cb():
                env.finalized.append((spec['key'], None))
        return lab.df().finalizer(cb)


@op('update_stats', streaming=True, observer=True)
class UpdateStats:
    @staticmethod
    def gen(rng, shape):
        return {'op': 'update_stats', 'stats': {'k%d' % rng.randint(0, 9): rng.randint(0, 99)}}

    @staticmethod
    def shape(spec, shape):
        return shape

    @staticmethod
    def build(spec, env):
        return lab.df().update_stats(dict(spec['stats']))


@op('checkpoint', streaming=True, observer=True)
class Checkpoint:
    @staticmethod
    def gen(rng, shape):
        spec = {'op': 'checkpoint', 'key': 'c%d' % rng.randint(0, 10 ** 6)}
        if rng.random() < 0.4:
            # 'Limit the checkpointing only to specific resources, same semantics as load': only these continue
            spec['resources'] = rng.choice([shape[0]['name'], [shape[-1]['name']], 0])
        return spec

    @staticmethod
    def shape(spec, shape):
        if 'resources' in spec:
            from . import refmodel
            keep = refmodel.sel(spec['resources'], [r['name'] for r in shape])
            return [r for r in shape if r['name'] in keep]
        return shape

    @staticmethod
    def build(spec, env):
        if 'resources' in spec:
            return lab.df().checkpoint(spec['key'], checkpoint_path='cp_%s' % env.tag,
                                       resources=copy.deepcopy(spec['resources']))
        return lab.df().checkpoint(spec['key'], checkpoint_path='cp_%s' % env.tag)


@op('user', streaming=True)
class User:
    @staticmethod
    def gen(rng, shape):
        name = rng.choice(sorted(USER))
        if not all(_has(r, 'n', 's', 'id') and _ftype(r, 'n') == 'integer' and _ftype(r, 's') == 'string'
                   for r in shape):
            return None
        if name == 'u_rows_drop_odd' and False:
            return None
        return {'op': 'user', 'fn': name, 'form': rng.choice(SHAPES)}

    @staticmethod
    def shape(spec, shape):
        if spec['fn'] == 'u_pkg_rename_first' and shape and 'people' not in [r['name'] for r in shape]:
            shape[0]['name'] = 'people'
        return shape

    @staticmethod
    def build(spec, env):
        return make_callable(spec['fn'], spec['form'])


BUFFERING = {'sort_rows', 'join', 'duplicate', 'deduplicate'}


def build_source(table):
    fields = [{'name': n, 'type': t} for n, t in table['fields']]
    if table.get('kind') == 'iter':
        return [dict(r) for r in copy.deepcopy(table['rows'])]
    if table.get('kind') == 'package':
        # a resource of a valid data package in a shape dataflows itself never writes
        import csv as csv_
        import json as json_
        import os as os_
        dirn = 'pkg_' + table['name']
        os_.makedirs(dirn, exist_ok=True)
        names = [n for n, _ in table['fields']]
        rows = table['rows']

        def write(fn, part, header):
            with open(os_.path.join(dirn, fn), 'w', newline='', encoding='utf-8') as f:
                w = csv_.writer(f)
                if header:
                    w.writerow(names)
                for r in part:
                    w.writerow(['' if r[n] is None else r[n] for n in names])
        res = {'name': table['name'], 'schema': {'fields': copy.deepcopy(fields)}}
        shape = table['pkg_shape']
        if shape == 'dumped':
            # a package that an earlier dump of this library wrote (its descriptor carries that dump's counters)
            from . import boot as boot_
            with boot_.quiet():
                lab.df().Flow(lab.source(table['name'], fields, rows), lab.df().dump_to_path(dirn, format='json')).process()
            return lab.df().load(os_.path.join(dirn, 'datapackage.json'), resources=table['name'])
        if shape == 'inline':
            res['data'] = [dict(r) for r in rows]
        elif shape == 'multipart':
            k = max(1, len(rows) // 2)
            write('part1.csv', rows[:k], True)
            write('part2.csv', rows[k:], False)
            res['path'] = ['part1.csv', 'part2.csv']
        else:
            write('part1.csv', rows, True)
            res['path'] = 'part1.csv'
            for f in res['schema']['fields']:
                if f['type'] == 'string':
                    del f['type']       # Table Schema: the type defaults to string
        with open(os_.path.join(dirn, 'datapackage.json'), 'w') as f:
            json_.dump({'name': 'valid-package', 'resources': [res]}, f)
        return lab.df().load(os_.path.join(dirn, 'datapackage.json'), resources=table['name'])
    if table.get('kind') == 'csv':
        # the most common source: a CSV file loaded with load()'s defaults (schema inferred, cells NOT cast)
        path = table['name'] + '.csv'
        with open(path, 'w', newline='', encoding='utf-8') as f:
            f.write(table['csv_text'])
        return lab.df().load(path, name=table['name'])
    return lab.source(table['name'], fields, table['rows'])


def source_shape(tables):
    """iterables are auto-named res_<k> by the library."""
    shape = []
    for t in tables:
        name = t['name']
        if t.get('kind') == 'iter':
            name = 'res_%d' % (len(shape) + 1)
        shape.append({'name': name, 'fields': copy.deepcopy(t['fields']), 'pk': []})
    return shape


def iter_table_ok(t):
    """An iterable source must let inference reproduce the declared types (non-null sample per field)."""
    if not t['rows']:
        return False
    for fn, ft in t['fields']:
        if ft == 'late':
            continue        # deliberately null throughout the inference sample (C06): inferred as 'any'
        if ft in ('array',):
            return False
        if all(r.get(fn) is None for r in t['rows'][:100]):
            return False
    return True


def gen_program(rng, length=None, ops=None, tables=None, sizes=None, allow=None):
    """-> (tables, specs, shapes) where shapes[i] is the tracked shape AFTER spec i."""
    if tables is None:
        tables = initial_tables(rng, sizes=sizes or (0, 1, 2, 3, 7, 99, 100, 101, 250))
    for t in tables:
        if t.get('kind') == 'iter' and not iter_table_ok(t):
            t['kind'] = 'load'
    shape = source_shape(tables)
    length = length or rng.randint(1, 8)
    names = sorted(ops or OPS)
    if allow:
        names = [n for n in names if allow(OPS[n])]
    specs, shapes = [], []
    tries = 0
    while len(specs) < length and tries < 200:
        tries += 1
        o = OPS[rng.choice(names)]
        try:
            spec = o.gen(rng, shape)
        except (StopIteration, IndexError, ValueError):
            spec = None
        if spec is None:
            continue
        shape = o.shape(spec, copy.deepcopy(shape))
        specs.append(spec)
        shapes.append(copy.deepcopy(shape))
    return tables, specs, shapes


def build_all(tables, specs, env):
    return [build_source(t) for t in tables] + [OPS[s['op']].build(s, env) for s in specs]


def render(tables, specs):
    return {'sources': [{'name': t['name'], 'kind': t.get('kind'), 'fields': t['fields'], 'rows': len(t['rows'])}
                        for t in tables], 'steps': specs}
