"""C09: dumping the same data twice with format='xlsx' gives different resource and package hashes.

Expected: two dumps of the same rows (same options) record identical hashes.
Observed: the xlsx writer embeds the wall-clock time (docProps/core.xml created/modified and the
zip members' timestamps), so the resource 'hash' - and therefore the package 'hash' computed over
the descriptor - changes from run to run.
"""
import json
import os
import shutil
import sys
import tempfile
import time
import zipfile

from dataflows import Flow, dump_to_path

rows = [dict(id=i, name='name %d' % i) for i in range(10)]
failures = []
workdir = tempfile.mkdtemp(prefix='c09-xlsxhash-')
try:
    result = []
    for n in (1, 2):
        out = os.path.join(workdir, 'out%d' % n)
        _, stats = Flow(rows, dump_to_path(out, format='xlsx')).process()
        with open(os.path.join(out, 'datapackage.json'), encoding='utf-8') as f:
            dp = json.load(f)
        result.append((dp['resources'][0]['hash'], dp['hash'], stats['hash'], out))
        print('dump %d: resource hash %s, package hash %s' % (n, dp['resources'][0]['hash'], dp['hash']))
        if n == 1:
            time.sleep(2.1)

    # which parts of the workbook differ?
    za = zipfile.ZipFile(os.path.join(result[0][3], 'res_1.xlsx'))
    zb = zipfile.ZipFile(os.path.join(result[1][3], 'res_1.xlsx'))
    differing = [name for name in za.namelist() if za.read(name) != zb.read(name)]
    print('workbook members with different content:', differing)
    print('zip member timestamps:', za.infolist()[0].date_time, 'vs', zb.infolist()[0].date_time)
    za.close()
    zb.close()

    # control: the same experiment with csv is deterministic
    csv_hashes = []
    for n in (1, 2):
        out = os.path.join(workdir, 'csv%d' % n)
        _, stats = Flow(rows, dump_to_path(out)).process()
        csv_hashes.append(stats['hash'])
    print('control (csv) package hashes equal:', csv_hashes[0] == csv_hashes[1])

    print('expected: identical hashes for the two xlsx dumps')
    if result[0][0] != result[1][0]:
        failures.append('resource hash differs between two dumps of the same data: %s vs %s'
                        % (result[0][0], result[1][0]))
    if result[0][1] != result[1][1]:
        failures.append('package hash differs between two dumps of the same data: %s vs %s'
                        % (result[0][1], result[1][1]))
finally:
    shutil.rmtree(workdir, ignore_errors=True)

if failures:
    print('VIOLATION:')
    for f in failures:
        print('  -', f)
    sys.exit(1)
print('OK')
