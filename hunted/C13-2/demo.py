"""C13 - load() of a plain RFC-4180 comma separated file mis-detects the dialect.

No dialect option is given (the documented default).  The CSV dialect is then
guessed by csv.Sniffer from the file content, so legitimate cell text decides
which character is the delimiter / the quote character:

  case 1: a quoted cell containing '; ' next to doubled quotes makes load()
          parse the file as ';'-separated: ONE field called 'name,motto'.
  case 2: cells that start and end with an apostrophe lose the apostrophes
          (the sniffer picks "'" as quote character).
"""
import csv
import io
import os
import sys
import tempfile
import shutil

from dataflows import Flow, load


def write_csv(path, header, rows):
    buf = io.StringIO()
    w = csv.writer(buf, lineterminator='\n')   # excel dialect: ',' and '"', minimal quoting
    w.writerow(header)
    w.writerows(rows)
    with open(path, 'w', newline='', encoding='utf-8') as f:
        f.write(buf.getvalue())
    return buf.getvalue()


def load_raw(path):
    raw = []

    def capture(rows):
        for row in rows:
            raw.append(dict(row))
            yield row

    dp, _ = Flow(load(path, infer_strategy=load.INFER_STRINGS,
                      cast_strategy=load.CAST_TO_STRINGS), capture).process()
    names = [f['name'] for f in dp.descriptor['resources'][0]['schema']['fields']]
    return names, raw


CASES = [
    ('quoted cell with semicolons',
     ['name', 'motto'],
     [['Ann', '"Veni"; "vidi"; "vici"'], ['Bob', 'none']]),
    ('cells wrapped in apostrophes',
     ['id', 'name', 'nick'],
     [['1', 'Bob', "'Bobby'"], ['2', 'Al', "'Ally'"]]),
]

workdir = tempfile.mkdtemp(prefix='c13-sniff-')
failed = False
try:
    for title, header, rows in CASES:
        path = os.path.join(workdir, 'table.csv')
        text = write_csv(path, header, rows)
        # sanity: the file is a well-formed comma separated file
        assert list(csv.reader(io.StringIO(text))) == [header] + rows
        expected = [dict(zip(header, r)) for r in rows]
        names, got = load_raw(path)
        print('---', title)
        print('file content         :', repr(text))
        print('expected field names :', header)
        print('observed field names :', names)
        print('expected rows        :', expected)
        print('observed rows        :', got)
        if names != header or got != expected:
            print('VIOLATION: load() did not reproduce the source table')
            failed = True
finally:
    shutil.rmtree(workdir, ignore_errors=True)

sys.exit(1 if failed else 0)
