"""C08: after an interrupted checkpoint save, the documented "second flow starts from the
checkpoint" idiom (TUTORIAL.md: Flow(checkpoint(name), ...)) commits an EMPTY checkpoint under
that name; the producing flow's next run then picks that one up instead of recomputing."""
import os
import shutil
import subprocess
import sys
import tempfile

from dataflows import Flow, checkpoint, filter_rows

ROWS = [dict(a=i) for i in range(5)]
NAME = 'source-data'

PRODUCER_THAT_DIES = '''
import os
from dataflows import Flow, checkpoint
def source():
    for i in range(5):
        if i == 3:
            os._exit(9)          # the process dies while the checkpoint is being written
        yield dict(a=i)
Flow(source(), checkpoint(%r)).process()
''' % NAME


def main():
    workdir = tempfile.mkdtemp()
    cwd = os.getcwd()
    os.chdir(workdir)
    try:
        final = os.path.join('.checkpoints', NAME, 'stream.ndjson')

        # run 1: the producing flow dies in the middle of saving the checkpoint
        rc = subprocess.call([sys.executable, '-c', PRODUCER_THAT_DIES], stdout=subprocess.DEVNULL)
        print('run 1 (producer) died with exit code', rc, '- files:', os.listdir(os.path.dirname(final)))
        assert rc == 9 and not os.path.exists(final)

        # run 2: the flow that continues from the checkpoint, written as in TUTORIAL.md
        #        ("load from the checkpoint we saved in the previous flow")
        consumer = Flow(checkpoint(NAME), filter_rows(equals=[dict(a=1)])).results()[0]
        print('run 2 (consumer, tutorial idiom) returned', consumer)
        committed = os.path.exists(final)
        print('committed checkpoint exists now:', committed)
        if committed:
            print('its content:', repr(open(final).read()))

        # run 3: the producing flow again, this time undisturbed
        try:
            observed = Flow(ROWS, checkpoint(NAME)).results()[0]
        except Exception as e:
            observed = 'exception: %s' % str(e).strip().splitlines()[-1]
        expected = [ROWS]
        print('EXPECTED: nobody ever finished saving the checkpoint, so no usable checkpoint exists and')
        print('          the producer recomputes from its source:', expected)
        print('OBSERVED: committed checkpoint exists = %s; producer run gives: %s' % (committed, observed))
        return 1 if (committed or observed != expected) else 0
    finally:
        os.chdir(cwd)
        shutil.rmtree(workdir, ignore_errors=True)


if __name__ == '__main__':
    sys.exit(main())
