"""C01: lazy chained execution != step-by-step evaluation.

Steps:  data -> duplicate() -> head2      and      src, tgt -> join(source_delete=False) -> head2
where head2 is an ordinary `rows` callable that keeps the first two rows of every resource
(itertools.islice) - it does not read the rest of its input.

Step-by-step (each step on the fully materialised output of the previous one) the copy made by
duplicate() holds the first two rows, and the joined target rows carry the values of their source
rows.  Chained lazily, duplicate() only stores / join() only indexes the rows the downstream step
happens to pull from the ORIGINAL resource, so the copy comes out empty and the join finds no match.
"""
import itertools
import sys
import warnings

from dataflows import Flow, duplicate, join

warnings.simplefilter('ignore')


def head2(rows):
    yield from itertools.islice(rows, 2)


def src():
    return [{'id': i, 'v': 'a%d' % i} for i in range(6)]


def tgt():
    return [{'id': 5 - i, 'w': 'b%d' % i} for i in range(4)]


def lazy(make_steps):
    rows, dp, _ = Flow(*make_steps()).results()
    return [r.name for r in dp.resources], rows


def stepwise(make_steps):
    """materialise the output of all the steps before head2, then apply head2 to every resource"""
    *prefix, last = make_steps()
    rows, dp, _ = Flow(*prefix).results()
    return [r.name for r in dp.resources], [list(last(iter(rr))) for rr in rows]


CASES = {
    'duplicate': lambda: [src(), duplicate(), head2],
    'join(source_delete=False)': lambda: [
        src(), tgt(),
        join('res_1', ['id'], 'res_2', ['id'], dict(v=None), source_delete=False),
        head2],
}

failed = False
for name, make_steps in CASES.items():
    expected = stepwise(make_steps)
    observed = lazy(make_steps)
    print('== %s followed by a rows step that keeps the first 2 rows' % name)
    print('expected (step by step):', expected)
    print('observed (Flow(...))   :', observed)
    if expected != observed:
        failed = True
        print('-> MISMATCH')

if failed:
    print('VIOLATION: the chained flow does not produce the rows of the step-by-step evaluation')
    sys.exit(1)
print('ok')
