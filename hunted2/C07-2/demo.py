"""C07: a pipeline whose package has no resources (metadata only) saves a checkpoint that cannot
be resumed: the second run fails with KeyError 'resources'."""
import contextlib
import io
import os
import sys
import tempfile

from dataflows import Flow, checkpoint, update_package


def pipeline():
    # metadata-only package: a legitimate (if small) flow, `Flow(update_package(...)).process()` works
    return Flow(update_package(name='catalogue', title='Nothing published yet'),
                checkpoint('meta'))


def run():
    with contextlib.redirect_stdout(io.StringIO()):
        try:
            rows, dp, _ = pipeline().results()
        except Exception as e:
            return 'EXCEPTION %r' % (e,)
    return 'rows=%r descriptor=%r' % (rows, dp.descriptor)


def main():
    with tempfile.TemporaryDirectory() as tmp:
        os.chdir(tmp)
        try:
            first = run()
            saved = os.path.exists('.checkpoints/meta/stream.ndjson')
            resumed = run()
        finally:
            os.chdir('/')
    print('checkpoint saved by first run:', saved)
    print('expected (first run)  :', first)
    print('observed (resumed run):', resumed)
    if first != resumed:
        print('VIOLATION: the resumed run does not reproduce the first run')
        sys.exit(1)
    print('ok')


if __name__ == '__main__':
    main()
