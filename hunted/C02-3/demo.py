"""C02: two load() steps whose sources have the same base name produce two resources with the SAME
name; every later step then resolves the second row stream to the first resource's descriptor."""
import os
import shutil
import sys
import tempfile
from dataflows import Flow, load, validate, dump_to_path

work = tempfile.mkdtemp(dir='.')
try:
    os.makedirs(os.path.join(work, '2019'))
    os.makedirs(os.path.join(work, '2020'))
    with open(os.path.join(work, '2019', 'data.csv'), 'w') as f:
        f.write('id,name\n1,foo\n2,bar\n')
    with open(os.path.join(work, '2020', 'data.csv'), 'w') as f:
        f.write('day,amount\n2020-01-01,1.5\n')

    def loads():
        return load(os.path.join(work, '2019', 'data.csv')), load(os.path.join(work, '2020', 'data.csv'))

    ok = True
    print('expected: two resources with unique names; rows of the 2nd resource carry exactly its declared '
          'fields (day, amount); the package can be validated and dumped')

    rows, dp, _ = Flow(*loads()).results()
    names = [r['name'] for r in dp.descriptor['resources']]
    print('observed load+load: resource names = %r' % names)
    if len(set(names)) != len(names):
        ok = False

    rows, dp, _ = Flow(*loads(), validate()).results()
    for res, res_rows in zip(dp.descriptor['resources'], rows):
        declared = [f['name'] for f in res['schema']['fields']]
        for row in res_rows:
            undeclared = sorted(set(row) - set(declared))
            print('observed load+load+validate(): resource %r declared=%r row=%r undeclared=%r'
                  % (res['name'], declared, row, undeclared))
            if undeclared:
                ok = False

    try:
        Flow(*loads(), dump_to_path(os.path.join(work, 'out'))).process()
        print('observed load+load+dump_to_path: ok, files: %r' % sorted(os.listdir(os.path.join(work, 'out'))))
    except Exception as e:
        ok = False
        print('observed load+load+dump_to_path: raised %s: %s' % (type(e).__name__, str(e).replace('\n', ' ')[:200]))
finally:
    shutil.rmtree(work, ignore_errors=True)

if ok:
    print('OK: property holds')
    sys.exit(0)
print('VIOLATION: duplicate resource names; rows of the second resource are processed with the '
      'descriptor of the first one')
sys.exit(1)
