"""C07: a zone-aware datetime whose UTC offset has a sub-second part comes back from a checkpoint
with the offset truncated to whole seconds, i.e. as another instant."""
import contextlib
import io
import os
import sys
import tempfile
from datetime import datetime, timedelta, timezone

from dataflows import Flow, checkpoint, set_type

ROWS = [
    {'id': 1, 'at': datetime(2020, 1, 1, 12, 0, 0, tzinfo=timezone(timedelta(hours=1)))},
    # local mean time style offsets with a fraction of a second are valid since Python 3.7
    {'id': 2, 'at': datetime(2020, 1, 1, 12, 0, 0, tzinfo=timezone(timedelta(minutes=19, seconds=32, microseconds=130000)))},
    {'id': 3, 'at': datetime(2020, 1, 1, 12, 0, 0, tzinfo=timezone(-timedelta(microseconds=500000)))},
]


def run():
    with contextlib.redirect_stdout(io.StringIO()):
        rows, dp, _ = Flow(ROWS, set_type('at', type='datetime'), checkpoint('instants')).results()
    return rows[0]


def main():
    with tempfile.TemporaryDirectory() as tmp:
        os.chdir(tmp)
        try:
            first = run()
            resumed = run()
        finally:
            os.chdir('/')
    failed = False
    for a, b in zip(first, resumed):
        same = a == b
        print('id', a['id'])
        print('  expected (first run)  :', a['at'].isoformat(), ' utcoffset', a['at'].utcoffset())
        print('  observed (resumed run):', b['at'].isoformat(), ' utcoffset', b['at'].utcoffset(),
              '' if same else ' <-- differs by %s' % abs(a['at'] - b['at']))
        failed = failed or not same
    if failed:
        print('VIOLATION: the resumed run returns other datetimes than the first run')
        sys.exit(1)
    print('ok')


if __name__ == '__main__':
    main()
