"""C03: a number field holding the Table Schema special values NaN / INF / -INF: the CSV dump round-trips
them, but the JSON dump writes the bare tokens NaN / Infinity / -Infinity, which are not JSON: the data
file cannot be parsed by load() (nor by any other JSON parser that follows RFC 8259)."""
import decimal
import json
import os
import shutil
import sys
import tempfile

from dataflows import Flow, load, dump_to_path, dump_to_zip, update_resource, validate

D = decimal.Decimal
ROWS = [dict(id=1, x=D('1.5')), dict(id=2, x=D('Infinity')), dict(id=3, x=D('-Infinity')), dict(id=4, x=D('NaN'))]
SCHEMA = dict(fields=[dict(name='id', type='integer'), dict(name='x', type='number')])


def show(rows):
    return [(r['id'], str(r['x'])) for r in rows]


def strict_json(text):
    def reject(token):
        raise ValueError('%s is not a JSON value' % token)
    return json.loads(text, parse_constant=reject)


def main():
    failures = 0
    tmp = tempfile.mkdtemp(prefix='c03demo')
    try:
        for fmt in ('csv', 'json'):
            out = os.path.join(tmp, fmt)
            Flow((dict(r) for r in ROWS), update_resource(-1, name='res', path='res.csv', schema=SCHEMA),
                 validate(), dump_to_path(out, format=fmt)).process()
            print('format=%s' % fmt)
            print('  expected:', show(ROWS))
            try:
                back = Flow(load(os.path.join(out, 'datapackage.json'))).results()[0][0]
                print('  observed:', show(back))
                failures += show(back) != show(ROWS)
            except Exception as e:
                print('  observed: load failed:', ' '.join(str(e).split())[:160])
                failures += 1
        text = open(os.path.join(tmp, 'json', 'res.json'), encoding='utf-8').read()
        print('written res.json:', text)
        print('  expected: a JSON document')
        try:
            strict_json(text)
            print('  observed: a JSON document')
        except ValueError as e:
            print('  observed: not JSON -', e)
            failures += 1
    finally:
        shutil.rmtree(tmp, ignore_errors=True)
    if failures:
        print('VIOLATION: the JSON dump of NaN / INF numbers is not a JSON file and does not load back')
        return 1
    print('ok')
    return 0


if __name__ == '__main__':
    sys.exit(main())
