"""C11 join computes the relational join with the documented aggregates.

Oracle: refmodel.join (dict of rendered key -> list of source rows; aggregates computed from the
list by their PROCESSORS.md definitions). Target rows in order; full-outer tail and deduplication
output compared as multisets; `set`/`counters`/`any` compared by their unordered definitions.
"""
import collections
import os
import copy
import datetime
import decimal

from vlib import boot, gen, lab, refmodel

PROPERTY = 'C11'
LEVEL = 'exploration'
RULE = ('seeded generation: source/target tables of 0..12 rows over int/str/number/date fields with '
        'duplicate, missing (unmatched) and null keys x key shape {field list same/different names, '
        'composite list, format string with literal text, row number} x mode {inner, half-outer, '
        'full-outer, deduplication (join_with_self)} x 12 aggregates x source_delete x "*" wildcard x '
        'target field pre-existing; spill family with 10300/12000 distinct keys (> KVFile cache); '
        'distinct = case hash; non-trivial = >=1 matched and >=1 unmatched target row, or >=1 multi-row group')
ASSUMPTIONS = [
    'keys are compared as rendered strings (null renders "None"); no string value equals "None"',
    'order of full-outer tail rows and of deduplication output is not judged',
    'numeric results compared numerically (Decimal(2) == 2.0)',
    'order of the appended fields in the target schema is not judged',
]
REQUIRED_COUNTERS = ['target_rows_compared', 'aggregates_compared']
D = decimal.Decimal
AGGS = ['sum', 'avg', 'median', 'min', 'max', 'first', 'last', 'count', 'counters', 'set', 'array', 'any']
MODES = ['inner', 'half-outer', 'full-outer', 'dedup']


def gen_cases(tier, seed):
    # the processors of this property once more with assertions disabled (python -O) against a normal interpreter
    yield {'family': 'optimized_differential', 'idx': 9 * 10 ** 6, 'seed': seed, 'spill': False, 'big': False, 'proc': 'optimized_differential', 'names': ['a'], 'selector': None}
    n = {'quick': 1400, 'thorough': 30000}[tier]
    # spill cases first: they are the long ones and shards take cases round-robin
    for i in range({'quick': 3, 'thorough': 32}[tier]):
        yield {'family': MODES[i % 4], 'idx': 10 ** 6 + i, 'seed': seed, 'spill': True}
    for i in range(n):
        yield {'family': MODES[i % 4], 'idx': i, 'seed': seed, 'spill': False}


SRC_FIELDS = [('k', 'integer'), ('k2', 'string'), ('v', 'integer'), ('w', 'number'), ('s', 'string'),
              ('d', 'date'), ('du', 'duration')]
AGG_FIELD = {   # aggregate -> source fields it is documented for
    'sum': ['v', 'w', 's', 'du'], 'avg': ['v', 'w', 'du'], 'median': ['v', 'w', 'du', 'du'], 'min': ['v', 'w', 's', 'd', 'du'],
    'max': ['v', 'w', 's', 'd'], 'first': ['v', 's', 'd', 'w', 'du'], 'last': ['v', 's', 'd'],
    'count': ['v', 's', None], 'counters': ['s', 'v'], 'set': ['v', 's'], 'array': ['v', 's', 'd'],
    'any': ['v', 's', 'w'],
}


def src_row(rng, i, nkeys):
    return {'k': rng.choice(list(range(nkeys)) + [None] if rng.random() < 0.05 else list(range(nkeys))),
            'k2': rng.choice(['x', 'y', 'zz']),
            'v': rng.choice([None, 0, 1, 2, 3, 10, -4]),
            'w': rng.choice([None, D('0'), D('1.5'), D('2'), D('-0.25'), D('10.125')]),
            's': rng.choice([None, 'a', 'b', 'ab', 'é']),
            'd': rng.choice([None, datetime.date(2020, 1, 1), datetime.date(1999, 5, 17),
                             datetime.date(2021, 12, 31)]),
            'du': rng.choice([None, datetime.timedelta(hours=1), datetime.timedelta(hours=2), datetime.timedelta(hours=5),
                              datetime.timedelta(minutes=30)])}


def match_value(exp, got):
    if isinstance(exp, refmodel.AnyOf):
        return (got is None and not exp.values) or any(lab.value_eq(v, got) for v in exp.values)
    if isinstance(exp, refmodel.EitherOf):
        return any(match_value(a, got) for a in exp.alts)
    if isinstance(exp, refmodel.AsSet):
        if not isinstance(got, list):
            return False
        uniq = []
        for v in exp.values:
            if not any(lab.value_eq(v, u) for u in uniq):
                uniq.append(v)
        return len(got) == len(uniq) and all(any(lab.value_eq(g, u) for u in uniq) for g in got)
    if isinstance(exp, refmodel.AsCounters):
        if not isinstance(got, list):
            return False
        want = collections.Counter(exp.values)
        try:
            have = collections.Counter({p[0]: p[1] for p in got})
        except Exception:
            return False
        return len(got) == len(want) and have == want
    return lab.value_eq(exp, got)


def match_row(exp, got):
    return all(match_value(exp.get(k), got.get(k)) for k in set(exp) | set(got))


def run_case(case):
    if case['family'] == 'optimized_differential':
        from vlib import optlab
        return optlab.as_case_result(['join', 'join_full_outer'], {'target_rows_compared': 0, 'aggregates_compared': 0})
    mode = case['family']
    rng = boot.rng(case['seed'], 'C11', case['idx'])
    r3 = boot.rng(case['seed'], 'C11', 'round4', case['idx'])
    d = lab.df()
    counters = {'target_rows_compared': 0, 'aggregates_compared': 0}
    cov = {'agg_x_mode': {}, 'key_shape': {}}
    viol = []
    spill = case['spill']
    if spill:
        nkeys = rng.choice([10240, 10241, 10300, 12000])
        ns = nkeys + rng.randint(0, 3000)
        nt = 200
    else:
        nkeys = rng.choice([1, 2, 4, 6])
        ns = rng.choice([0, 1, 2, 5, 8, 12])
        nt = rng.choice([0, 1, 3, 6, 12])
    S = [src_row(rng, i, nkeys) for i in range(ns)]
    if spill:
        for i, r in enumerate(S):
            r['k'] = i if i < nkeys else rng.randrange(nkeys)
    # key shape
    shape = rng.choice(['list_same', 'list_diff', 'composite', 'fmt_literal', 'rownum', 'fmt_rownum', 'equal_but_distinct',
                        'fmt_spec', 'list_odd_name', 'composite_sep', 'fmt_two_fields'])
    if spill:
        shape = rng.choice(['list_same', 'fmt_literal'])
    if mode == 'dedup' and shape in ('list_diff', 'rownum', 'fmt_rownum', 'fmt_two_fields'):
        shape = 'composite'
    odd_name = None
    if shape == 'list_odd_name':
        # a key given as a LIST names fields literally, whatever characters the names contain
        odd_name = rng.choice(['geo.code', '2020', 'dc:id', 'x[0]', 'k!r', 'a b', '{k}'])
        shape = 'list_same'
    fspec = rng.choice([':03', '!s', ':>4', '!r:>5'])
    tk_names = {'list_same': ['k'], 'list_diff': ['tk'], 'composite': ['k', 'k2'], 'fmt_literal': ['tk'],
                'rownum': [], 'fmt_rownum': ['tk'], 'equal_but_distinct': ['k'], 'fmt_spec': ['tk'],
                'composite_sep': ['k2', 's'], 'fmt_two_fields': ['ta', 'tk']}[shape]
    source_key = {'list_same': ['k'], 'list_diff': ['k'], 'composite': ['k', 'k2'],
                  'fmt_literal': 'K-{k}', 'rownum': ['#'], 'fmt_rownum': '{#}', 'equal_but_distinct': ['k'],
                  'fmt_spec': 'K-{k%s}' % fspec, 'composite_sep': ['k2', 's'],
                  # two format strings whose fields pair up in the order of use: k2 -> ta, k -> tk (not alphabetically)
                  'fmt_two_fields': '{k2}/{k}'}[shape]
    target_key = {'list_same': ['k'], 'list_diff': ['tk'], 'composite': ['k', 'k2'],
                  'fmt_literal': '{tk}', 'rownum': ['#'], 'fmt_rownum': '{tk}', 'equal_but_distinct': ['k'],
                  'fmt_spec': '{tk}', 'composite_sep': ['k2', 's'], 'fmt_two_fields': '{ta}/{tk}'}[shape]
    if shape == 'fmt_spec':
        for r in S:         # a format spec cannot render null
            if r['k'] is None:
                r['k'] = 0
    if shape == 'composite_sep':
        # parts that contain the character a naive rendering would join them with: ('x:y', 'z') is not ('x', 'y:z')
        for r in S:
            r['k2'], r['s'] = rng.choice([('x:y', 'z'), ('x', 'y:z'), ('x', 'z'), ('x:y', 'y:z'),
                                          # ... also together with the character an escaping scheme would use
                                          ('logs\\', 'app:old'), ('logs:app\\', 'old'), ('a\\:b', 'c'), ('a\\', ':b:c')])
    if shape == 'equal_but_distinct':
        # key values that compare (and hash) equal but RENDER differently are different keys
        EQ = [D('1'), D('1.0'), D('1.00'), 1, 1.0, True, D('2'), 2]
        for r in S:
            r['k'] = rng.choice(EQ)
    cov['key_shape'][shape + ('/spill' if spill else '')] = 1
    T = []
    for i in range(nt):
        kv = rng.choice(list(range(nkeys + 2)) + ([None] if rng.random() < 0.05 else []))
        if spill:
            kv = rng.randrange(nkeys + 50)
        row = {'tid': i, 'keep': rng.choice(['p', 'q', None])}
        if shape == 'equal_but_distinct':
            row['k'] = rng.choice([D('1'), D('1.0'), D('1.00'), 1, 1.0, True, D('2'), 2, D('3')])
        elif shape in ('list_same',):
            row['k'] = kv
        elif shape == 'list_diff':
            row['tk'] = kv
        elif shape == 'composite':
            row['k'] = kv
            row['k2'] = rng.choice(['x', 'y', 'zz', 'w'])
        elif shape == 'composite_sep':
            row['k2'], row['s'] = rng.choice([('x:y', 'z'), ('x', 'y:z'), ('x', 'z'), ('q', 'q'),
                                              ('logs\\', 'app:old'), ('logs:app\\', 'old'), ('a\\:b', 'c')])
        elif shape == 'fmt_two_fields':
            row['ta'], row['tk'] = rng.choice(['x', 'y', 'zz', 'w']), kv
        elif shape == 'fmt_literal':
            row['tk'] = 'K-%s' % kv
        elif shape == 'fmt_spec':
            row['tk'] = ('K-{k%s}' % fspec).format(k=0 if kv is None else kv)
        elif shape == 'fmt_rownum':
            row['tk'] = rng.randint(1, max(1, ns + 1))
        T.append(row)
    t_fields = [('tid', 'integer'), ('keep', 'string')] + \
               [(n, {'k': 'integer' if shape != 'equal_but_distinct' else 'any', 'k2': 'string', 'ta': 'string'}.get(
                   n, 'string' if shape in ('fmt_literal', 'fmt_spec', 'composite_sep') else 'integer')) for n in tk_names]
    # fields mapping
    fields, ref_fields = {}, {}
    naggs = rng.randint(1, 4)
    for j in range(naggs):
        agg = rng.choice(AGGS)
        name = rng.choice(AGG_FIELD[agg])
        tf = 'o%d' % j
        cov['agg_x_mode']['%s/%s' % (agg, mode)] = 1
        if name is None:
            fields[tf] = {'aggregate': agg}
            ref_fields[tf] = {'name': tf, 'aggregate': agg, '_name_given': False}
        else:
            fields[tf] = {'name': name, 'aggregate': agg}
            ref_fields[tf] = {'name': name, 'aggregate': agg, '_name_given': True}
    pre_existing = False
    if mode != 'dedup' and rng.random() < 0.2:
        # mapping onto a field that already exists in the target (same type required)
        pre_existing = True
        t_fields.append(('have', 'integer'))
        for r in T:
            r['have'] = rng.choice([None, 77])
        fields['have'] = {'name': 'v', 'aggregate': 'max'}
        ref_fields['have'] = {'name': 'v', 'aggregate': 'max', '_name_given': True}
    if boot.rng(case['seed'], 'C11', 'shared', case['idx']).random() < 0.12 and not pre_existing:
        # two entries of the mapping share ONE specification object (dict.fromkeys(['v', 'w'], {...}))
        shared = {'aggregate': rng.choice(['max', 'min', 'first', 'any'])}
        fields['v'] = fields['w'] = shared
        ref_fields['v'] = {'name': 'v', 'aggregate': shared['aggregate'], '_name_given': True}
        ref_fields['w'] = {'name': 'w', 'aggregate': shared['aggregate'], '_name_given': True}
        cov['key_shape']['mapping_entries_sharing_one_spec_object'] = 1
    wildcard = rng.random() < 0.15
    if wildcard and r3.random() < 0.5 and mode != 'dedup' and not pre_existing:
        # the explicit entry wins over the wildcard: target field 'v' takes source field 'w' here
        fields['v'] = {'name': 'w', 'aggregate': 'max'}
        ref_fields['v'] = {'name': 'w', 'aggregate': 'max', '_name_given': True}
        cov['key_shape']['explicit_target_named_like_a_source_field_plus_wildcard'] = 1
    if wildcard:
        # type-preserving aggregates only: '*' maps source fields onto same-named target fields
        wagg = rng.choice(['first', 'last', 'any'] + (['array'] if mode == 'dedup' else []))
        fields['*'] = {'aggregate': wagg}
        used = {s['name'] for s in ref_fields.values()}
        for n, _ in SRC_FIELDS:
            if n not in used and n not in ref_fields:
                ref_fields[n] = {'name': n, 'aggregate': wagg, '_name_given': True}
    if rng.random() < 0.15:
        # plain pass-through mapping: {'s': None}  == any value of source field 's'
        fields['s'] = None if rng.random() < 0.5 else {}
        ref_fields['s'] = {'name': 's', 'aggregate': 'any', '_name_given': True}
    if mode != 'dedup' and boot.rng(case['seed'], 'C11', 'nofields', case['idx']).random() < 0.06:
        # no fields at all (the documented default): the join still matches, filters (inner) and appends (full-outer)
        fields, ref_fields = {}, {}
        cov.setdefault('config', {})['empty_fields_mapping/' + mode] = 1
    if mode == 'dedup' and spill and 'k' not in fields:
        # thousands of output rows: the key is passed through ({'k': None}, the documented way to keep it), so that every
        # expected row is identified exactly (pairing rows with `any` / `set` fields as multisets is not sound at that size)
        fields['k'] = None
        ref_fields['k'] = {'name': 'k', 'aggregate': 'any', '_name_given': True}
    source_delete = rng.random() < 0.6
    cfg = {'mode': mode, 'source_key': source_key, 'target_key': target_key, 'fields': fields,
           'source_delete': source_delete, 'shape': shape, 'ns': ns, 'nt': nt}
    sf = gen.schema_fields([(n_, 'any' if (n_ == 'k' and shape == 'equal_but_distinct') else t_) for n_, t_ in SRC_FIELDS])
    if mode == 'dedup':
        exp_rows, exp_tail = refmodel.join(S, [], source_key, None, ref_fields, None, SRC_FIELDS)
    else:
        exp_rows, exp_tail = refmodel.join(S, T, source_key, target_key, ref_fields, mode, SRC_FIELDS)
    if odd_name:
        # the whole case is computed with the key field called 'k'; now call it by its odd name everywhere
        def rk(x):
            return odd_name if x == 'k' else x

        def rrow(r):
            return {rk(k_): v_ for k_, v_ in r.items()}
        S, T = [rrow(r) for r in S], [rrow(r) for r in T]
        exp_rows, exp_tail = [rrow(r) for r in exp_rows], [rrow(r) for r in exp_tail]
        source_key, target_key = [rk(x) for x in source_key], [rk(x) for x in target_key]
        t_fields = [(rk(n_), t_) for n_, t_ in t_fields]
        tk_names = [rk(x) for x in tk_names]
        for spec_ in list(fields.values()) + list(ref_fields.values()):
            if spec_ and spec_.get('name') == 'k':
                spec_['name'] = odd_name
        fields = {rk(k_): v_ for k_, v_ in fields.items()}
        ref_fields = {rk(k_): v_ for k_, v_ in ref_fields.items()}
        sf = [dict(f_, name=rk(f_['name'])) for f_ in sf]
        cfg.update(source_key=source_key, target_key=target_key, fields=fields, shape='list_odd_name')
        cov['key_shape']['list_odd_name'] = 1
    # the SAME key / fields objects are handed to the step twice (second use): a step must not corrupt its arguments
    second_use = boot.rng(case['seed'], 'C11', 'reuse', case['idx']).random() < 0.2 and not spill
    positional_mode = mode != 'dedup' and r3.random() < 0.2
    rerun = r3.choice([None, None, None, None, 'after_success', 'after_failure']) if not spill and not second_use else None
    if positional_mode:
        cov['key_shape']['mode_passed_positionally'] = 1
        cfg['mode_passed_positionally'] = True

    # the source stays in the package and a later step reads only its first two rows: the join still sees every source row
    partial = mode != 'dedup' and not source_delete and not spill and \
        boot.rng(case['seed'], 'C11', 'partial', case['idx']).random() < 0.3
    if partial:
        import itertools
        cfg['later_step_reads_only_2_source_rows'] = True
        cov['key_shape']['later_step_reads_source_partially'] = 1

    def head_of_source(package):
        yield package.pkg
        for res in package:
            if res.res.name == 'src':
                yield itertools.islice(res, 2)
            else:
                yield res

    def build():
        if partial:
            return [lab.source('src', sf, S), lab.source('tgt', gen.schema_fields(t_fields), T),
                    d.join('src', copy.deepcopy(source_key), 'tgt', copy.deepcopy(target_key),
                           copy.deepcopy(fields), mode=mode, source_delete=source_delete), head_of_source]
        if mode == 'dedup':
            return [lab.source('src', sf, S),
                    d.join_with_self('src', copy.deepcopy(source_key), copy.deepcopy(fields))]
        if positional_mode:
            # the documented signature: join(source_name, source_key, target_name, target_key, fields, mode, source_delete)
            return [lab.source('src', sf, S), lab.source('tgt', gen.schema_fields(t_fields), T),
                    d.join('src', copy.deepcopy(source_key), 'tgt', copy.deepcopy(target_key),
                           copy.deepcopy(fields), mode, source_delete=source_delete)]
        return [lab.source('src', sf, S), lab.source('tgt', gen.schema_fields(t_fields), T),
                d.join('src', copy.deepcopy(source_key), 'tgt', copy.deepcopy(target_key),
                       copy.deepcopy(fields), mode=mode, source_delete=source_delete)]
    if rerun:
        # the same Flow object is executed again - after a first execution that completed, or one that a later step
        # aborted half way: the join starts from an empty index every time
        cov['key_shape']['same_flow_object_executed_again/' + rerun] = 1
        cfg['rerun'] = rerun
        state = {'armed': rerun == 'after_failure'}

        def flaky(rows):
            for n_, row in enumerate(rows):
                if state['armed'] and n_ == 0:
                    state['armed'] = False
                    raise ConnectionError('transient failure in a later step (first execution only)')
                yield row
        lab.second_run(True)
        try:
            steps = build() + ([flaky] if rerun == 'after_failure' else [])
            got = lab.run(steps)
        finally:
            lab.second_run(False)
    elif second_use:
        cov['key_shape']['second_use_of_the_same_argument_objects'] = 1
        cfg['second_use'] = True
        with lab.arg_reuse('record'):
            lab.run(build())
        with lab.arg_reuse('replay'):
            steps = build()
    else:
        steps = build()
    if not rerun:
        got = lab.run(steps)
    sample = {'config': cfg, 'source': gen.render(S[:5], 500), 'target': gen.render(T[:5], 400)}

    def classify():
        """Name the mechanism of a mismatch from the configuration (structural, not by values)."""
        tags = []
        for f, s in ref_fields.items():
            if s['aggregate'] == 'counters' and s['name'] != 's':
                tags.append('counters_nonstring')
            if s['aggregate'] == 'avg':
                tags.append('avg')
            if s['aggregate'] == 'count' and s['_name_given']:
                tags.append('count_named')
        if mode == 'full-outer':
            tags.append('full_outer')
        return '+'.join(sorted(set(tags))) or 'plain'

    def add(kind, msg, mech=None):
        viol.append({'kind': kind, 'mech': mech or classify(), 'mode': mode, 'msg': msg, 'config': cfg})
    if not got.ok:
        add('unexpected_error', '%r: %s' % (cfg, got.errstr()),
            mech=classify() + '/' + type(getattr(got.exc, 'cause', got.exc)).__name__)
        return dict(nontrivial=False, violations=viol, cov=cov, counters=counters)
    gg = got.by_name()
    want_names = ['src'] if mode == 'dedup' else ((['src'] if not source_delete else []) + ['tgt'])
    if got.names != want_names:
        add('resources', '%r: resources %r expected %r' % (cfg, got.names, want_names))
        return dict(nontrivial=False, violations=viol, cov=cov, counters=counters)
    if mode != 'dedup' and not source_delete:
        diffs = lab.rows_diff(S[:2] if partial else S, gg['src'][1])
        if diffs:
            add('source_changed', '%r: source rows changed: %s' % (cfg, diffs))
    out_name = 'src' if mode == 'dedup' else 'tgt'
    gdesc, grows = gg[out_name]
    declared = [f['name'] for f in gdesc['schema']['fields']]
    want_declared = ([] if mode == 'dedup' else [n for n, _ in t_fields])
    missing = [f for f in list(ref_fields) + want_declared if f not in declared]
    if missing or len(set(declared)) != len(declared):
        add('schema', '%r: output fields %r lack %r' % (cfg, declared, missing))
    if mode != 'dedup' and declared[:len(t_fields)] != [n for n, _ in t_fields]:
        add('schema', '%r: target fields reordered: %r' % (cfg, declared))
    undeclared = sorted({k for r in grows for k in r} - set(declared))
    if undeclared:
        add('undeclared_keys', '%r: rows carry keys %r not in schema %r' % (cfg, undeclared, declared))
    head, tail = grows[:len(exp_rows)], grows[len(exp_rows):]

    def tag(field):
        if field in ref_fields:
            sp = ref_fields[field]
            t = 'agg:' + sp['aggregate']
            if sp['aggregate'] == 'count' and sp['_name_given']:
                t += ':named_field'
            if sp['aggregate'] == 'counters' and sp['name'] != 's':
                t += ':nonstring'
            return t
        if field in tk_names:
            return 'target_key_field'
        return 'other_field:' + field

    def show(e, ks):
        return {k: getattr(e.get(k), 'values', getattr(e.get(k), 'alts', e.get(k))) for k in ks}
    if len(grows) != len(exp_rows) + len(exp_tail):
        add('row_count', '%r: %d rows expected %d ordered + %d unordered; got ids %r'
            % (cfg, len(grows), len(exp_rows), len(exp_tail), [r.get('tid') for r in grows][:20]),
            mech=mode)
    else:
        seen = {}
        for e, g in zip(exp_rows, head):
            counters['target_rows_compared'] += 1
            counters['aggregates_compared'] += len(ref_fields)
            for k in set(e) | set(g):
                if not match_value(e.get(k), g.get(k)):
                    seen.setdefault(tag(k), (g.get('tid'), k, g.get(k), show(e, [k])[k]))
        for t, (tid, k, gv, ev) in sorted(seen.items()):
            add('row', '%r: target row tid=%r field %r: got %r expected %r' % (cfg, tid, k, gv, ev),
                mech=t + ('/' + mode if t == 'target_key_field' else ''))
        pool = list(tail)
        seen = {}
        rest = []
        counters['aggregates_compared'] += len(ref_fields) * len(exp_tail)
        if len(exp_tail) <= 200:
            # maximum bipartite matching (markers such as `any` make first-fit unsound)
            adj = [[j for j, g in enumerate(pool) if match_row(e, g)] for e in exp_tail]
            owner = {}

            def augment(i, seen_):
                for j in adj[i]:
                    if j in seen_:
                        continue
                    seen_.add(j)
                    if j not in owner or augment(owner[j], seen_):
                        owner[j] = i
                        return True
                return False
            for i in range(len(exp_tail)):
                augment(i, set())
            matched_e = set(owner.values())
            rest = [e for i, e in enumerate(exp_tail) if i not in matched_e]
            pool = [g for j, g in enumerate(pool) if j not in owner]
        else:
            # large tails (spill family): first-fit among candidates sharing one plain field value
            def norm(v):
                return repr(float(v)) if isinstance(v, lab.NUM) and not isinstance(v, bool) else repr(v)
            index, alive = {}, [True] * len(pool)
            MARK = (refmodel.AnyOf, refmodel.AsSet, refmodel.AsCounters, refmodel.EitherOf, list)
            buckets = {}        # (plain field names, their values) -> expected rows agreeing on ALL plain fields
            for e in exp_tail:
                fs = tuple(sorted(k for k, v in e.items() if v is not None and not isinstance(v, MARK)))
                buckets.setdefault((fs, tuple(norm(e[k]) for k in fs)), []).append(e)
            for (fs, vals), exps in sorted(buckets.items(), key=lambda kv: -len(kv[0][0])):      # most constrained first
                if fs not in index:
                    index[fs] = {}
                    for j, g in enumerate(pool):
                        index[fs].setdefault(tuple(norm(g.get(k)) for k in fs), []).append(j)
                cand = [j for j in index[fs].get(vals, []) if alive[j]]
                if len(exps) * len(cand) <= 40000:
                    # maximum bipartite matching inside the bucket (markers such as `any` make first-fit unsound)
                    adj = [[j for j in cand if match_row(e, pool[j])] for e in exps]
                    owner = {}

                    def augment(i, seen_):
                        for j in adj[i]:
                            if j in seen_:
                                continue
                            seen_.add(j)
                            if j not in owner or augment(owner[j], seen_):
                                owner[j] = i
                                return True
                        return False
                    for i in range(len(exps)):
                        augment(i, set())
                    got_e = set(owner.values())
                    for j in owner:
                        alive[j] = False
                    rest.extend(e for i, e in enumerate(exps) if i not in got_e)
                else:
                    # big bucket: rows differ only in their marker fields, whose values come from small pools -> match
                    # GROUPS of identical rows with a max-flow on the (small) group graph (sound, unlike first-fit)
                    Lg, Rg = {}, {}
                    for e in exps:
                        Lg.setdefault(repr(sorted((k, repr(getattr(v, 'values', getattr(v, 'alts', v))))
                                                  for k, v in e.items())), []).append(e)
                    for j in cand:
                        Rg.setdefault(repr(sorted((k, norm(v) if not isinstance(v, list) else repr(v))
                                                  for k, v in pool[j].items() if v is not None)), []).append(j)
                    lk, rk = list(Lg), list(Rg)
                    edge = {(a, b) for a in range(len(lk)) for b in range(len(rk))
                            if match_row(Lg[lk[a]][0], pool[Rg[rk[b]][0]])}
                    lcap = [len(Lg[k]) for k in lk]
                    rcap = [len(Rg[k]) for k in rk]
                    flow = {}
                    # Edmonds-Karp on source -> L -> R -> sink
                    while True:
                        parent = {}
                        queue = [('L', a) for a in range(len(lk)) if lcap[a] > 0]
                        for q in queue:
                            parent[q] = None
                        found = None
                        while queue and found is None:
                            node = queue.pop(0)
                            if node[0] == 'L':
                                for b in range(len(rk)):
                                    if (node[1], b) in edge and ('R', b) not in parent:
                                        parent[('R', b)] = node
                                        queue.append(('R', b))
                            else:
                                b = node[1]
                                if rcap[b] > 0:
                                    found = node
                                    break
                                for a in range(len(lk)):
                                    if flow.get((a, b), 0) > 0 and ('L', a) not in parent:
                                        parent[('L', a)] = node
                                        queue.append(('L', a))
                        if found is None:
                            break
                        # augment by one unit along the path
                        node = found
                        rcap[node[1]] -= 1
                        while parent[node] is not None:
                            prev = parent[node]
                            if node[0] == 'R':
                                flow[(prev[1], node[1])] = flow.get((prev[1], node[1]), 0) + 1
                            else:
                                flow[(node[1], prev[1])] -= 1
                            node = prev
                        lcap[node[1]] -= 1
                    for (a, b), f in flow.items():
                        for _ in range(f):
                            alive[Rg[rk[b]].pop()] = False
                            Lg[lk[a]].pop()
                    for k in lk:
                        rest.extend(Lg[k])
            pool = [g for j, g in enumerate(pool) if alive[j]]
        if rest and len(rest) <= 40:
            # pair the leftovers globally by ascending number of differing fields, then name the fields
            def dist(e, g):
                return sum(not match_value(e.get(k), g.get(k)) for k in set(e) | set(g))
            pairs = sorted(((dist(e, g), i, j) for i, e in enumerate(rest) for j, g in enumerate(pool)))
            used_e, used_g = set(), set()
            for _, i, j in pairs:
                if i in used_e or j in used_g:
                    continue
                used_e.add(i)
                used_g.add(j)
                e, g = rest[i], pool[j]
                for k in set(e) | set(g):
                    if not match_value(e.get(k), g.get(k)):
                        seen.setdefault(tag(k), (k, g.get(k), show(e, [k])[k]))
        elif rest:
            seen.setdefault('unmatched_rows', ('-', len(rest), show(rest[0], rest[0])))
        for t, (k, gv, ev) in sorted(seen.items()):
            add('tail_row', '%r: unordered output row, field %r: got %r expected %r' % (cfg, k, gv, ev),
                mech=t)
    nontrivial = False
    if mode == 'dedup':
        nontrivial = len(exp_tail) >= 1 and len(S) > len(exp_tail)
    elif T and S:
        keys_s = {refmodel.render_key(source_key, r, n) for n, r in enumerate(S, 1)}
        keys_t = [refmodel.render_key(target_key, r, n) for n, r in enumerate(T, 1)]
        matched = sum(k in keys_s for k in keys_t)
        nontrivial = (0 < matched < len(T)) or len(keys_s) < len(S)
    return dict(nontrivial=nontrivial, violations=viol, cov=cov, counters=counters, sample=sample)
