"""C09: dump_to_path/dump_to_zip with format='xlsx' records bytes=0 for every resource.

Expected: the resource's recorded byte count equals the size of the written .xlsx file and the
package total equals the sum over the resources.
Observed: the resource 'bytes' counter (and the package total in datapackage.json) is 0 although
the written file has several thousand bytes.
"""
import hashlib
import json
import os
import shutil
import sys
import tempfile
import zipfile

from dataflows import Flow, dump_to_path, dump_to_zip

rows = [dict(id=i, name='héllo ☃ %d' % i) for i in range(20)]
failures = []

workdir = tempfile.mkdtemp(prefix='c09-xlsx-')
try:
    # --- dump_to_path
    out = os.path.join(workdir, 'out')
    _, stats = Flow(rows, dump_to_path(out, format='xlsx')).process()
    with open(os.path.join(out, 'datapackage.json'), encoding='utf-8') as f:
        dp = json.load(f)
    res = dp['resources'][0]
    with open(os.path.join(out, res['path']), 'rb') as f:
        data = f.read()
    print('dump_to_path  file:', res['path'])
    print('  expected resource bytes :', len(data))
    print('  recorded resource bytes :', res.get('bytes'))
    print('  recorded package  bytes :', dp.get('bytes'), '(expected sum over resources = %d)' % len(data))
    print('  hash matches file       :', res.get('hash') == hashlib.md5(data).hexdigest())
    print('  recorded row count      :', res.get('count_of_rows'), '(expected %d)' % len(rows))
    if res.get('bytes') != len(data):
        failures.append('dump_to_path: resource bytes %r != file size %d' % (res.get('bytes'), len(data)))
    if dp.get('bytes') != len(data):
        failures.append('dump_to_path: package bytes %r != sum of file sizes %d' % (dp.get('bytes'), len(data)))

    # --- dump_to_zip
    zpath = os.path.join(workdir, 'out.zip')
    Flow(rows, dump_to_zip(zpath, format='xlsx')).process()
    with zipfile.ZipFile(zpath) as z:
        dp = json.loads(z.read('datapackage.json').decode('utf-8'))
        res = dp['resources'][0]
        data = z.read(res['path'])
    print('dump_to_zip   member:', res['path'])
    print('  expected resource bytes :', len(data))
    print('  recorded resource bytes :', res.get('bytes'))
    if res.get('bytes') != len(data):
        failures.append('dump_to_zip: resource bytes %r != member size %d' % (res.get('bytes'), len(data)))
finally:
    shutil.rmtree(workdir, ignore_errors=True)

if failures:
    print('VIOLATION:')
    for f in failures:
        print('  -', f)
    sys.exit(1)
print('OK: recorded byte counts equal the file sizes')
