"""C20: rows that pass through dump_to_sql (SQLite) do not continue downstream unchanged:
object / array cells are replaced by their JSON text, a null object cell becomes the string 'null'
(which the next validating step rejects, rolling the dump back)."""
import os
import shutil
import sqlite3
import sys
import tempfile

from dataflows import Flow, dump_to_sql, set_type, update_resource

workdir = tempfile.mkdtemp(prefix='c20_2_')
db = os.path.join(workdir, 'demo.db')
engine = 'sqlite:///' + db

ROWS = [
    {'id': 1, 'obj': {'a': 1, 'b': [1, 2]}, 'arr': [1, 'x']},
    {'id': 2, 'obj': {}, 'arr': []},
    {'id': 3, 'obj': None, 'arr': None},
]


def table():
    conn = sqlite3.connect(db)
    try:
        return conn.execute('SELECT * FROM t ORDER BY id').fetchall()
    finally:
        conn.close()


def flow(*extra):
    return Flow(
        [dict(r) for r in ROWS],
        update_resource(-1, name='res'),
        set_type('obj', type='object'),
        set_type('arr', type='array'),
        *extra
    )


failed = False
try:
    # 1. what does the step right after dump_to_sql receive?
    before, after = [], []

    def spy_before(row):
        before.append(dict(row))

    def spy_after(row):
        after.append(dict(row))

    flow(spy_before,
         dump_to_sql({'t': {'resource-name': 'res'}}, engine=engine),
         spy_after).process()
    print('rows entering dump_to_sql :', before)
    print('expected downstream       :', before)
    print('observed downstream       :', after)
    if before != after:
        failed = True
        print('-> VIOLATION: rows do not continue downstream unchanged')
    print('table:', table())

    # 2. the usual way of collecting the rows: Flow.results()
    os.remove(db)
    try:
        rows = flow(dump_to_sql({'t': {'resource-name': 'res'}}, engine=engine)).results()[0][0]
        print('results():', rows)
        if rows != ROWS:
            failed = True
    except Exception as e:
        failed = True
        print('expected results()        :', ROWS)
        print('observed results() raises :', type(e).__name__, str(e).strip().replace('\n', ' ')[:200])
        try:
            print('table after the failed run (3 rows expected):', table())
        except Exception as e2:
            print('table after the failed run:', repr(e2))
finally:
    shutil.rmtree(workdir, ignore_errors=True)

sys.exit(1 if failed else 0)
