"""C12: sort_rows crashes on a number column that holds NaN as a decimal.

Table Schema's `number` type explicitly allows the values NaN, INF and -INF; the library casts
them to decimal.Decimal('NaN') etc.  A float NaN key is sorted fine (after +inf), a Decimal NaN
key makes sort_rows raise decimal.InvalidOperation, so no permutation is emitted at all.
"""
import os
import sys
import shutil
import tempfile
import decimal
from dataflows import Flow, load, sort_rows, validate

tmp = tempfile.mkdtemp()
failed = False
try:
    path = os.path.join(tmp, 'numbers.csv')
    with open(path, 'w') as f:
        f.write('id,x\n1,2.5\n2,NaN\n3,-1\n4,INF\n5,0.5\n')

    def source():
        # a well-typed pipeline: the CSV is loaded and cast with its (inferred) schema, then validated
        return [load(path, name='numbers', cast_strategy=load.CAST_WITH_SCHEMA), validate()]

    data = Flow(*source()).results()
    fields = {f['name']: f['type'] for f in data[1].descriptor['resources'][0]['schema']['fields']}
    print('schema      :', fields)
    print('loaded x    :', [r['x'] for r in data[0][0]])
    assert fields['x'] == 'number'

    finite = sorted(r['x'] for r in data[0][0] if not r['x'].is_nan())
    print('expected    : the 5 rows, the non-NaN ones in the order', finite)
    for label, make in (('decimal (as loaded)', lambda r: r),
                        ('floats (cast back by results())', lambda r: dict(r, x=float(r['x'])))):
        try:
            def conv(row):
                return make(row)
            out = Flow(*source(), conv, sort_rows('{x}')).results()[0][0]
            xs = [r['x'] for r in out]
            ok = len(xs) == 5 and [x for x in xs if x == x] == [type(xs[0])(v) for v in finite]
            print('%-32s: observed %r %s' % (label, xs, 'ok' if ok else 'WRONG'))
            failed |= not ok
        except Exception as e:
            cause = getattr(e, 'cause', None)
            print('%-32s: observed EXCEPTION %r (cause: %r)' % (label, e, cause))
            failed = True
finally:
    shutil.rmtree(tmp, ignore_errors=True)

if failed:
    print('VIOLATION: sort_rows does not emit a permutation of a conforming number column that contains NaN')
    sys.exit(1)
print('no violation')
