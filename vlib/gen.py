"""Generators: names, typed values by named hostile class, tables."""
import datetime
import decimal

D = decimal.Decimal

RES_NAMES = ['a', 'ab', 'abc', 'a.b', 'axb', 'a-b', 'b', 'a_b']
FIELD_NAMES_META = ['a', 'ab', 'abc', 'a.b', 'axb', 'a+', '(x)', 'a|b', 'x[0]', '$v', 'b', 'c d', 'é', 'a\n']
FIELD_NAMES_PLAIN = ['f1', 'f2', 'f3', 'f4', 'f5', 'f6']

# ---- typed value pools: {type: {class_name: [values]}} ------------------------------------

VALUES = {
    'string': {
        'plain': ['x', 'hello', 'Zeta', 'abc def'],
        'empty': [''],
        'padded': [' lead', 'trail ', '\ttab\t'],
        'quote': ['say "hi"', "it's", '""'],
        'delim': ['a,b', 'semi;colon', 'pipe|x'],
        'newline': ['line1\nline2', 'trailing\n'],
        'crlf': ['l1\r\nl2'],
        'unicode': ['żółć', '日本語', 'ß'],
        'nonbmp': ['😀', 'a𝒳b'],
        'numeric_looking': ['007', '1.50', '1e5', '-3'],
        'prefix_chain': ['a', 'a0', 'aa', 'ab', 'abc'],
        'none_like': ['None', 'null', 'NaN'],
    },
    'integer': {
        'small': [0, 1, 2, 7, 42],
        'negative': [-1, -17, -1000],
        'big': [2 ** 53 + 1, 2 ** 70, -2 ** 63],
    },
    'number': {
        'float': [0.5, 1.25, -3.75, 100.0],
        'decimal': [D('1.1'), D('-0.001'), D('12345.678')],
        'highprec': [D('1.000000000000000000000000000001'), D('3.14159265358979323846264338327950288')],
        'exp': [D('1E+3'), D('2.5E-7')],
        'int_valued': [D('7'), 3.0],
        'nonfinite': [D('NaN'), D('Infinity'), D('-Infinity')],
        # equal values that are written differently (used only where named explicitly)
        'same_value_other_scale': [D('2.5'), D('2.50'), D('2.500'), D('10'), D('1E+1'), D('10.0')],
    },
    'boolean': {'bool': [True, False]},
    'date': {
        'plain': [datetime.date(2020, 1, 31), datetime.date(1999, 12, 31)],
        'early': [datetime.date(1, 1, 1), datetime.date(987, 6, 5)],
        'late': [datetime.date(9999, 12, 31)],
    },
    'time': {'plain': [datetime.time(0, 0, 0), datetime.time(13, 45, 59), datetime.time(23, 59, 59)]},
    'datetime': {
        'plain': [datetime.datetime(2020, 2, 29, 12, 30, 15), datetime.datetime(1970, 1, 1, 0, 0, 0)],
        'early': [datetime.datetime(1, 1, 1, 0, 0, 1)],
    },
    'year': {'plain': [2020, 1999, 1, 9999]},
    'array': {
        'flat': [[1, 2, 3], ['a', 'b'], []],
        'nested': [[1, [2, {'k': 'v'}]], [{'a': None}]],
        'unicode': [['ż', '😀', 'q"uote', 'a,b']],
        'floats': [[0.1, 2.5], [1.5, [0.25, {'f': 1e-7}]]],
    },
    'object': {
        'flat': [{'k': 1}, {}, {'a': 'b', 'c': True}],
        'nested': [{'k': [1, 2, {'z': None}]}, {'ż': {'😀': 'x\ny'}}],
        'floats': [{'f': 0.5, 'g': [1.25, -0.1]}],
    },
}


def value(rng, typ, classes=None, null_p=0.12):
    """-> (value, class_name). `classes` restricts the named classes used."""
    if rng.random() < null_p:
        return None, 'null'
    pool = VALUES[typ]
    names = [c for c in pool if classes is None or c in classes] or list(pool)
    c = rng.choice(names)
    return rng.choice(pool[c]), c


def table(rng, fields, nrows, classes=None, null_p=0.12, cov=None):
    """fields: [(name, type)] -> list of dict rows. cov: optional {cell: n} updated with type/class."""
    rows = []
    for _ in range(nrows):
        row = {}
        for name, typ in fields:
            v, c = value(rng, typ, classes.get(typ) if classes else None, null_p)
            row[name] = v
            if cov is not None:
                key = '%s/%s' % (typ, c)
                cov[key] = cov.get(key, 0) + 1
        rows.append(row)
    return rows


def schema_fields(fields):
    return [{'name': n, 'type': t, 'format': 'default'} for n, t in fields]


def render(obj, limit=1200):
    """Short human-readable rendering for evidence samples / witnesses."""
    s = repr(obj)
    return s if len(s) <= limit else s[:limit] + '...[%d chars]' % len(s)
