"""C06: parallelize() reads the whole source ahead of the rows it delivers.

A counting generator is the source; the last step of the flow records, for every row it is
handed, how many source rows had been pulled by then.  With a plain row function the look-ahead
is the 100-row inference sample, whatever the stream length.  With the same function wrapped in
parallelize() the look-ahead grows with the stream length (practically the whole stream is pulled
into unbounded queues while the first rows are being delivered).
"""
import sys
import time

from dataflows import Flow, parallelize


def work(row):
    row['b'] = row['b'].upper()


def run(n, step):
    state = dict(pulled=0, delivered=0, max_ahead=0)

    def source():
        for i in range(n):
            state['pulled'] += 1
            yield dict(a=i, b='row-%d' % i)

    def sink(rows):
        for row in rows:
            state['delivered'] += 1
            if state['delivered'] == 1:
                time.sleep(0.3)   # a consumer that is a little slow, e.g. a writer
            state['max_ahead'] = max(state['max_ahead'], state['pulled'] - state['delivered'])
            yield row

    Flow(source(), step, sink).process()
    assert state['delivered'] == n, state
    return state['max_ahead']


if __name__ == '__main__':
    sizes = (2000, 20000)
    plain = [run(n, work) for n in sizes]
    par = [run(n, parallelize(work, num_processors=2)) for n in sizes]
    bound = 100 + 1000   # inference sample + a generous fixed batch
    print('stream lengths                         :', sizes)
    print('expected  max rows read ahead           : <= %d for every length (constant)' % bound)
    print('observed  with plain row function       :', plain)
    print('observed  with parallelize(row function):', par)
    violated = par[-1] > bound and par[-1] > 2 * par[0]
    if violated:
        print('VIOLATION: look-ahead of parallelize grows with the size of the data '
              '(%d rows of a %d-row stream were pulled before they could be delivered)'
              % (par[-1], sizes[-1]))
        sys.exit(1)
    print('no violation observed')
    sys.exit(0)
