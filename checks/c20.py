"""C20 dump_to_sql leaves the table in the state its mode prescribes.

Oracle: a sequential table model (list of rows; update = replace-by-key or append, append = extend,
rewrite = reset) applied to the same history of dumps; after each dump the real table is read with the
sqlite3 standard library (SELECT *) and compared as a multiset; downstream rows and the updated flag
are compared with the model's "key existed before this row was written".
"""
import collections
import copy
import datetime
import decimal
import json
import os
import sqlite3

from vlib import boot, gen, lab

PROPERTY = 'C20'
LEVEL = 'exploration'
RULE = ('seeded generation: histories of 1..5 dumps into one SQLite table x mode per dump {rewrite, append, '
        'update} x update keys {explicit single/composite, primary key} x batch_size {1,2,1000} x bloom filter '
        'on/off x array/object columns x duplicate keys inside one dump x 0..30 rows; distinct = case hash; '
        'non-trivial = >=2 dumps and >=1 key overlapping an earlier dump (or a rewrite over existing rows)')
ASSUMPTIONS = [
    'append into a table with a primary key: clashing keys are not generated (integrity error expected)',
    'array/object cells may hold dates / decimals: the table holds their JSON-native projection (ISO text, number), the '
    'rows continuing downstream stay typed; numbers compared at double precision (SQLite REAL); booleans as 0/1',
    'the table schema is the same for every dump of a history',
]
REQUIRED_COUNTERS = ['tables_compared', 'flags_compared']


def gen_cases(tier, seed):
    n = {'quick': 260, 'thorough': 6000}[tier]
    for i in range(n):
        yield {'family': 'history', 'idx': i, 'seed': seed}
    # dumps of one sequence placed in ONE flow (two dump_to_sql steps, same database file); rows vs batch size
    combos = [(3, 1000, 'rewrite', 'append'), (9, 3, 'rewrite', 'append'), (2, 1, 'rewrite', 'update'),
              (12, 2, 'append', 'update'), (3, 1000, 'rewrite', 'update')]
    if tier == 'thorough':
        combos += [(n, b, m1, m2) for n in (1, 4, 5, 30) for b in (1, 3) for m1 in ('rewrite', 'append')
                   for m2 in ('append', 'update')]
    for i, (n, b, m1, m2) in enumerate(combos):
        yield {'family': 'same_flow', 'idx': i, 'seed': seed, 'rows': n, 'batch': b, 'modes': [m1, m2]}
    for i in range({'quick': 3, 'thorough': 12}[tier]):
        yield {'family': 'one_resource_two_tables', 'idx': i, 'seed': seed}
    # ONE Flow object whose first run breaks off mid-stream (a step after the dump fails once) and which is run again
    for i in range({'quick': 8, 'thorough': 32}[tier]):
        yield {'family': 'retry_same_flow', 'idx': i, 'seed': seed}
    # ONE table-configuration dict (the caller's) used for dumps of resources whose primary keys differ
    for i in range({'quick': 2, 'thorough': 8}[tier]):
        yield {'family': 'shared_config', 'idx': i, 'seed': seed}
    # the caller's own Engine object (an in-memory database lives exactly as long as the engine's connection)
    for i in range({'quick': 4, 'thorough': 24}[tier]):
        yield {'family': 'caller_engine', 'idx': i, 'seed': seed}


def norm_db(v, typ):
    if v is None:
        return None
    if typ in ('array', 'object'):
        # SQLite has no array/object type: the dumper stores JSON text in the TABLE; a null cell is SQL NULL (handled
        # above), so the JSON text 'null' is a value of its own here
        v = json.loads(v) if isinstance(v, str) else v
        return 'JSON-TEXT-null' if v is None else json.dumps(v, sort_keys=True)
    if typ == 'number':
        return float(v)
    if typ == 'boolean':
        return bool(v)
    if typ == 'date':
        return v.isoformat() if isinstance(v, datetime.date) else str(v)
    if typ == 'duration':
        # any text the duration can be recovered from: ISO 8601 or str(timedelta)
        import isodate
        import re
        if not isinstance(v, str):
            return v.total_seconds()
        m = re.fullmatch(r'(?:(-?\d+) days?, )?(\d+):(\d\d):(\d\d)(?:\.(\d+))?', v)
        if m:
            return datetime.timedelta(days=int(m.group(1) or 0), hours=int(m.group(2)), minutes=int(m.group(3)),
                                      seconds=int(m.group(4))).total_seconds()
        try:
            return isodate.parse_duration(v).total_seconds()
        except Exception:
            return 'UNPARSEABLE:%r' % (v,)
    return v


def _json_native(v):
    # what a JSON column can hold of a nested value: dates as ISO text, decimals as numbers
    if isinstance(v, dict):
        return {k: _json_native(x) for k, x in v.items()}
    if isinstance(v, (list, tuple)):
        return [_json_native(x) for x in v]
    if isinstance(v, (datetime.date, datetime.datetime)):
        return v.isoformat()
    if isinstance(v, decimal.Decimal):
        return float(v)
    return v


def norm_model(v, typ):
    if v is None:
        return None
    if typ in ('array', 'object'):
        return json.dumps(_json_native(v), sort_keys=True)
    if typ == 'number':
        return float(v)
    if typ == 'boolean':
        return bool(v)
    if typ == 'date':
        return v.isoformat()
    if typ == 'duration':
        return v.total_seconds()
    return v


def _table(dbfile, name):
    con = sqlite3.connect(dbfile)
    try:
        names = [r[0] for r in con.execute("SELECT name FROM sqlite_master WHERE type='table'").fetchall()]
        if name not in names:
            return None
        cur = con.execute('SELECT * FROM "%s"' % name)
        cols = [c[0] for c in cur.description]
        return [dict(zip(cols, r)) for r in cur.fetchall()]
    finally:
        con.close()


def run_same_flow(case):
    """Two dumps of a sequence as two steps of one flow."""
    d = lab.df()
    n, b, (m1, m2) = case['rows'], case['batch'], case['modes']
    dbfile = os.path.abspath('t.db')
    engine = 'sqlite:///' + dbfile
    rows = [{'id': i, 'v': 'v%d' % i} for i in range(n)]
    fields = gen.schema_fields([('id', 'integer'), ('v', 'string')])
    counters = {'tables_compared': 0, 'flags_compared': 0}
    viol = []
    cfg = {'rows': n, 'batch_size': b, 'modes': [m1, m2]}

    def tb(mode):
        t = {'resource-name': 'res', 'mode': mode}
        if mode == 'update':
            t['update_keys'] = ['id']
        return t
    with boot.quiet():
        s1 = d.dump_to_sql({'tbl': tb(m1)}, engine=engine, batch_size=b)
        s2 = d.dump_to_sql({'tbl': tb(m2)}, engine=engine, batch_size=b)
    out = lab.run([lab.source('res', fields, rows), s1, s2], validate=False)
    for s_ in (s1, s2):
        try:
            s_.engine.dispose()
        except Exception:
            pass
    expected = rows + rows if m2 == 'append' else rows
    one_batch = n <= b          # (the writer flushes - and hands rows on - as soon as it holds MORE than batch_size rows)
    if not out.ok:
        locked = 'database is locked' in out.errstr()
        viol.append({'kind': 'same_flow_dump_failed',
                     # the second step writes while the first one's transaction is open: after a full batch, or at once when it updates
                     'mech': 'sqlite-locked-by-upstream-dump-step' if (locked and (not one_batch or m2 == 'update'))
                     else 'same_flow/failed',
                     'msg': '%r: two dump_to_sql steps in one flow failed: %s' % (cfg, out.errstr()[:300]), 'config': cfg})
    else:
        got = _table(dbfile, 'tbl')
        counters['tables_compared'] += 1
        key = lambda r: (r['id'], r['v'])
        if got is None or sorted(map(key, got)) != sorted(map(key, expected)):
            # alternative model: the downstream UPDATE step looked for its keys before the upstream step's transaction was
            # committed, found none and inserted: every row twice
            uncommitted = m2 == 'update' and got is not None and sorted(map(key, got)) == sorted(map(key, rows + rows))
            viol.append({'kind': 'same_flow_table_state',
                         'mech': 'same-flow-update-before-upstream-commit' if uncommitted else 'same_flow/%s>%s' % (m1, m2),
                         'msg': '%r: table holds %r rows, expected %d' % (cfg, None if got is None else len(got), len(expected)),
                         'config': cfg})
        counters['flags_compared'] += 1   # no flags in this family: the counter says the family ran
    return dict(nontrivial=True, violations=viol, counters=counters,
                cov={'mode_seq': {'same_flow:%s>%s' % (m1, m2): 1},
                     'config': {'same_flow/%s' % ('one_batch' if one_batch else 'several_batches'): 1}},
                sample={'config': cfg})


def run_two_tables(case):
    """tables={'current': {res, rewrite}, 'history': {res, append}}: both are target tables of the call - either both reflect
    the stream, or the step refuses the configuration before anything is written."""
    rng = boot.rng(case['seed'], 'C20', 'two_tables', case['idx'])
    d = lab.df()
    dbfile = os.path.abspath('t.db')
    engine = 'sqlite:///' + dbfile
    fields = gen.schema_fields([('id', 'integer'), ('v', 'string')])
    counters = {'tables_compared': 0, 'flags_compared': 1}
    viol = []
    hist = []
    ndumps = rng.randint(1, 3)
    cfg = {'dumps': ndumps}
    for di in range(ndumps):
        rows = [{'id': rng.randint(0, 9), 'v': 'd%d-%d' % (di, i)} for i in range(rng.choice([1, 2, 4]))]
        hist.extend(rows)
        try:
            with boot.quiet():
                step = d.dump_to_sql({'current': {'resource-name': 'res', 'mode': 'rewrite'},
                                      'history': {'resource-name': 'res', 'mode': 'append'}}, engine=engine)
        except ValueError:
            # refused up front: nothing written, nothing claimed
            if _table(dbfile, 'current') is not None or _table(dbfile, 'history') is not None:
                viol.append({'kind': 'refused_but_written', 'mech': 'refused_but_written',
                             'msg': 'the step refused the tables but the database has them', 'config': cfg})
            return dict(nontrivial=True, violations=viol, counters={'tables_compared': 1, 'flags_compared': 1},
                        cov={'mode_seq': {'two_tables_refused': 1}, 'config': {'one_resource_two_tables/refused': 1}},
                        sample={'config': cfg})
        out = lab.run([lab.source('res', fields, rows), step], validate=False)
        try:
            step.engine.dispose()
        except Exception:
            pass
        if not out.ok:
            viol.append({'kind': 'two_tables_failed', 'mech': 'two_tables_failed',
                         'msg': 'dump %d failed: %s' % (di, out.errstr()[:300]), 'config': cfg})
            break
        key = lambda r: (r['id'], r['v'])
        cur, his = _table(dbfile, 'current'), _table(dbfile, 'history')
        counters['tables_compared'] += 2
        if cur is None or sorted(map(key, cur)) != sorted(map(key, rows)) or \
                his is None or sorted(map(key, his)) != sorted(map(key, hist)):
            viol.append({'kind': 'two_tables_state', 'mech': 'one-resource-two-tables',
                         'msg': 'dump %d: table current %s, table history %s; expected %d and %d rows'
                         % (di, 'missing' if cur is None else '%d rows' % len(cur),
                            'missing' if his is None else '%d rows' % len(his), len(rows), len(hist)), 'config': cfg})
            break
    return dict(nontrivial=True, violations=viol, counters=counters,
                cov={'mode_seq': {'two_tables': 1}, 'config': {'one_resource_two_tables/written': 1}},
                sample={'config': cfg})


def run_retry(case):
    rng = boot.rng(case['seed'], 'C20', 'retry', case['idx'])
    d = lab.df()
    dbfile = os.path.abspath('t.db')
    engine = 'sqlite:///' + dbfile
    n = rng.choice([3, 6, 20])
    fail_at = rng.randrange(n)
    batch = rng.choice([1, 2, 1000])
    counters = {'tables_compared': 0, 'flags_compared': 0}
    # (append: the failing step sits BEFORE the dump, so the first attempt breaks off after some batches went to the database)
    rmode = boot.rng(case['seed'], 'C20', 'retry/mode', case['idx']).choice(['rewrite', 'append'])
    cfg = {'rows': n, 'first_attempt_fails_at_row': fail_at, 'batch_size': batch, 'mode': rmode}
    state = {'attempt': 0, 'armed': True}
    prior = []
    if rmode == 'append':
        prior = [{'id': 1000 + i, 'attempt': 0} for i in range(3)]
        with boot.quiet():
            d.Flow(lab.source('res', [{'name': 'id', 'type': 'integer'}, {'name': 'attempt', 'type': 'integer'}], prior),
                   d.dump_to_sql({'tbl': {'resource-name': 'res', 'mode': 'rewrite'}}, engine=engine)).process()

    def src(package):
        package.pkg.add_resource({'name': 'res', 'path': 'res.csv', 'schema': {'fields': [
            {'name': 'id', 'type': 'integer'}, {'name': 'attempt', 'type': 'integer'}]}})
        yield package.pkg
        yield from package
        state['attempt'] += 1
        yield ({'id': i, 'attempt': state['attempt']} for i in range(n))

    def failing_once(rows):
        for i, row in enumerate(rows):
            if state['armed'] and i == fail_at:
                state['armed'] = False
                raise RuntimeError('a later step failed (first attempt only)')
            yield row
    with boot.quiet():
        dump_ = d.dump_to_sql({'tbl': {'resource-name': 'res', 'mode': rmode}}, engine=engine,
                              updated_column='_upd', batch_size=batch)
        flow = d.Flow(src, dump_, failing_once) if rmode == 'rewrite' else d.Flow(src, failing_once, dump_)
    viol = []
    try:
        with boot.quiet():
            flow.results(on_error=None)
        return dict(nontrivial=False, violations=[], counters=counters, cov={'mode_seq': {}, 'config': {}},
                    inconclusive='the first attempt did not fail')
    except Exception:
        pass
    try:
        with boot.quiet():
            results, dp, _ = flow.results(on_error=None)
    except Exception as e:
        c = getattr(e, 'cause', e)
        viol.append({'kind': 'retry_failed', 'mech': 'retry_same_flow/failed', 'config': cfg,
                     'msg': '%r: the second run of the same Flow failed: %s: %s' % (cfg, type(c).__name__, str(c)[:200])})
        results = None
    if results is not None:
        want = [{'id': i, 'attempt': 2, '_upd': False} for i in range(n)]
        counters['flags_compared'] += n
        got = [dict(r, _upd=bool(r.get('_upd'))) for r in results[0]]
        if got != want:
            viol.append({'kind': 'downstream_row', 'mech': 'retry_same_flow/downstream_rows', 'config': cfg,
                         'msg': '%r: rows downstream of dump_to_sql on the second run %r, the rows of that run are %r'
                         % (cfg, got[:4], want[:4])})
        tab = _table(dbfile, 'tbl')
        counters['tables_compared'] += 1
        want_tab = sorted([(i, 2) for i in range(n)] + [(r['id'], 0) for r in prior])
        if tab is None or sorted((r['id'], r['attempt']) for r in tab) != want_tab:
            viol.append({'kind': 'table_state', 'mech': 'retry_same_flow/table_state', 'config': cfg,
                         'msg': '%r: after the second run (%s) the table holds %d rows %r, the previous rows plus the rows of the run '
                         'that dumped are %d' % (cfg, rmode, len(tab or []), tab and sorted((r['id'], r['attempt']) for r in tab)[:6], len(want_tab))})
    return dict(nontrivial=True, violations=viol, counters=counters,
                cov={'mode_seq': {'retry_same_flow/' + rmode: 1}, 'config': {'retry_same_flow/batch%d' % batch: 1}},
                sample={'config': cfg})


def run_shared_config(case):
    d = lab.df()
    rng = boot.rng(case['seed'], 'C20', 'shared_config', case['idx'])
    counters = {'tables_compared': 0, 'flags_compared': 0}
    config = {'tbl': {'resource-name': 'res', 'mode': 'update'}}        # no update_keys: the primary key of the resource
    order = [['sku'], ['sku', 'region']] if case['idx'] % 2 == 0 else [['sku', 'region'], ['sku']]
    cfg = {'one_config_dict_for_dumps_with_primary_keys': order, 'mode': 'update'}
    F = [{'name': 'sku', 'type': 'string'}, {'name': 'region', 'type': 'string'}, {'name': 'qty', 'type': 'integer'}]
    viol = []
    for di, pk in enumerate(order):
        dbfile = os.path.abspath('sc%d.db' % di)
        rows = [{'sku': 's%d' % (i % 2), 'region': 'r%d' % (i // 2), 'qty': rng.randint(1, 9)} for i in range(4)]
        if pk == ['sku']:
            rows = rows[:2]
        first = [dict(r, qty=0) for r in rows]
        for batch_rows in (first, rows):
            out = lab.run([lab.source('res', F, batch_rows), d.set_primary_key(list(pk)),
                           d.dump_to_sql(config, engine='sqlite:///' + dbfile)])
            if not out.ok:
                viol.append({'kind': 'dump_failed', 'mech': 'shared_config/dump_failed', 'config': cfg,
                             'msg': '%r: dump with primary key %r failed: %s' % (cfg, pk, out.errstr())})
                break
        else:
            tab = _table(dbfile, 'tbl')
            counters['tables_compared'] += 1
            got = sorted((r['sku'], r['region'], r['qty']) for r in (tab or []))
            want = sorted((r['sku'], r['region'], r['qty']) for r in rows)
            if got != want:
                viol.append({'kind': 'table_state', 'mech': 'shared_config/table_state', 'config': cfg,
                             'msg': '%r: after two update dumps keyed by %r the table holds %r, one row per key with the latest values is %r'
                             % (cfg, pk, got, want)})
    return dict(nontrivial=True, violations=viol, counters=counters,
                cov={'mode_seq': {'shared_config/%s' % '>'.join('+'.join(p_) for p_ in order): 1}, 'config': {'shared_config': 1}},
                sample={'config': cfg})


def run_caller_engine(case):
    import sqlalchemy
    d = lab.df()
    rng = boot.rng(case['seed'], 'C20', 'caller_engine', case['idx'])
    counters = {'tables_compared': 0, 'flags_compared': 0}
    where = rng.choice(['memory', 'memory', 'file'])
    eng = sqlalchemy.create_engine('sqlite://' if where == 'memory' else 'sqlite:///' + os.path.abspath('own.db'))
    modes = ['rewrite'] + [rng.choice(['append', 'update']) for _ in range(rng.randint(1, 3))]
    batch = rng.choice([1, 2, 1000])
    cfg = {'engine': 'caller-owned Engine object (%s)' % where, 'modes': modes, 'batch_size': batch}
    viol, model, nid = [], {}, 0
    F = [{'name': 'id', 'type': 'integer'}, {'name': 'v', 'type': 'string'}]
    try:
        for di, mode in enumerate(modes):
            rows = [{'id': nid + i, 'v': 'd%d' % di} for i in range(rng.choice([1, 3, 5]))]
            if mode == 'update' and model:
                rows.append({'id': min(model), 'v': 'upd%d' % di})
            nid += 10
            out = lab.run([lab.source('res', F, rows), d.set_primary_key(['id']),
                           d.dump_to_sql({'tbl': {'resource-name': 'res', 'mode': mode}}, engine=eng, batch_size=batch)])
            if not out.ok:
                viol.append({'kind': 'dump_failed', 'mech': 'caller_engine/dump_failed', 'config': cfg,
                             'msg': '%r: dump %d (%s) failed: %s' % (cfg, di, mode, out.errstr())})
                break
            if mode == 'rewrite':
                model = {}
            model.update({r['id']: r['v'] for r in rows})
            # read through the caller's engine, as the caller would
            try:
                with eng.connect() as con:
                    tab = sorted(tuple(r) for r in con.execute(sqlalchemy.text('select id, v from tbl')).fetchall())
            except Exception as e:
                tab = 'unreadable: %s' % str(e)[:120]
            counters['tables_compared'] += 1
            if tab != sorted(model.items()):
                viol.append({'kind': 'table_state', 'mech': 'caller_engine/table_state', 'config': cfg,
                             'msg': '%r: after dump %d (%s) the caller reads %r through its engine, the dumps so far amount to %r'
                             % (cfg, di, mode, tab if isinstance(tab, str) else tab[:6], sorted(model.items())[:6])})
                break
    finally:
        eng.dispose()
    return dict(nontrivial=True, violations=viol, counters=counters,
                cov={'mode_seq': {'caller_engine/' + '>'.join(modes): 1}, 'config': {'caller_engine/' + where: 1}},
                sample={'config': cfg})


def run_case(case):
    if case['family'] == 'retry_same_flow':
        return run_retry(case)
    if case['family'] == 'caller_engine':
        return run_caller_engine(case)
    if case['family'] == 'shared_config':
        return run_shared_config(case)
    if case['family'] == 'same_flow':
        return run_same_flow(case)
    if case['family'] == 'one_resource_two_tables':
        return run_two_tables(case)
    rng = boot.rng(case['seed'], 'C20', case['idx'])
    d = lab.df()
    counters = {'tables_compared': 0, 'flags_compared': 0}
    cov = {'mode_seq': {}, 'config': {}}
    viol = []
    fields = [('k1', 'integer'), ('k2', 'string'), ('name', 'string'), ('val', 'number'), ('flag', 'boolean')]
    if rng.random() < 0.5:
        fields.append(('day', 'date'))
    if rng.random() < 0.5:
        fields.append(('arr', 'array'))
    if rng.random() < 0.5:
        fields.append(('obj', 'object'))
    if boot.rng(case['seed'], 'C20', 'dur', case['idx']).random() < 0.3:
        # a type the SQL mapper has no column type for (stored as its Table Schema text form)
        fields.append(('dur', 'duration'))
    typ = dict(fields)
    r4 = boot.rng(case['seed'], 'C20', 'round4', case['idx'])
    constrained = r4.random() < 0.3        # field constraints that the rows satisfy (validated by the dumper anyway)
    keymode = rng.choice(['explicit_single', 'explicit_composite', 'pk_single', 'pk_composite', 'explicit_number'])
    keys = ['k1'] if 'single' in keymode else ['k1', 'k2']
    if keymode == 'explicit_number':
        # a number field as update key: equal numbers are one key however they are written (1.5, Decimal('2.0') / ('2.00'))
        fields.insert(0, ('kn', 'number'))
        typ = dict(fields)
        keys = ['kn']
        if boot.rng(case['seed'], 'C20', 'mixedkey', case['idx']).random() < 0.5:
            # ... also as one part of a composite key next to a string part
            keymode = 'explicit_string_and_number'
            keys = ['k2', 'kn']
    use_pk = keymode.startswith('pk')
    # Table Schema also allows primaryKey to be a single field name (a string)
    pk_as_string = keymode == 'pk_single' and rng.random() < 0.4
    if pk_as_string:
        cov['config']['primaryKey_given_as_string'] = 1
    batch = rng.choice([1, 2, 1000])
    bloom = rng.random() < 0.5
    flags = rng.random() < 0.7
    ndumps = rng.randint(1, 5)
    dbfile = os.path.abspath('t.db')
    engine = 'sqlite:///' + dbfile
    cfg = {'keys': keys, 'keymode': keymode, 'batch_size': batch, 'bloom': bloom, 'flags': flags,
           'fields': fields, 'dumps': [], 'primaryKey_as_string': pk_as_string, 'constraints': constrained}
    cov['config']['%s/batch%d/bloom%s' % (keymode, batch, bloom)] = 1
    model = []          # list of row dicts
    # a later step that stops reading each resource after two rows: the table still reflects the whole stream
    early = boot.rng(case['seed'], 'C20', 'early', case['idx']).random() < 0.15
    two_tables = rng.random() < 0.4      # a second resource dumped to its own table by the same step + a bystander
    model2 = []
    cfg['two_tables'] = two_tables
    cfg['later_step_stops_reading_early'] = early
    if early:
        cov['config']['later_step_stops_reading_early'] = 1
    nontrivial = False
    modes = []
    # the resource declares its own missingValues (['NA']): an empty string is a value then, and the table holds it
    own_missing = boot.rng(case['seed'], 'C20', 'ownmissing', case['idx']).random() < 0.2
    cfg['schema_missingValues'] = ['NA'] if own_missing else None
    if own_missing:
        cov['config']['schema_declares_its_own_missingValues'] = 1

    def keyof(r):
        return tuple(r[k] for k in keys)

    def add(kind, msg, mech):
        viol.append({'kind': kind, 'mech': mech, 'msg': '%r: %s' % (cfg, msg), 'config': cfg})
    # 'prebuilt': every dump_to_sql step of the history is CONSTRUCTED before the first one runs (flows defined up front,
    # run later): what a step learned about the database when it was built may be stale when it runs
    prebuilt = rng.random() < 0.3
    cfg['steps_built_up_front'] = prebuilt
    saved_rng = rng.getstate()
    built = {}
    for phase in (['plan', 'run'] if prebuilt else ['run']):
      rng.setstate(saved_rng)
      omr = boot.rng(case['seed'], 'C20', 'ownmissing/cells', case['idx'])
      model, model2, modes = [], [], []
      cfg['dumps'] = []
      for di in range(ndumps):
        mode = rng.choice(['rewrite', 'append', 'update', 'update'])
        nrows = rng.choice([0, 1, 3, 8, 30])
        existing = [keyof(r) for r in model]
        rows = []
        used = set(existing) if (mode == 'append' and use_pk) else set()
        for i in range(nrows):
            for _ in range(20):
                r = {'k1': rng.randint(0, 12), 'k2': rng.choice(['a', 'b', 'é'])}
                if 'kn' in typ:
                    r['kn'] = rng.choice([decimal.Decimal('1.5'), decimal.Decimal('2'), decimal.Decimal('2.0'),
                                          decimal.Decimal('2.00'), decimal.Decimal('-0.25'), 3, 7.5])
                if mode == 'update' and existing and rng.random() < 0.4:
                    kk = rng.choice(existing)
                    r.update(dict(zip(keys, kk)))
                dup_ok = (mode == 'update') or not use_pk
                if keyof(r) in used and not dup_ok:
                    continue
                if mode == 'rewrite' and use_pk and keyof(r) in {keyof(x) for x in rows}:
                    continue
                if mode == 'append' and use_pk and keyof(r) in {keyof(x) for x in rows}:
                    continue
                break
            else:
                continue
            used.add(keyof(r))
            r.update({'name': rng.choice(['n%d-%d' % (di, i), 'żółć', None]) if not (own_missing and
                                                                                        omr.random() < 0.3) else '',
                      'val': rng.choice([1.5, -2.25, 0.0, None, 100.0]),
                      'flag': rng.choice([True, False, None])})
            if 'day' in typ:
                r['day'] = rng.choice([datetime.date(2020, 1, 31), datetime.date(1999, 12, 1), None])
            if 'arr' in typ:
                r['arr'] = rng.choice([[1, 2], ['a', {'b': None}], [], None, [datetime.date(2020, 1, 31), decimal.Decimal('12.5')]])
            if 'obj' in typ:
                r['obj'] = rng.choice([{'a': 1}, {'ż': [1, 2]}, {}, None,
                                       {'when': datetime.date(1999, 12, 1), 'amounts': [decimal.Decimal('0.5')]}])
            if 'dur' in typ:
                r['dur'] = rng.choice([datetime.timedelta(days=1, hours=2), datetime.timedelta(seconds=90), None])
            rows.append(r)
        modes.append(mode)
        cfg['dumps'].append({'mode': mode, 'rows': len(rows)})
        if phase == 'run' and di > 0 and not prebuilt and boot.rng(case['seed'], 'C20', 'dbgone', case['idx'], di).random() < 0.08:
            # the database file is gone when this dump starts (moved away / a fresh deployment): the same URL names a new,
            # empty database
            if os.path.exists(dbfile):
                os.remove(dbfile)
            model, model2 = [], []
            cfg['dumps'][-1]['database_file_removed_before'] = True
            cov['config']['database_file_removed_between_dumps'] = 1
        # ---- model ---------------------------------------------------------------------------
        exp_flags = []
        if mode == 'rewrite':
            if model:
                nontrivial = nontrivial or di > 0
            model = [dict(r) for r in rows]
            exp_flags = [False] * len(rows)
        elif mode == 'append':
            model.extend(dict(r) for r in rows)
            exp_flags = [False] * len(rows)
        else:
            for r in rows:
                hit = [i for i, m in enumerate(model) if keyof(m) == keyof(r)]
                if hit:
                    for i in hit:
                        model[i] = dict(r)
                    exp_flags.append(True)
                    if di > 0:
                        nontrivial = True
                else:
                    model.append(dict(r))
                    exp_flags.append(False)
        # ---- real dump ------------------------------------------------------------------------
        table = {'resource-name': 'res', 'mode': mode}
        if mode == 'update' and not use_pk:
            table['update_keys'] = list(keys)
        elif mode != 'update' and not use_pk and rng.random() < 0.5:
            # documented as "only applicable for the update mode": a config that still carries it must behave the same
            table['update_keys'] = list(keys)
            cov['config']['update_keys_given_in_%s_mode' % mode] = 1
        kw = {'batch_size': batch, 'use_bloom_filter': bloom}
        if flags:
            kw.update(updated_column='_upd', updated_id_column='_upd_id')
        sfields_ = gen.schema_fields(fields)
        if constrained:
            for f_ in sfields_:
                if f_['name'] == 'k2':
                    f_['constraints'] = {'enum': ['a', 'b', 'é']}
                elif f_['name'] == 'day':
                    f_['constraints'] = {'maximum': '2030-12-31'}
                elif f_['name'] == 'arr':
                    f_['constraints'] = {'maxLength': 3}
                elif f_['name'] == 'val':
                    f_['constraints'] = {'minimum': -1000}
            cov['config']['field_constraints_satisfied_by_the_rows'] = 1
        steps = [lab.source('res', sfields_, rows)]
        if own_missing:
            steps.append(d.update_schema('res', missingValues=['NA']))
        if use_pk:
            steps.append(d.set_primary_key(list(keys)))
            if pk_as_string:
                steps.append(d.update_schema('res', primaryKey=keys[0]))
        tables_cfg = {'tbl': table}
        rows2 = bystander = None
        if two_tables:
            rows2 = [{'k1': rng.randint(0, 5), 'name': 'o%d-%d' % (di, i), 'arr': rng.choice([[1, 'x'], [], None]),
                      'obj': rng.choice([{'a': [1]}, {}, None])} for i in range(rng.choice([0, 2, 5]))]
            bystander = [{'k1': i, 'name': 'by%d' % i, 'arr': [i], 'obj': {'i': i}} for i in range(3)]
            f2 = gen.schema_fields([('k1', 'integer'), ('name', 'string'), ('arr', 'array'), ('obj', 'object')])
            steps += [lab.source('other', f2, rows2), lab.source('bystander', f2, bystander)]
            tables_cfg['tbl2'] = {'resource-name': 'other', 'mode': 'append'}
            model2.extend(dict(r) for r in rows2)
        try:
            if phase == 'run' and prebuilt:
                step = built[di]
            else:
                with boot.quiet():
                    step = d.dump_to_sql(tables_cfg, engine=engine, **kw)
        except Exception as e:
            add('dump_construct', 'dump %d: %s' % (di, e), 'construct')
            break
        if phase == 'plan':
            built[di] = step
            continue
        after_ = []
        if early:
            import itertools

            def first_two(rows):
                return itertools.islice(rows, 2)
            after_ = [first_two]
        out = lab.run(steps + [step] + after_, validate=False)
        if early and out.ok:
            # downstream verdicts apply to the rows that were asked for
            rows_all, rows = rows, rows[:2]
            exp_flags = exp_flags[:2]
            if two_tables:
                rows2, bystander = rows2[:2], bystander[:2]
        # engine cleanup (file handles) - not always: a caller does not dispose of anything either
        if boot.rng(case['seed'], 'C20', 'dispose', case['idx']).random() < 0.6:
            try:
                step.engine.dispose()
            except Exception:
                pass
        if not out.ok:
            add('dump_failed', 'dump %d (%s, %d rows) failed: %s' % (di, mode, len(rows), out.errstr()),
                'dump_failed/%s' % mode)
            break
        # downstream rows: every key they carry is a declared field (the flags included)
        declared_ = [f_['name'] for f_ in out.dp['resources'][0]['schema']['fields']]
        extra_ = sorted({k_ for r_ in out.results[0] for k_ in r_} - set(declared_))
        if extra_:
            add('undeclared_downstream_keys', 'dump %d: rows leave the step with keys %r that the emitted schema does not '
                'declare' % (di, extra_), 'undeclared_downstream_keys')
        drows = out.results[0]
        if len(drows) != len(rows):
            add('downstream_count', 'dump %d: %d rows downstream, %d entered' % (di, len(drows), len(rows)),
                'downstream_count/%s' % mode)
        else:
            for i, (a, b) in enumerate(zip(rows, drows)):
                bb = {k: v for k, v in b.items() if k not in ('_upd', '_upd_id')}
                # rows continue downstream UNCHANGED (same values, same Python types: a list stays a list)
                same = set(a) == set(bb) and all(lab.value_eq(a[k], bb[k]) for k in a)
                if not same:
                    add('downstream_row', 'dump %d row %d downstream %r, entered %r' % (di, i, bb, a),
                        'downstream_row/%s' % mode)
                    break
                if flags:
                    counters['flags_compared'] += 1
                    if '_upd' not in b or bool(b['_upd']) != exp_flags[i]:
                        add('updated_flag', 'dump %d (%s) row %d key %r: updated flag %r, model says existed=%s'
                            % (di, mode, i, keyof(a), b.get('_upd'), exp_flags[i]),
                            'updated_flag/%s%s' % (mode, '/dup_in_dump' if [keyof(x) for x in rows[:i]].count(keyof(a)) else ''))
                        break
        if two_tables:
            def k2(r):
                return (r['k1'], r['name'], norm_db(r.get('arr'), 'array'), norm_db(r.get('obj'), 'object'))
            if len(out.results) != 3 or lab.rows_diff(bystander, out.results[2]) or \
                    lab.rows_diff(rows2, [{k_: v_ for k_, v_ in r_.items() if k_ not in ('_upd', '_upd_id')}
                                          for r_ in out.results[1]]):
                add('downstream_other', 'dump %d: rows of the other resources changed downstream' % di, 'downstream_other')
            con2 = sqlite3.connect(dbfile)
            try:
                got2 = sorted(((a, b, norm_db(c, 'array'), norm_db(e, 'object')) for a, b, c, e in
                               con2.execute('SELECT k1, name, arr, obj FROM tbl2').fetchall()), key=repr)
                names = [r[0] for r in con2.execute("SELECT name FROM sqlite_master WHERE type='table'").fetchall()]
            finally:
                con2.close()
            if got2 != sorted((k2(r) for r in model2), key=repr):
                add('second_table', 'dump %d: second table holds %d rows, model %d' % (di, len(got2), len(model2)),
                    'second_table')
            if 'bystander' in names or len([n for n in names if n.startswith('tbl')]) != 2:
                add('unexpected_tables', 'dump %d: tables in the database: %r' % (di, names), 'unexpected_tables')
        # table state
        con = sqlite3.connect(dbfile)
        try:
            cur = con.execute('SELECT * FROM tbl')
            cols = [c[0] for c in cur.description]
            got = [dict(zip(cols, r)) for r in cur.fetchall()]
        except Exception as e:
            add('select_failed', 'dump %d: SELECT failed: %s' % (di, e), 'select_failed')
            break
        finally:
            con.close()
        if early and out.ok:
            rows = rows_all
        counters['tables_compared'] += 1
        if sorted(cols) != sorted(typ):
            add('columns', 'dump %d: table columns %r expected %r' % (di, cols, sorted(typ)), 'columns')
            break
        g = collections.Counter(tuple((k, norm_db(r[k], typ[k])) for k in sorted(typ)) for r in got)
        m = collections.Counter(tuple((k, norm_model(r[k], typ[k])) for k in sorted(typ)) for r in model)
        if g != m:
            extra = list((g - m).elements())[:2]
            missing = list((m - g).elements())[:2]
            dupk = len({keyof(x) for x in rows}) != len(rows)
            add('table_state', 'after dump %d (%s): table has %d rows, model %d; unexpected %r; missing %r'
                % (di, mode, len(got), len(model), extra, missing),
                'table_state/%s%s' % (mode, '/dup_in_dump' if dupk else ''))
            break
    cov['mode_seq']['>'.join(modes)[:40]] = 1
    return dict(nontrivial=nontrivial and len(modes) >= 2, violations=viol, cov=cov, counters=counters,
                sample={'config': cfg})
