"""
C18 - parallelize must deliver every row exactly once AND THEN TERMINATE, under every schedule.

A flow whose upstream step and whose row function both write to the program's log file
(logging.basicConfig(filename=...)) never terminates: all worker processes block for ever in
their first log call, and the flow waits for ever for their rows.

Reason: parallelize starts its producer thread (which runs all upstream steps) BEFORE it forks the
worker processes.  The workers are therefore forked from a multi-threaded process; whatever lock the
producer thread holds at the instant of the fork (here: the buffer lock of the log file object) is
copied in the locked state into the child, where no thread will ever release it.  Because the main
thread keeps the GIL while it forks, the producer thread is practically always parked inside such a
blocking call at that instant, so this is not a rare race: it happens on (almost) every run.
"""
import os
import shutil
import signal
import subprocess
import sys
import tempfile
import time

N = 2000
TIME_BOUND = 20   # seconds; the flow itself needs well under one second


def flow_program(with_parallelize):
    import logging
    from dataflows import Flow, parallelize

    logging.basicConfig(level=logging.INFO, filename='flow.log', format='%(process)d %(message)s')
    log = logging.getLogger('flow')

    def audit(rows):                       # an upstream step that logs what it reads
        for row in rows:
            log.info('read row %s', row['a'])
            yield row

    def double(row):                       # the row function logs, too
        log.info('doubling row %s', row['a'])
        row['b'] = row['a'] * 2

    source = ({'a': i, 'b': None} for i in range(N))
    step = parallelize(double, num_processors=2) if with_parallelize else double
    rows = Flow(source, audit, step).results()[0][0]
    ok = sorted((r['a'], r['b']) for r in rows) == [(i, 2 * i) for i in range(N)]
    print('rows=%d all-correct=%s' % (len(rows), ok))


def run(with_parallelize):
    workdir = tempfile.mkdtemp(prefix='c18-demo-')
    out = open(os.path.join(workdir, 'out.txt'), 'w+')
    proc = subprocess.Popen([sys.executable, os.path.abspath(__file__), 'flow', str(int(with_parallelize))],
                            cwd=workdir, stdout=out, stderr=subprocess.STDOUT, stdin=subprocess.DEVNULL,
                            start_new_session=True)
    start = time.time()
    try:
        proc.wait(timeout=TIME_BOUND)
        verdict = 'terminated after %.1f s' % (time.time() - start)
        hung = False
    except subprocess.TimeoutExpired:
        verdict = 'STILL RUNNING after %d s (killed)' % TIME_BOUND
        hung = True
    try:
        os.killpg(proc.pid, signal.SIGKILL)      # the flow and its (blocked) workers: our own process group only
    except ProcessLookupError:
        pass
    proc.wait()
    out.seek(0)
    text = out.read().strip()
    out.close()
    logged = {}
    try:
        for line in open(os.path.join(workdir, 'flow.log')):
            pid = line.split(' ', 1)[0]
            logged[pid] = logged.get(pid, 0) + 1
    except IOError:
        pass
    shutil.rmtree(workdir, ignore_errors=True)
    return hung, verdict, text, logged


if __name__ == '__main__':
    if len(sys.argv) > 1 and sys.argv[1] == 'flow':
        flow_program(bool(int(sys.argv[2])))
        sys.exit(0)

    print('expected: Flow(source, audit, parallelize(double, 2)) delivers %d rows and terminates' % N)
    hung, verdict, text, logged = run(with_parallelize=False)
    print('control  (row function as a plain sequential step): %s; %s' % (verdict, text))
    violated = False
    for attempt in range(2):
        hung, verdict, text, logged = run(with_parallelize=True)
        print('observed (parallelize, attempt %d): %s; output: %r; log lines per process: %r'
              % (attempt + 1, verdict, text, logged))
        if hung or 'all-correct=True' not in text:
            violated = True
            break
    if violated:
        print('VIOLATION: parallelize did not terminate (workers forked while the producer thread held a lock)')
        sys.exit(1)
    print('no violation observed')
    sys.exit(0)
