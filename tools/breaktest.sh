#!/bin/bash
# breaktest.sh <name> <check ids comma> <sed-script-or-patchfile> [file]  : run checks against a scratch worktree carrying one change
# usage A: breaktest.sh NAME C17 path/to/patch.diff
# usage B: breaktest.sh NAME C17 -e 's/x/y/' dataflows/processors/deduplicate.py
set -u
name=$1; checks=$2; shift 2
wt=/tmp/bt-$name-$$
git -C /repo worktree add -q --detach $wt HEAD || exit 3
trap 'git -C /repo worktree remove --force '$wt' 2>/dev/null; rm -rf '$wt'' EXIT
if [ "$1" = "-e" ]; then
  sed -i -E "$2" $wt/$3 || exit 3
else
  git -C $wt apply "$1" || exit 3
fi
git -C $wt diff --stat | tail -1
if git -C $wt diff --quiet; then echo "NO CHANGE APPLIED"; exit 3; fi
for c in ${checks//,/ }; do
  VERIF_REPO=$wt /venv/bin/python /verif/vcheck $c --tier ${TIER:-quick} > /tmp/bt-$name-$c.log 2>&1
  rc=$?
  echo "== $name $c exit=$rc: $(grep -c '^VIOLATION' /tmp/bt-$name-$c.log) violation lines; $(grep -m1 'kind=' /tmp/bt-$name-$c.log | cut -c1-220)"
done
# restore evidence written by the mutated run (evidence must come from /repo itself)
git -C /verif checkout -- evidence 2>/dev/null
