"""C02: a Flow (without load) that contains add_computed_field emits rows that disagree with
its descriptor when the very same Flow object (or the same field-spec list) is used a second time."""
import sys
from dataflows import Flow, add_computed_field

DATA = [{'a': 1, 'b': 2}, {'a': 3, 'b': 4}]


def run(flow, label):
    """ONE run of the flow; validation errors are recorded instead of raised."""
    errors = []

    def on_error(res_name, row, i, e):
        errors.append('row %d: %s' % (i, '; '.join(str(x) for x in getattr(e, 'errors', [])) or e))
        return True

    rows, dp, _ = flow.results(on_error=on_error)
    fields = [(f['name'], f.get('type')) for f in dp.descriptor['resources'][0]['schema']['fields']]
    ok = ('c', 'integer') in fields and all(isinstance(r['c'], int) for r in rows[0]) and not errors
    print('observed %s:\n    fields=%r\n    rows=%r\n    validation errors=%r' % (label, fields, rows[0], errors))
    return ok


print('expected: every run declares c as integer (sum of two integer fields), the rows carry c=3 / c=7 '
      'and validate against the emitted descriptor')

flow = Flow(DATA, add_computed_field(target='c', operation='sum', source=['a', 'b']))
oks = [run(flow, 'run 1'), run(flow, 'run 2 (same Flow object)')]

# same effect without re-running a Flow: one list of field specs used by two flows
spec = [dict(target='c', operation='sum', source=['a', 'b'])]
oks.append(run(Flow(DATA, add_computed_field(spec)), 'flow A (spec list shared with flow B)'))
oks.append(run(Flow(DATA, add_computed_field(spec)), 'flow B (spec list shared with flow A)'))

if all(oks):
    print('OK: property holds')
    sys.exit(0)
print('VIOLATION: on the second use the new field is declared without a type (= a string field) '
      'while the rows still carry integers, so the rows fail validation against their own descriptor')
sys.exit(1)
