"""C02: join(... aggregate='avg') over a duration field declares 'number' but emits timedelta values."""
import datetime
import os
import shutil
import sys
import tempfile

from dataflows import Flow, load, validate, join

tmp = tempfile.mkdtemp(prefix='c02_2_', dir='.')
try:
    laps = os.path.join(tmp, 'laps.csv')
    with open(laps, 'w') as f:
        f.write('runner,lap\nann,PT1H\nann,PT3H\nbob,PT2H\n')

    def flow(aggregate):
        return Flow(
            load(laps),                      # 'lap' is inferred as a Table Schema duration
            validate(),                      # ... and cast: the cells are datetime.timedelta objects
            [{'runner': 'ann'}, {'runner': 'bob'}],
            join('laps', ['runner'], 'res_2', ['runner'],
                 {'lap': {'name': 'lap', 'aggregate': aggregate}}),
        )

    # control: the other aggregations of the same column agree with their descriptor
    for aggregate in ('sum', 'max', 'median'):
        results, dp, _ = flow(aggregate).results()
        field = [f for f in dp.descriptor['resources'][0]['schema']['fields'] if f['name'] == 'lap'][0]
        print('%-6s -> declared %-8s values %r' % (aggregate, field['type'], [r['lap'] for r in results[0]]))
        assert field['type'] == 'duration'

    # what is emitted for 'avg' (no final validation, to be able to look at it)
    results, dp, _ = flow('avg').results(on_error=None)
    field = [f for f in dp.descriptor['resources'][0]['schema']['fields'] if f['name'] == 'lap'][0]
    values = [r['lap'] for r in results[0]]
    print('%-6s -> declared %-8s values %r' % ('avg', field['type'], values))

    failure = None
    try:
        flow('avg').results()
    except Exception as e:
        failure = e

    print('EXPECTED: every emitted value is valid for the declared field type, results() passes validation '
          '(the average of durations is a duration)')
    mismatch = field['type'] == 'number' and any(isinstance(v, datetime.timedelta) for v in values)
    if mismatch or failure is not None:
        print('OBSERVED: field declared %r holds %r; results() -> %s'
              % (field['type'], values, 'ok' if failure is None else 'FAILS: ' + ' '.join(str(failure).split())[:160]))
        sys.exit(1)
    print('OBSERVED: rows and schema agree')
    sys.exit(0)
finally:
    shutil.rmtree(tmp, ignore_errors=True)
