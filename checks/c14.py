"""C14 set_type and validate cast valid values and apply the error policy exactly.

Oracle: every incoming cell is cast by the harness with a fresh tableschema Field built from the
descriptor the step declares (type/format/constraints/missingValues) -> per cell {value | CastError};
the expected output, handler call log or raised error is derived from that map and the policy.
"""
import copy
import decimal

import tableschema
from tableschema.exceptions import CastError

from vlib import boot, gen, lab, refmodel

PROPERTY = 'C14'
LEVEL = 'exploration'
RULE = ('seeded generation: lexical tables (1..2 resources, 0..40 rows, 2..4 checked fields + untouched '
        'fields) with valid/invalid cells at first/middle/last rows and in several fields of one row x '
        'target type/format/constraints x policy {default, raise, drop, ignore, clear, custom 4-arg, '
        'custom 5-arg} x field-name regex on/off (literal, alternation, wildcard) x transform x resources '
        'selector x step form {set_type, validate(), validate(fn), validate(field, fn)}; distinct = case '
        'hash; non-trivial = >=1 valid and >=1 invalid checked cell')
ASSUMPTIONS = [
    'Table Schema cast = tableschema.Schema(<declared schema>).fields[i].cast_value (third-party reference)',
    'ignore policy: other valid cells of the same row may be cast or left unchanged (both accepted)',
    'custom handlers: the row is kept iff every handler call for that row returned True',
]
REQUIRED_COUNTERS = ['cells_checked', 'bad_cells_expected']

TYPES = {
    'integer': ({'type': 'integer'}, ['1', '-5', '007', ' 4', '0', 'x', '1.5', '', 'NaN', '1e3']),
    'number_comma': ({'type': 'number', 'decimalChar': ','}, ['1,5', '3', '-0,25', 'x', '1,2,3', '', '1e3']),
    # a field of type any: nothing to reject, but the schema's missing-value markers still stand for null
    'any_plain': ({'type': 'any'}, ['x', 'n/a', '', '5', 'abc', 'n/a']),
    # options whose value is falsy are options all the same
    'number_not_bare': ({'type': 'number', 'bareNumber': False}, ['$1.5', '3 kg', '1.5', 'x', '', '-2 EUR']),
    'integer_not_bare': ({'type': 'integer', 'bareNumber': False}, ['12 %', 'EUR 7', '5', 'x', '']),
    'boolean_no_false_values': ({'type': 'boolean', 'trueValues': ['yes'], 'falseValues': []}, ['yes', 'no', 'false', 'true', '']),
    'boolean_tv': ({'type': 'boolean', 'trueValues': ['yes', 'Y'], 'falseValues': ['no']},
                   ['yes', 'Y', 'no', 'true', 'false', '1', '']),
    'date_fmt': ({'type': 'date', 'format': '%d/%m/%Y'}, ['31/12/2020', '01/02/1999', '2020-12-31', '32/01/2020', '']),
    'datetime': ({'type': 'datetime'}, ['2020-01-01T10:00:00Z', '1999-12-31T23:59:59Z', '2020-01-01', 'x', '']),
    'year': ({'type': 'year'}, ['2020', '1999', '20', 'x', '']),
    'array': ({'type': 'array'}, ['[1,2]', '[]', '["a"]', '{"a":1}', 'x', '']),
    'object': ({'type': 'object'}, ['{"a":1}', '{}', '[1]', 'x', '']),
    'string_enum': ({'type': 'string', 'constraints': {'enum': ['a', 'b', 'c']}}, ['a', 'b', 'c', 'd', 'A', '']),
    'string_pattern': ({'type': 'string', 'constraints': {'pattern': '[a-z]{2,3}'}}, ['ab', 'abc', 'abcd', 'A1', '']),
    'string_minlen': ({'type': 'string', 'constraints': {'minLength': 2}}, ['ab', 'abc', 'a', 'xyz']),
    'integer_required': ({'type': 'integer', 'constraints': {'required': True}}, ['1', '2', '', 'x', '33']),
    'integer_max': ({'type': 'integer', 'constraints': {'maximum': 10}}, ['1', '10', '11', '-3', 'x']),
    # native (non-text) cells of mixed python types, several of them ==/hash-equal to one another
    'integer_native': ({'type': 'integer'}, [1, True, 1.0, 0, False, 2, '2', 2.5, None]),
    'boolean_native': ({'type': 'boolean'}, [True, 1, False, 0, 1.0, 'true', 'false', None]),
    'number_native': ({'type': 'number'}, [1, True, 1.5, 1.0, False, 0, '0', None]),
    'year_native': ({'type': 'year'}, [2020, 2020.0, True, '2020', 20, None]),
    # values on which Table Schema's caster fails with something else than CastError
    'integer_from_huge_decimal': ({'type': 'integer'}, [1, 2, decimal.Decimal('Infinity'), decimal.Decimal('1E+400'), 3, None]),
    'duration_minimum': ({'type': 'duration', 'constraints': {'minimum': 'P1D'}}, ['P2D', 'P1Y', 'P10D', 'PT1H', '']),
    # set_type given NOTHING but constraints (the field keeps its type): the values are policed all the same
    'constraints_only_enum': ({'constraints': {'enum': ['a', 'b', 'c']}}, ['a', 'b', 'c', 'd', 'A', 'cc']),
    'constraints_only_maxlen': ({'constraints': {'maxLength': 2}}, ['ab', 'a', 'abc', 'xyzw', '']),
}
POLICIES = ['default', 'raise', 'drop', 'ignore', 'clear', 'custom4', 'custom5']
FORMS = ['set_type', 'set_type', 'set_type', 'validate_schema', 'validate_fn', 'validate_field_fn']


def gen_cases(tier, seed):
    n = {'quick': 1800, 'thorough': 40000}[tier]
    for i in range(n):
        yield {'family': FORMS[i % len(FORMS)], 'idx': i, 'seed': seed}
    for i in range({'quick': 16, 'thorough': 200}[tier]):
        yield {'family': 'two_positions', 'idx': 10 ** 6 + i, 'seed': seed}
    for i in range(2):
        yield {'family': 'optimized', 'idx': 2 * 10 ** 6 + i, 'seed': seed}
    # ONE step object used for two packages in which the selected position holds another resource
    for i in range(4):
        yield {'family': 'step_object_other_package', 'idx': 3 * 10 ** 6 + i, 'seed': seed}


def is_small(v):
    return v is not None and len(v) <= 2


def row_ok(row):
    return row['u1'] is not None and not row['u1'].startswith('q')


OPTIMIZED_SCRIPT = r'''
import json, sys
import dataflows as d
from dataflows.base.schema_validator import drop, clear, ignore
assert sys.flags.optimize >= 1
rows = [{'id': 0, 'v': '10'}, {'id': 1, 'v': 'x'}, {'id': 2, 'v': None}, {'id': 3, 'v': '-3'}]
out = {}
for name, kw in (('drop', {'on_error': drop}), ('clear', {'on_error': clear}), ('ignore', {'on_error': ignore}), ('default', {})):
    for step_name in ('set_type', 'validate'):
        try:
            if step_name == 'set_type':
                steps = [[dict(r) for r in rows], d.set_type('v', type='integer', **kw)]
            else:
                steps = [[dict(r) for r in rows], d.update_schema(-1, fields=[{'name': 'id', 'type': 'integer'}, {'name': 'v', 'type': 'integer'}]),
                         d.validate(**kw)]
            res, dp, _ = d.Flow(*steps).results(on_error=None)
            out[step_name + '/' + name] = {'rows': res[0], 'type': [f['type'] for f in dp.descriptor['resources'][0]['schema']['fields']]}
        except Exception as e:
            out[step_name + '/' + name] = 'RAISED ' + type(getattr(e, 'cause', e)).__name__
print('RESULT ' + json.dumps(out))
'''


def run_optimized(case):
    """The same policies with assertions disabled (python -O / PYTHONOPTIMIZE)."""
    import json
    import os
    import subprocess
    counters = {'cells_checked': 0, 'bad_cells_expected': 0, 'handler_calls': 1}
    viol = []
    how = ['-O', 'PYTHONOPTIMIZE'][case['idx'] % 2]
    env = dict(os.environ, PYTHONPATH=boot.REPO)
    args = [boot.PY, '-W', 'ignore']
    if how == '-O':
        args.append('-O')
        env.pop('PYTHONOPTIMIZE', None)
    else:
        env['PYTHONOPTIMIZE'] = '1'
    try:
        p = subprocess.run(args + ['-c', OPTIMIZED_SCRIPT], capture_output=True, text=True, timeout=150, env=env, cwd=os.getcwd())
    except subprocess.TimeoutExpired:
        return dict(nontrivial=False, violations=[], counters=counters, cov={'type_x_policy': {}, 'bad_position': {}, 'form': {}},
                    inconclusive='optimized run timed out')
    line = next((ln for ln in p.stdout.splitlines() if ln.startswith('RESULT ')), None)
    if line is None:
        return dict(nontrivial=False, violations=[], counters=counters, cov={'type_x_policy': {}, 'bad_position': {}, 'form': {}},
                    inconclusive='optimized run gave no result: %s' % p.stderr[-300:])
    out = json.loads(line[7:])
    want = {'drop': [{'id': 0, 'v': 10}, {'id': 2, 'v': None}, {'id': 3, 'v': -3}],
            'clear': [{'id': 0, 'v': 10}, {'id': 1, 'v': None}, {'id': 2, 'v': None}, {'id': 3, 'v': -3}],
            'ignore': [{'id': 0, 'v': 10}, {'id': 1, 'v': 'x'}, {'id': 2, 'v': None}, {'id': 3, 'v': -3}]}
    cov = {}
    for key, got in sorted(out.items()):
        step_name, policy = key.split('/')
        counters['cells_checked'] += 4
        counters['bad_cells_expected'] += 1
        cov['integer/%s/python_%s' % (policy, how)] = 1
        if policy == 'default':
            ok = got == 'RAISED ValidationError'
        else:
            ok = isinstance(got, dict) and got['rows'] == want[policy] and got['type'] == ['integer', 'integer']
        if not ok:
            viol.append({'kind': 'optimized_mode', 'mech': 'optimized/%s/%s' % (step_name, policy), 'config': {'how': how},
                         'msg': 'with assertions disabled (%s) %s with policy %s gives %r' % (how, step_name, policy, got)})
    return dict(nontrivial=True, violations=viol, counters=counters,
                cov={'type_x_policy': cov, 'bad_position': {}, 'form': {'optimized/' + how: 1}}, sample={'python': how})


def run_two_positions(case):
    """ONE set_type / validate object at two positions of a flow (a further resource arrives in between): each position
    casts and polices the resource it stands for, exactly as two equal objects do."""
    rng = boot.rng(case['seed'], 'C14', 'two_positions', case['idx'])
    d = lab.df()
    sv = d.schema_validator
    policy = rng.choice(['drop', 'clear', 'ignore'])
    kind = rng.choice(['set_type_default', 'set_type_default', 'set_type_int', 'validate'])
    counters = {'cells_checked': 0, 'bad_cells_expected': 0, 'handler_calls': 0}
    cfg = {'form': 'two_positions', 'step': kind, 'policy': policy}

    def rows(base):
        out = []
        for i in range(rng.choice([2, 5, 12])):
            out.append({'id': base + i, 'v': rng.choice(['10', '7', 'x', None, '-3', 'y1'])})
        return out
    ta, tb = rows(0), rows(100)
    fstr = [{'name': 'id', 'type': 'integer'}, {'name': 'v', 'type': 'string'}]
    fint = [{'name': 'id', 'type': 'integer'}, {'name': 'v', 'type': 'integer'}]

    def mk():
        h = {'drop': sv.drop, 'clear': sv.clear, 'ignore': sv.ignore}[policy]
        if kind == 'set_type_default':
            return d.set_type('v', type='integer', on_error=h)
        if kind == 'set_type_int':
            return d.set_type('v', type='integer', on_error=h, resources=-1)
        return d.validate(on_error=h, resources=-1)

    def flow(shared):
        s1 = mk()
        s2 = s1 if shared else mk()
        fa = fstr if kind != 'validate' else fint
        return [lab.source('a', fa, ta), s1, lab.source('b', fa, tb), s2]

    def expect(t):
        out = []
        for r in t:
            v = r['v']
            ok = v is None or v.lstrip('-').isdigit()
            counters['cells_checked'] += 1
            if ok:
                out.append({'id': r['id'], 'v': None if v is None else int(v)})
            else:
                counters['bad_cells_expected'] += 1
                if policy == 'clear':
                    out.append({'id': r['id'], 'v': None})
                elif policy == 'ignore':
                    out.append({'id': r['id'], 'v': v})
        return out
    viol = []
    got = lab.run(flow(True))
    if not got.ok:
        viol.append({'kind': 'two_positions', 'mech': 'two_positions/failed', 'config': cfg,
                     'msg': '%r: one step object at two positions: the run failed: %s' % (cfg, got.errstr())})
    else:
        for name, t, res in zip('ab', (ta, tb), got.results):
            dd = lab.rows_diff(expect(t), res, 1)
            if dd:
                viol.append({'kind': 'two_positions', 'mech': 'two_positions/rows', 'config': cfg,
                             'msg': '%r: one step object at two positions: resource %s: %s' % (cfg, name, dd[0])})
                break
    counters['handler_calls'] = 1
    return dict(nontrivial=True, violations=viol, counters=counters,
                cov={'type_x_policy': {}, 'bad_position': {}, 'form': {'two_positions/%s/%s' % (kind, policy): 1}},
                sample={'config': cfg})


def run_other_package(case):
    d = lab.df()
    counters = {'cells_checked': 0, 'bad_cells_expected': 0, 'handler_calls': 0}
    selector = [-1, 0, 1, None][case['idx'] % 4]
    form = ['set_type', 'validate'][(case['idx'] // 2) % 2] if selector is not None else 'set_type'
    F = [{'name': 'id', 'type': 'integer'}, {'name': 'v', 'type': 'string'}]
    tabs = {'x': [{'id': i, 'v': 'bad' if i % 3 == 1 else str(i)} for i in range(6)],
            'y': [{'id': 10 + i, 'v': 'worse' if i % 2 == 0 else str(i)} for i in range(4)]}
    kw = {} if selector is None else {'resources': selector}
    step = d.set_type('v', type='integer', on_error=d.schema_validator.drop, **kw)
    cfg = {'family': 'step_object_other_package', 'selector': selector if selector is not None else 'default (-1)', 'policy': 'drop'}
    viol = []
    for order in (['x', 'y'], ['y', 'x']):
        out = lab.run([lab.source(n, F, tabs[n]) for n in order] + [step])
        if not out.ok:
            viol.append({'kind': 'unexpected_error', 'mech': 'step_object_other_package/failed', 'config': cfg,
                         'msg': '%r on resources %r: %s' % (cfg, order, out.errstr())})
            break
        sel = order[selector if selector is not None else -1]
        for n, rows in zip(order, out.results):
            counters['cells_checked'] += len(rows)
            if n == sel:
                want = [dict(r, v=int(r['v'])) for r in tabs[n] if r['v'].isdigit()]
                counters['bad_cells_expected'] += len(tabs[n]) - len(want)
            else:
                want = tabs[n]
            if rows != want:
                viol.append({'kind': 'rows', 'mech': 'step_object_other_package/rows', 'config': cfg,
                             'msg': '%r: the step object used on %r (after %r): resource %s came out as %r, the step selects %s there, '
                             'so %r' % (cfg, order, ['x', 'y'], n, rows[:3], sel, want[:3])})
                break
    return dict(nontrivial=True, violations=viol, counters=counters,
                cov={'type_x_policy': {'step_object_other_package/%s' % selector: 1}}, sample={'config': cfg})


def run_case(case):
    if case['family'] == 'step_object_other_package':
        return run_other_package(case)
    if case['family'] == 'two_positions':
        return run_two_positions(case)
    if case['family'] == 'optimized':
        return run_optimized(case)
    form = case['family']
    rng = boot.rng(case['seed'], 'C14', case['idx'])
    d = lab.df()
    sv = d.schema_validator
    counters = {'cells_checked': 0, 'bad_cells_expected': 0, 'handler_calls': 0}
    cov = {'type_x_policy': {}, 'bad_position': {}, 'form': {form: 1}}
    viol = []
    policy = rng.choice(POLICIES)
    # a third of the pools hold a name that is a proper prefix of its sibling: a string selects the names it FULLY matches
    pool = boot.rng(case['seed'], 'C14', 'respool', case['idx']).choice([['r1', 'r2'], ['r1', 'r2'], ['r1', 'r1x']])
    res_names = rng.sample(pool, rng.choice([1, 2]))
    target_res = rng.choice(res_names)
    selector = rng.choice([target_res, [target_res], res_names.index(target_res)])
    selected = [target_res]
    omit_resources = False
    if len(res_names) == 1:
        selector = rng.choice([selector, None, -1])
    elif rng.random() < 0.3:
        # the step works on BOTH resources (same field names): each must be handled on its own
        selector = rng.choice([None, list(res_names), 'r.' if 'r2' in pool else 'r1x?'])
        selected = list(res_names)
    elif form == 'set_type' and rng.random() < 0.15:
        # resources omitted: set_type documents "by default the last resource"
        omit_resources = True
        target_res = res_names[-1]
        selected = [target_res]
        selector = 'DEFAULT'
    # fields: id, untouched u1/u2, checked fields
    tkeys = rng.sample(sorted(TYPES), rng.randint(1, 3))
    fam_name = rng.choice(['plain', 'alt', 'wild', 'noregex'])
    if fam_name == 'alt':
        cnames = ['a', 'b', 'ab'][:len(tkeys)]          # pattern 'a|b' must not touch 'ab'
    elif fam_name == 'wild':
        cnames = ['v1', 'v2', 'w1'][:len(tkeys)]
    elif fam_name == 'noregex':
        cnames = ['a.b', 'axb', 'a+'][:len(tkeys)]
    else:
        cnames = ['c1', 'c2', 'c3'][:len(tkeys)]
    nrows = rng.choice([0, 1, 2, 3, 5, 12, 40])
    bad_p = rng.choice([0.0, 0.1, 0.3, 0.6])
    tables = {}
    for rn in res_names:
        rows = []
        for i in range(nrows):
            row = {'id': i, 'u1': rng.choice(['keep', 'q1', ' pad ', '', None]), 'u2': rng.choice(['7', 'x'])}
            for cn, tk in zip(cnames, tkeys):
                opts, pool = TYPES[tk]
                sch = tableschema.Schema({'fields': [dict(opts, name=cn)]})
                valid = [v for v in pool if _ok(sch.fields[0], v)]
                invalid = [v for v in pool if not _ok(sch.fields[0], v)]
                if invalid and rng.random() < bad_p:
                    row[cn] = rng.choice(invalid)
                else:
                    row[cn] = rng.choice(valid + [None]) if valid else None
            rows.append(row)
        tables[rn] = rows
    in_fields = [{'name': 'id', 'type': 'integer'}, {'name': 'u1', 'type': 'string'},
                 {'name': 'u2', 'type': 'string'}] + [{'name': cn, 'type': 'string'} for cn in cnames]
    # which fields does the step check, and with which declared descriptor?
    log = []

    calls_in_row = {}

    def decide(key):
        # the verdict differs from one offending field to the next within the same row
        k = calls_in_row[key] = calls_in_row.get(key, -1) + 1
        return (key[1] * 7 + k * 5) % 3 != 0

    def h4(res_name, row, i, e):
        log.append((res_name, row.get('id'), i, None, type(e).__name__ if e is not None else None))
        return decide((res_name, row.get('id', 0)))

    def h5(res_name, row, i, e, field):
        log.append((res_name, row.get('id'), i, getattr(field, 'name', None),
                    type(e).__name__ if e is not None else None))
        return decide((res_name, row.get('id', 0)))
    handler = {'default': None, 'raise': sv.raise_exception, 'drop': sv.drop, 'ignore': sv.ignore,
               'clear': sv.clear, 'custom4': h4, 'custom5': h5}[policy]
    if policy == 'custom4':
        # other shapes of a documented 4-argument handler: with a keyword-only parameter, **kwargs, a bound keyword
        shape_ = boot.rng(case['seed'], 'C14', 'hshape', case['idx']).choice(['plain', 'plain', 'kwonly', 'varkw', 'partial_kw'])
        cov.setdefault('handler_shape', {})[shape_] = 1
        if shape_ == 'kwonly':
            def handler(res_name, row, i, e, *, note=None):       # noqa: F811
                return h4(res_name, row, i, e)
        elif shape_ == 'varkw':
            def handler(res_name, row, i, e, **extra):            # noqa: F811
                return h4(res_name, row, i, e)
        elif shape_ == 'partial_kw':
            import functools

            def h4_tag(res_name, row, i, e, tag=None):
                return h4(res_name, row, i, e)
            handler = functools.partial(h4_tag, tag='t')
    if policy == 'custom5' and boot.rng(case['seed'], 'C14', 'h5shape', case['idx']).random() < 0.4:
        # a documented 5-argument handler whose last parameter is optional
        cov.setdefault('handler_shape', {})['five_with_default'] = 1

        def handler(res_name, row, i, e, field=None):           # noqa: F811
            return h5(res_name, row, i, e, field)
    transform = None
    tcalls = {}         # (field, row id) -> number of times the transform was applied to that cell in the judged run
    steps_pre = []
    checked = {}      # field name -> declared descriptor (for target_res)
    fn_mode = None
    if form == 'set_type':
        tk = tkeys[0]
        opts = copy.deepcopy(TYPES[tk][0])
        if fam_name == 'alt' and len(cnames) >= 2:
            pat, regex, hit = 'a|b', True, ['a', 'b']
            hit = [c for c in hit if c in cnames]
        elif fam_name == 'wild':
            pat, regex = 'v.', True
            hit = [c for c in cnames if c.startswith('v')]
        elif fam_name == 'noregex':
            pat, regex, hit = cnames[0], False, [cnames[0]]
        else:
            pat, regex, hit = cnames[0], True, [cnames[0]]
        # all hit fields get the same declared type: regenerate their cells from that type's pool
        for rn in res_names:
            for row in tables[rn]:
                for cn in hit:
                    pool = TYPES[tk][1]
                    row[cn] = rng.choice(pool + [None])
        use_transform = rng.random() < 0.25
        if use_transform:
            # cells carry a 'T:' prefix that only the transform removes (skipping it is observable)
            for rn in res_names:
                for row in tables[rn]:
                    for cn in hit:
                        if isinstance(row[cn], str):
                            row[cn] = 'T:' + row[cn]

            def transform(v, field_name=None, row=None):   # noqa: F811
                if row is not None:
                    tcalls[(field_name, row.get('id'))] = tcalls.get((field_name, row.get('id')), 0) + 1
                return v[2:] if isinstance(v, str) and v.startswith('T:') else v
        if omit_resources:
            step = d.set_type(pat, regex=regex, on_error=handler, transform=transform, **copy.deepcopy(opts))
        else:
            step = d.set_type(pat, resources=copy.deepcopy(selector), regex=regex, on_error=handler,
                              transform=transform, **copy.deepcopy(opts))
        for cn in hit:
            checked[cn] = dict({'name': cn, 'type': 'string'}, **opts)
        out_fields = [checked.get(f['name'], f) for f in in_fields]
        cfg = {'pattern': pat, 'regex': regex, 'options': opts, 'transform': use_transform}
        tlabel = tk
    elif form == 'validate_schema':
        out_fields = [dict({'type': 'string'}, **dict(TYPES[tk][0], name=cn)) for cn, tk in zip(cnames, tkeys)]
        out_fields = in_fields[:3] + out_fields
        for f in out_fields:
            checked[f['name']] = f
        in_fields = out_fields          # declared upstream, data still lexical
        step = d.validate(resources=copy.deepcopy(selector), on_error=handler)
        cfg = {'declared': out_fields}
        tlabel = '+'.join(tkeys)
    else:
        out_fields = in_fields
        if form == 'validate_fn':
            step = d.validate(row_ok, resources=copy.deepcopy(selector), on_error=handler)
            fn_mode = lambda row: row_ok(row)          # noqa: E731
        else:
            step = d.validate('u1', is_small, resources=copy.deepcopy(selector), on_error=handler)
            fn_mode = lambda row: is_small(row.get('u1'))   # noqa: E731
        cfg = {'fn': form}
        tlabel = 'fn'
    cfg.update({'policy': policy, 'selector': selector, 'form': form})
    cov['type_x_policy']['%s/%s' % (tlabel, policy)] = 1

    # ---------------- oracle -------------------------------------------------------------------
    # the schema declares markers of its own for missing values ('n/a'): such a cell is null - it conforms to any type
    own_missing = form in ('set_type', 'validate_schema') and \
        boot.rng(case['seed'], 'C14', 'missing', case['idx']).random() < (0.6 if 'any_plain' in tkeys else 0.15)
    if own_missing:
        steps_pre.append(d.update_schema(None, missingValues=['', 'n/a']))
        for rn in res_names:
            for i_, row in enumerate(tables[rn]):
                if i_ % 3 == 1:
                    for n_ in checked:
                        if isinstance(row.get(n_), str):
                            row[n_] = 'n/a' if transform is None else 'T:n/a'
        cfg['schema_missingValues'] = ['', 'n/a']
        cov.setdefault('config', {})['schema_declares_own_missing_value_markers'] = 1
    sch = tableschema.Schema(dict({'fields': copy.deepcopy(out_fields)}, **({'missingValues': ['', 'n/a']} if own_missing else {})))
    fobj = {f.name: f for f in sch.fields}
    exp_by_res, rows_in_by_res = {}, {}
    exp_log, first_bad = [], None
    nvalid = ninvalid = 0
    for target_res in [rn for rn in res_names if rn in selected]:
      rows_in = rows_in_by_res[target_res] = copy.deepcopy(tables[target_res])
      exp_rows = exp_by_res[target_res] = []
      for i, row in enumerate(rows_in):
          new = dict(row)
          bad = []
          if fn_mode is not None:
              if not fn_mode(row):
                  bad = [None]
                  ninvalid += 1
              else:
                  nvalid += 1
          else:
              for f in out_fields:
                  n = f['name']
                  if n not in checked:
                      continue
                  v = row.get(n)
                  if transform is not None:
                      v = transform(v)
                      new[n] = v
                  counters['cells_checked'] += 1
                  try:
                      new[n] = fobj[n].cast_value(v)
                      nvalid += 1
                  except (CastError, ArithmeticError, TypeError, ValueError):
                      # uncastable is uncastable, whichever exception the reference caster lets escape
                      bad.append(n)
                      ninvalid += 1
          counters['bad_cells_expected'] += len(bad)
          if bad and first_bad is None:
              first_bad = (i, row['id'], bad[0], target_res)
          if bad:
              cov['bad_position']['first' if i == 0 else 'last' if i == len(rows_in) - 1 else 'middle'] = 1
              if len(bad) > 1:
                  cov['bad_position']['multi_field_row'] = 1
          keep = True
          if policy in ('default', 'raise'):
              keep = not bad
          elif policy == 'drop':
              keep = not bad
          elif policy == 'ignore':
              keep = True
          elif policy == 'clear':
              if fn_mode is not None:
                  keep = not bad          # clear() without a field returns False
              else:
                  for n in bad:
                      new[n] = None
          else:
              for kk, n in enumerate(bad):
                  exp_log.append((target_res, row['id'], i, n if policy == 'custom5' else None))
                  ret = (row['id'] * 7 + kk * 5) % 3 != 0
                  keep = keep and ret
          if keep:
              exp_rows.append((new, bad))
    expect_raise = policy in ('default', 'raise') and first_bad is not None

    # second execution of the same Flow object (re-runnable sources): the policy applies in exactly the same way
    rerun = boot.rng(case['seed'], 'C14', 'rerun', case['idx']).random() < 0.2

    def reset_logs():
        del log[:]
        calls_in_row.clear()
        tcalls.clear()
    lab.second_run(rerun, reset_logs)
    try:
        srcs = [lab.source(rn, in_fields, tables[rn]) for rn in res_names]
        got = lab.run(srcs + steps_pre + [step])
    finally:
        lab.second_run(False)
    if rerun:
        cov.setdefault('config', {})['second_execution_of_the_same_flow'] = 1
        cfg['second_execution'] = True
    sample = {'config': cfg, 'fields': out_fields, 'rows': gen.render(tables[selected[0]][:4], 500)}

    def add(kind, msg, mech=None):
        viol.append({'kind': kind, 'mech': mech or '%s/%s' % (form, policy), 'msg': msg, 'config': cfg})

    if expect_raise:
        if got.ok:
            add('missing_raise', '%r: bad cell at row %r but the run returned normally' % (cfg, first_bad))
        else:
            c = getattr(got.exc, 'cause', None)
            if not isinstance(got.exc, d.ProcessorError if hasattr(d, 'ProcessorError') else Exception) \
                    and type(got.exc).__name__ != 'ProcessorError':
                add('wrong_exception', '%r: raised %r, not a ProcessorError' % (cfg, got.exc))
            elif type(c).__name__ != 'ValidationError' or not hasattr(c, 'row'):
                add('wrong_cause', '%r: cause %r is not a dataflows ValidationError' % (cfg, c))
            else:
                if c.index != first_bad[0] or c.row.get('id') != first_bad[1] or \
                        getattr(c, 'resource_name', first_bad[3]) != first_bad[3]:
                    add('wrong_row', '%r: ValidationError index=%r row id=%r expected index=%r id=%r'
                        % (cfg, c.index, c.row.get('id'), first_bad[0], first_bad[1]))
        return dict(nontrivial=nvalid > 0 and ninvalid > 0, violations=viol, cov=cov, counters=counters,
                    sample=sample)
    if not got.ok:
        add('unexpected_error', '%r: %s' % (cfg, got.errstr()))
        return dict(nontrivial=False, violations=viol, cov=cov, counters=counters)
    gg = got.by_name()
    for rn in res_names:
        gdesc, grows = gg[rn]
        exp_rows, rows_in = exp_by_res.get(rn), rows_in_by_res.get(rn)
        if rn not in selected:
            if _norm(gdesc['schema']['fields']) != _norm(in_fields) or lab.rows_diff(tables[rn], grows):
                add('unselected_changed', '%r: resource %s changed' % (cfg, rn))
            continue
        gf = gdesc['schema']['fields']
        if _norm(gf) != _norm(out_fields):
            add('schema', '%r: schema %r expected %r' % (cfg, gf, _norm(out_fields)))
        if len(grows) != len(exp_rows):
            add('row_set', '%r: emitted ids %r expected %r' % (cfg, [r.get('id') for r in grows],
                                                              [r['id'] for r, _ in exp_rows]))
            continue
        for (er, bad), gr in zip(exp_rows, grows):
            if policy == 'ignore' or policy.startswith('custom'):
                # bad cells unchanged; valid cells cast or unchanged
                orig = rows_in[er['id']]
                ok = set(gr) == set(er)
                for k in er:
                    if not ok:
                        break
                    if k in bad:
                        src = orig[k] if transform is None else transform(orig[k])
                        ok = lab.strict_eq(gr[k], src)
                    else:
                        ok = lab.strict_eq(gr[k], er[k]) or lab.strict_eq(gr[k], orig[k])
                if not ok:
                    add('row_value', '%r: row %r expected %r (bad cells %r unchanged)' % (cfg, gr, er, bad))
                    break
            elif not lab.strict_eq(er, gr):
                add('row_value', '%r: row %r expected %r' % (cfg, gr, er))
                break
    many = sorted(k for k, v in tcalls.items() if v > 1 and len(res_names) == 1)
    if many:
        add('transform_calls', '%r: the transform was applied %d times to cell %r' % (cfg, tcalls[many[0]], many[0]),
            'transform_applied_more_than_once')
    if policy.startswith('custom'):
        counters['handler_calls'] += len(log)
        got_log = [(a, b, c, f) for a, b, c, f, _ in log]
        if got_log != exp_log:
            add('handler_calls', '%r: handler calls %r expected %r' % (cfg, got_log[:6], exp_log[:6]))
    return dict(nontrivial=nvalid > 0 and ninvalid > 0, violations=viol, cov=cov, counters=counters,
                sample=sample)


def _ok(field, v):
    try:
        field.cast_value(v)
        return True
    except (CastError, ArithmeticError, TypeError, ValueError):
        return False


def _norm(fields):
    # datapackage expands descriptors with the spec default format='default'
    return [dict({'format': 'default'}, **f) for f in fields]
