"""C07 Resuming from a checkpoint reproduces the first run.

Histories over {run, delete(checkpoint i), run, ...} with 1..3 chained checkpoints. Every run builds a
fresh Flow whose steps increment side-effect counters (source rows pulled, row-function calls per
segment). After each run: results type-strictly equal to run 1 and counters equal to the model
"steps before the last existing checkpoint do not execute".
"""
import copy
import datetime
import decimal
import json
import os
import shutil

import isodate

from vlib import boot, gen, lab

PROPERTY = 'C07'
LEVEL = 'exploration'
RULE = ('seeded generation: 1..3 resources x 0..250 rows over the extended-JSON value domain (Decimal incl. '
        'exponent/-0/30 digits, date year 1..9999, time, naive and zone-aware datetimes with offsets -12:00..+14:00, '
        'timedelta / isodate.Duration, nested arrays/objects carrying those, sets, unicode, big ints, floats; '
        'sub-second and tzname()==None as separate classes) x histories of length 2..5 over {run, delete c_i} with '
        '1..3 chained checkpoints; distinct = case hash; non-trivial = >=1 run actually resumed from a checkpoint '
        '(observed through the upstream counters) with >=1 row')
ASSUMPTIONS = [
    'NaN/Infinity not generated; object keys are strings; set members are JSON-native scalars',
    'each run is a fresh Flow object (models running the script again)',
]
REQUIRED_COUNTERS = ['resumed_runs', 'rows_compared']
D = decimal.Decimal
TZ = datetime.timezone
TD = datetime.timedelta


class NoNameTZ(datetime.tzinfo):
    def utcoffset(self, dt):
        return TD(hours=2)

    def tzname(self, dt):
        return None

    def dst(self, dt):
        return TD(0)

    def __eq__(self, other):
        return isinstance(other, NoNameTZ)

    def __hash__(self):
        return 1


VALUE_CLASSES = {
    'decimal': [D('1.5'), D('-0'), D('1E+3'), D('2.5E-7'), D('123456789012345678901234567890'),
                D('0.000000000000000000000000000001')],
    'bigint': [2 ** 70, -2 ** 63, 0],
    'float': [0.5, -1.25, 1e300, 1e-9],
    'text': ['żółć', '😀', 'line\nbreak', 'q"uote', ''],
    'date': [datetime.date(1, 1, 1), datetime.date(999, 12, 31), datetime.date(2020, 2, 29),
             datetime.date(9999, 12, 31)],
    'time': [datetime.time(0, 0, 0), datetime.time(23, 59, 59)],
    'datetime_naive': [datetime.datetime(2020, 1, 2, 3, 4, 5), datetime.datetime(1, 1, 1, 0, 0, 0)],
    'datetime_utc': [datetime.datetime(2020, 1, 2, 3, 4, 5, tzinfo=TZ.utc)],
    'datetime_pos_offset': [datetime.datetime(2020, 1, 2, 3, 4, 5, tzinfo=TZ(TD(hours=5, minutes=30))),
                            datetime.datetime(2020, 6, 1, 12, 0, 0, tzinfo=TZ(TD(hours=14)))],
    'datetime_neg_offset': [datetime.datetime(2020, 1, 2, 3, 4, 5, tzinfo=TZ(TD(hours=-5))),
                            datetime.datetime(2020, 1, 2, 3, 4, 5, tzinfo=TZ(TD(hours=-12))),
                            datetime.datetime(2020, 1, 2, 3, 4, 5, tzinfo=TZ(TD(minutes=-30), 'HALF'))],
    'datetime_tzname_none': [datetime.datetime(2020, 1, 2, 3, 4, 5, tzinfo=NoNameTZ())],
    # zones that share their NAME and differ in their offset (CST: -06:00 / +08:00; IST: +05:30 / +01:00)
    'datetime_same_tzname_other_offset': [datetime.datetime(2024, 1, 15, 9, 0, 0, tzinfo=TZ(TD(hours=-6), 'CST')),
                                          datetime.datetime(2024, 1, 15, 9, 0, 0, tzinfo=TZ(TD(hours=8), 'CST')),
                                          datetime.datetime(2024, 7, 1, 9, 30, 0, tzinfo=TZ(TD(hours=5, minutes=30), 'IST')),
                                          datetime.datetime(2024, 7, 1, 9, 30, 0, tzinfo=TZ(TD(hours=1), 'IST'))],
    # tuple-valued cells: what set_type(type='yearmonth' / 'geopoint') produces, or a plain tuple in an `any` field
    'tuple': [(2020, 5), ('a', 'b'), (decimal.Decimal('34.5'), decimal.Decimal('-12.25'))],
    'subsecond_offset': [datetime.datetime(2020, 1, 2, 3, 4, 5, tzinfo=TZ(TD(minutes=19, seconds=32, microseconds=130000))),
                         datetime.datetime(2020, 1, 2, 3, 4, 5, tzinfo=TZ(TD(seconds=-0.5)))],
    'subsecond': [datetime.datetime(2020, 1, 2, 3, 4, 5, us) for us in (1, 42, 99, 100, 999, 1000, 50000, 123456, 999999)] +
                 [datetime.time(1, 2, 3, us) for us in (7, 80, 900, 500000, 999999)] +
                 [datetime.datetime(2020, 1, 2, 3, 4, 5, 10, tzinfo=TZ(TD(hours=-3)))],
    'duration': [TD(days=1, seconds=5), TD(seconds=-90), TD(hours=1.5), isodate.Duration(years=1, months=2),
                 isodate.Duration(months=1, days=3)],
    'nested': [[D('1.1'), {'d': datetime.date(2020, 1, 1), 'l': [datetime.time(1, 2, 3)]}],
               {'k': [1, D('2.50'), None], 'u': 'ż'}, [], {}, {'zz': 1, 'aa': [{'y': 1, 'b': 2}], 'm': None}],
    # object cells whose KEYS look like the tags the checkpoint encoding uses for typed scalars
    'tag_like_object': [{'type{date}': '2020-02-03', 'note': 'x'}, {'k': [{'type{set}': ['a', 'b']}]},
                        {'type{decimal}': '1.50'}, {'type{time}': 'noon'}],
    'set': [{1, 2, 3}, {'a', 'b'}, set()],
    'null': [None],
}
COMMON = ['decimal', 'bigint', 'float', 'text', 'date', 'time', 'datetime_naive', 'datetime_utc',
          'datetime_pos_offset', 'datetime_neg_offset', 'duration', 'nested', 'set', 'null', 'subsecond',
          'datetime_same_tzname_other_offset']
RARE = ['datetime_tzname_none', 'tag_like_object', 'subsecond_offset', 'tuple']


def gen_cases(tier, seed):
    n = {'quick': 320, 'thorough': 8000}[tier]
    for i in range(n):
        yield {'family': 'history', 'idx': i, 'seed': seed}
    # a package without any resource (metadata only) is a package all the same
    for i in range(2):
        yield {'family': 'no_resources', 'idx': 10 ** 6 + i, 'seed': seed}
    # a first attempt that FAILS (a step before the checkpoint raises at some row): the next run must equal a clean run
    for i in range({'quick': 8, 'thorough': 64}[tier]):
        yield {'family': 'failed_first_run', 'idx': 2 * 10 ** 6 + i, 'seed': seed}
    # the saving and the resuming run happen in processes whose locale is not UTF-8 (LC_ALL=C, UTF-8 mode off)
    for i in range(2):
        yield {'family': 'c_locale', 'idx': 4 * 10 ** 6 + i, 'seed': seed}
    # a resource without fields (all of them deleted) still has rows - empty mappings - and is followed by others
    for i in range({'quick': 4, 'thorough': 24}[tier]):
        yield {'family': 'fieldless_resource', 'idx': 3 * 10 ** 6 + i, 'seed': seed}
    # the DEFAULT checkpoint location ('.checkpoints' of the current directory - the process changed directory after importing
    # dataflows, as every case here does): removing it there makes the next run compute again
    for i in range(2):
        yield {'family': 'default_path', 'idx': 6 * 10 ** 6 + i, 'seed': seed}
    # checkpoint(resources=...): the run that saves and the run that resumes return the same (selected) resources
    for i in range({'quick': 6, 'thorough': 30}[tier]):
        yield {'family': 'selected_resources', 'idx': 5 * 10 ** 6 + i, 'seed': seed}


def run_no_resources(case):
    d = lab.df()
    counters = {'resumed_runs': 0, 'rows_compared': 0}
    cov = {'value_class': {}, 'history': {'no_resources/%d' % (case['idx'] % 2): 1}}
    viol = []
    calls = {'n': 0}

    def meta(package):
        calls['n'] += 1
        package.pkg.descriptor['title'] = 'T'
        yield package.pkg
        yield from package

    def flow():
        pre = [d.update_package(name='meta-only')] + ([meta] if case['idx'] % 2 else [])
        return pre + [d.checkpoint('m', checkpoint_path='cpm'), d.update_package(licence='x')]
    first = lab.run(flow(), validate=True)
    second = lab.run(flow(), validate=True)
    cfg = {'family': 'no_resources', 'function_step_before_checkpoint': bool(case['idx'] % 2)}
    if not first.ok:
        return dict(nontrivial=False, violations=[], cov=cov, counters=counters,
                    inconclusive='first run of a resource-less package failed: %s' % first.errstr())
    counters['resumed_runs'] += 1
    counters['rows_compared'] += 1
    if not second.ok:
        viol.append({'kind': 'run_failed', 'mech': 'run_failed/no_resources', 'config': cfg,
                     'msg': '%r: the run resuming from the checkpoint of a resource-less package failed: %s' % (cfg, second.errstr())})
    else:
        if second.dp != first.dp:
            viol.append({'kind': 'descriptor', 'mech': 'descriptor/no_resources', 'config': cfg,
                         'msg': '%r: resumed descriptor %r, first run %r' % (cfg, second.dp, first.dp)})
        if case['idx'] % 2 and calls['n'] != 1:
            viol.append({'kind': 'upstream_executed', 'mech': 'counters/no_resources', 'config': cfg,
                         'msg': '%r: the step before the checkpoint ran %d times over two runs' % (cfg, calls['n'])})
    return dict(nontrivial=True, violations=viol, cov=cov, counters=counters, sample={'config': cfg})


def run_failed_first(case):
    rng = boot.rng(case['seed'], 'C07', 'failed_first', case['idx'])
    d = lab.df()
    counters = {'resumed_runs': 0, 'rows_compared': 0}
    sizes = [rng.choice([1, 2, 6, 40]) for _ in range(rng.choice([1, 2]))]
    tables = [[{'id': r * 100 + i, 'v': 'r%d-%d' % (r, i)} for i in range(n)] for r, n in enumerate(sizes)]
    fields = [{'name': 'id', 'type': 'integer'}, {'name': 'v', 'type': 'string'}]
    fj = rng.randrange(len(sizes))
    fk = rng.choice([0, sizes[fj] // 2, sizes[fj] - 1, 'end'])
    where = rng.choice(['before_checkpoint', 'after_checkpoint'])
    cfg = {'family': 'failed_first_run', 'sizes': sizes, 'fails_at': [fj, fk], 'failing_step': where}

    def flow(cpdir, failing):
        def fail(package):
            yield package.pkg
            for j, res in enumerate(package):
                def it(res=res, j=j):
                    for n, row in enumerate(res):
                        if failing and j == fj and n == fk:
                            raise RuntimeError('step failed')
                        yield row
                    if failing and j == fj and fk == 'end':
                        raise RuntimeError('step failed at the end of the resource')
                yield it()
        steps = [lab.source('res%d' % i, fields, t) for i, t in enumerate(tables)]
        cp = d.checkpoint('cp', checkpoint_path=cpdir)
        steps += [fail, cp] if where == 'before_checkpoint' else [cp, fail]
        return steps + [d.add_field('z', 'integer', 9)]
    viol = []
    clean = lab.run(flow('cp_clean', False), validate=True)
    assert clean.ok, clean.errstr()
    first = lab.run(flow('cp_hist', True), validate=True)
    if first.ok:
        return dict(nontrivial=False, violations=[], counters=counters, cov={'value_class': {}, 'history': {}},
                    inconclusive='the failing first run did not fail')
    # the failed attempt is over and forgotten (its exception, frames and suspended generators are gone) when the next
    # run starts - as in a new process
    import gc
    del first
    gc.collect()
    second = lab.run(flow('cp_hist', False), validate=True)
    counters['resumed_runs'] += 1
    if not second.ok:
        viol.append({'kind': 'run_failed', 'mech': 'run_failed/after_failed_first_run', 'config': cfg,
                     'msg': '%r: the run after a failed first attempt failed: %s' % (cfg, second.errstr())})
    else:
        for a, b in zip(clean.results, second.results):
            counters['rows_compared'] += len(a)
        if [len(r) for r in second.results] != [len(r) for r in clean.results] or \
                any(lab.rows_diff(a, b, 1) for a, b in zip(clean.results, second.results)):
            viol.append({'kind': 'row_count', 'mech': 'half_written_checkpoint_resumed', 'config': cfg,
                         'msg': '%r: the run after a failed first attempt returned %r rows, a clean run %r'
                         % (cfg, [len(r) for r in second.results], [len(r) for r in clean.results])})
    return dict(nontrivial=True, violations=viol, counters=counters,
                cov={'value_class': {}, 'history': {'failed_first_run/%s/%s' % (where, 'end' if fk == 'end' else 'row'): 1}},
                sample={'config': cfg})


C_LOCALE_SCRIPT = r'''
import json, sys
import dataflows as d
# (ASCII-only source text: a C-locale interpreter cannot read anything else from its command line)
rows = [{'id': i, 't': t} for i, t in enumerate(['plain', 'z\u00f3\u0142\u0107', '\u65e5\u672c\u8a9e', '\U0001F600 ok', 'fin'])]
res = d.Flow(rows, d.update_resource(-1, name='t\u00e9st'), d.checkpoint('cp', checkpoint_path='cpl'),
             d.add_field('z', 'integer', 1)).results()
print('RESULT ' + json.dumps([res[0], [r['name'] for r in res[1].descriptor['resources']]]))
'''


def run_c_locale(case):
    import subprocess
    counters = {'resumed_runs': 0, 'rows_compared': 0}
    cfg = {'family': 'c_locale', 'variant': ['saving_and_resuming_in_C_locale', 'saving_in_utf8_resuming_in_C_locale'][case['idx'] % 2]}
    env_c = dict(os.environ, PYTHONPATH=boot.REPO, LC_ALL='C', LANG='C', PYTHONUTF8='0', PYTHONCOERCECLOCALE='0',
                 PYTHONIOENCODING='ascii:backslashreplace')
    env_u = dict(os.environ, PYTHONPATH=boot.REPO, LC_ALL='C.UTF-8', PYTHONUTF8='1')
    outs = []
    viol = []
    for n, env in enumerate([env_c if case['idx'] % 2 == 0 else env_u, env_c]):
        try:
            p = subprocess.run([boot.PY, '-W', 'ignore', '-c', C_LOCALE_SCRIPT], capture_output=True, text=True, timeout=120,
                               env=env, cwd=os.getcwd())
        except subprocess.TimeoutExpired:
            return dict(nontrivial=False, violations=[], counters=counters, cov={'value_class': {}, 'history': {}},
                        inconclusive='subprocess timed out')
        line = next((ln for ln in p.stdout.splitlines() if ln.startswith('RESULT ')), None)
        if line is None:
            viol.append({'kind': 'run_failed', 'mech': 'run_failed/c_locale', 'config': cfg,
                         'msg': '%r: run %d (%s) failed: %s' % (cfg, n + 1, 'saving' if n == 0 else 'resuming',
                                                               p.stderr.strip().splitlines()[-1][:300] if p.stderr.strip() else '?')})
            break
        outs.append(json.loads(line[7:]))
    if len(outs) == 2:
        counters['resumed_runs'] += 1
        counters['rows_compared'] += len(outs[0][0][0])
        if outs[0] != outs[1]:
            viol.append({'kind': 'value', 'mech': 'value/c_locale', 'config': cfg,
                         'msg': '%r: the resumed run returned %r, the first run %r' % (cfg, outs[1], outs[0])})
    return dict(nontrivial=len(outs) == 2, violations=viol, counters=counters,
                cov={'value_class': {'text_non_ascii': 1}, 'history': {cfg['variant']: 1}}, sample={'config': cfg})


def run_fieldless(case):
    rng = boot.rng(case['seed'], 'C07', 'fieldless', case['idx'])
    d = lab.df()
    counters = {'resumed_runs': 0, 'rows_compared': 0}
    n0, n1 = rng.choice([1, 4, 30]), rng.choice([0, 2, 9])
    position = rng.choice(['first', 'middle', 'last'])
    cfg = {'family': 'fieldless_resource', 'rows': [n0, n1], 'position_of_fieldless_resource': position}
    f2 = [{'name': 'a', 'type': 'integer'}, {'name': 'b', 'type': 'string'}]

    def flow():
        typed = lambda name, base: lab.source(name, f2, [{'a': base + i, 'b': 'x%d' % i} for i in range(n1)])  # noqa: E731
        empty = lab.source('bare', f2, [{'a': i, 'b': 'y'} for i in range(n0)])
        srcs = {'first': [empty, typed('t1', 100)], 'last': [typed('t1', 100), empty],
                'middle': [typed('t1', 100), empty, typed('t2', 200)]}[position]
        return srcs + [d.delete_fields(['a', 'b'], resources='bare'), d.checkpoint('cp', checkpoint_path='cpf'),
                       d.update_package(title='after')]
    viol = []
    first = lab.run(flow(), validate=True)
    if not first.ok:
        return dict(nontrivial=False, violations=[], counters=counters, cov={'value_class': {}, 'history': {}},
                    inconclusive='first run with a field-less resource failed: %s' % first.errstr())
    second = lab.run(flow(), validate=True)
    counters['resumed_runs'] += 1
    if not second.ok:
        viol.append({'kind': 'run_failed', 'mech': 'run_failed/fieldless_resource', 'config': cfg,
                     'msg': '%r: resumed run failed: %s' % (cfg, second.errstr())})
    else:
        counters['rows_compared'] += sum(len(r) for r in first.results)
        if first.results != second.results or first.names != second.names:
            viol.append({'kind': 'row_count', 'mech': 'fieldless_resource_rows', 'config': cfg,
                         'msg': '%r: resumed run returned %r rows per resource, the first run %r'
                         % (cfg, [len(r) for r in second.results], [len(r) for r in first.results])})
    return dict(nontrivial=True, violations=viol, counters=counters,
                cov={'value_class': {}, 'history': {'fieldless_resource/%s' % position: 1}}, sample={'config': cfg})


def run_default_path(case):
    import shutil
    d = lab.df()
    counters = {'resumed_runs': 0, 'rows_compared': 0}
    name = 'dflt%d' % case['idx']
    cfg = {'family': 'default_path', 'checkpoint_path': 'default (.checkpoints in the current directory)', 'cwd_changed_after_import': True}
    version = {'v': 1}
    pulls = {'n': 0}

    def src():
        pulls['n'] += 1
        for i in range(5):
            yield {'id': i, 'v': 'version-%d' % version['v']}

    def run():
        with boot.quiet():
            return d.Flow(src(), d.checkpoint(name)).results()[0][0]
    viol = []
    try:
        first = run()
        here = os.path.isdir(os.path.join('.checkpoints', name))
        if not here:
            viol.append({'kind': 'checkpoint_location', 'mech': 'default_path/not_under_cwd', 'config': cfg,
                         'msg': '%r: after the saving run there is no .checkpoints/%s in the current directory %s' % (cfg, name, os.getcwd())})
        version['v'] = 2
        second = run()
        counters['resumed_runs'] += 1
        counters['rows_compared'] += len(second)
        if second != first:
            viol.append({'kind': 'resumed_differs', 'mech': 'default_path/resumed_differs', 'config': cfg,
                         'msg': '%r: the resuming run returned %r' % (cfg, second[:2])})
        shutil.rmtree('.checkpoints', ignore_errors=True)
        third = run()
        counters['rows_compared'] += len(third)
        if [r['v'] for r in third] != ['version-2'] * 5:
            viol.append({'kind': 'stale_after_removal', 'mech': 'default_path/stale_after_removal', 'config': cfg,
                         'msg': '%r: .checkpoints was removed from the current directory, the next run still returned %r'
                         % (cfg, third[:2])})
    except Exception as e:
        viol.append({'kind': 'run_failed', 'mech': 'run_failed/default_path', 'config': cfg,
                     'msg': '%r: %s' % (cfg, str(getattr(e, 'cause', e))[:200])})
    return dict(nontrivial=True, violations=viol, counters=counters,
                cov={'value_class': {}, 'history': {'default_path': 1}}, sample={'config': cfg})


def run_selected(case):
    rng = boot.rng(case['seed'], 'C07', 'selected', case['idx'])
    d = lab.df()
    counters = {'resumed_runs': 0, 'rows_compared': 0}
    names = ['a', 'ab', 'abc'][:rng.choice([2, 3])]
    selector = rng.choice(['ab', ['a'], 'a', 0, -1, 'ab?', ['ab', 'a'], None])
    sizes = [rng.choice([0, 1, 5, 40]) for _ in names]
    cfg = {'family': 'selected_resources', 'names': names, 'selector': selector, 'rows': sizes}
    f2 = [{'name': 'a', 'type': 'integer'}, {'name': 'b', 'type': 'string'}]

    def flow():
        return [lab.source(n, f2, [{'a': j * 100 + i, 'b': 'x%d' % i} for i in range(sz)])
                for j, (n, sz) in enumerate(zip(names, sizes))] + \
               [d.checkpoint('cp', checkpoint_path='cpf', resources=copy.deepcopy(selector)), d.update_package(title='after')]
    viol = []
    first = lab.run(flow(), validate=True)
    if not first.ok:
        return dict(nontrivial=False, violations=[], counters=counters, cov={'value_class': {}, 'history': {}},
                    inconclusive='first run failed: %s' % first.errstr())
    for k in (2, 3):
        nxt = lab.run(flow(), validate=True)
        counters['resumed_runs'] += 1
        if not nxt.ok:
            viol.append({'kind': 'run_failed', 'mech': 'run_failed/selected_resources', 'config': cfg,
                         'msg': '%r: run %d (resuming) failed: %s' % (cfg, k, nxt.errstr())})
            break
        counters['rows_compared'] += sum(len(r) for r in first.results)
        if first.names != nxt.names or first.results != nxt.results or first.dp != nxt.dp:
            viol.append({'kind': 'resumed_differs', 'mech': 'selected_resources/resumed_differs', 'config': cfg,
                         'msg': '%r: run %d (resuming) returned resources %r with %r rows, the saving run %r with %r rows'
                         % (cfg, k, nxt.names, [len(r) for r in nxt.results], first.names, [len(r) for r in first.results])})
            break
    return dict(nontrivial=True, violations=viol, counters=counters,
                cov={'value_class': {}, 'history': {'selected_resources/%s' % type(selector).__name__: 1}}, sample={'config': cfg})


def key_orders(v):
    """the key order of every dict nested in v (lists keep their positions)."""
    if isinstance(v, dict):
        return [list(v)] + [key_orders(x) for x in v.values() if isinstance(x, (dict, list))]
    if isinstance(v, list):
        return [key_orders(x) for x in v if isinstance(x, (dict, list))]
    return []


def val_eq(a, b):
    """type-strict equality that also understands sets, durations and tz offsets."""
    if isinstance(a, set) and isinstance(b, set):
        return a == b
    if isinstance(a, (datetime.timedelta, isodate.Duration)) or isinstance(b, (datetime.timedelta, isodate.Duration)):
        return type(a) is type(b) and a == b
    if isinstance(a, dict) and isinstance(b, dict):
        return a.keys() == b.keys() and all(val_eq(a[k], b[k]) for k in a)
    if isinstance(a, list) and isinstance(b, list):
        return len(a) == len(b) and all(val_eq(x, y) for x, y in zip(a, b))
    return lab.strict_eq(a, b)


def run_case(case):
    if case['family'] == 'no_resources':
        return run_no_resources(case)
    if case['family'] == 'failed_first_run':
        return run_failed_first(case)
    if case['family'] == 'fieldless_resource':
        return run_fieldless(case)
    if case['family'] == 'selected_resources':
        return run_selected(case)
    if case['family'] == 'default_path':
        return run_default_path(case)
    if case['family'] == 'c_locale':
        return run_c_locale(case)
    rng = boot.rng(case['seed'], 'C07', case['idx'])
    d = lab.df()
    counters = {'resumed_runs': 0, 'rows_compared': 0}
    cov = {'value_class': {}, 'history': {}}
    viol = []
    ncp = rng.choice([1, 1, 2, 3])
    nres = rng.choice([1, 1, 2, 3])
    classes = rng.sample(COMMON, rng.randint(2, 6))
    if rng.random() < 0.12:
        classes.append(rng.choice(RARE))
    tables = []
    for r in range(nres):
        nrows = rng.choice([0, 1, 2, 7, 50, 250])
        rows = []
        for i in range(nrows):
            row = {'id': i}
            for j, c in enumerate(classes):
                row['f%d' % j] = copy.deepcopy(rng.choice(VALUE_CLASSES[c]))
            rows.append(row)
        tables.append(rows)
    for c in classes:
        cov['value_class'][c] = 1
    fields = [{'name': 'id', 'type': 'integer'}] + [{'name': 'f%d' % j, 'type': 'any'} for j in range(len(classes))]
    total_rows = sum(len(t) for t in tables)
    # history
    hist = ['run']
    for _ in range(rng.randint(1, 4)):
        hist.append(rng.choice(['run', 'run', 'delete:%d' % rng.randrange(ncp), 'delete_all']))
    if hist[-1] != 'run':
        hist.append('run')
    cfg = {'checkpoints': ncp, 'resources': [len(t) for t in tables], 'classes': classes, 'history': hist}
    cov['history']['cp%d/len%d' % (ncp, len(hist))] = 1
    cpdir = 'cps'
    # a quarter of the histories re-run ONE Flow object (re-iterable sources, function steps) instead of building a
    # fresh flow per run
    reuse = rng.random() < 0.25
    cfg['same_flow_object'] = reuse
    nested = boot.rng(case['seed'], 'C07', 'nested', case['idx']).choice(
        [None, None, None, 'checkpoint_alone', 'segment_and_checkpoint', 'steps_argument', 'two_levels_deep',
         'two_levels_deep_alone', 'inside_conditional'])
    cfg['checkpoint_in_nested_flow'] = nested
    if nested:
        cov['history']['checkpoint_in_nested_flow/' + nested] = 1
    early_stop = boot.rng(case['seed'], 'C07', 'early', case['idx']).random() < 0.2
    # a step after the last checkpoint that passes the first resource on, never touches the second and goes on with the third
    skip_mid = nres == 3 and boot.rng(case['seed'], 'C07', 'skipmid', case['idx']).random() < 0.5
    cfg['later_step_never_iterates_the_middle_resource'] = skip_mid
    if skip_mid:
        early_stop = False
        cov['history']['later_step_never_iterates_the_middle_resource'] = 1
    cfg['early_stopping_step_after_last_checkpoint'] = early_stop
    if early_stop:
        cov['history']['early_stopping_step_after_last_checkpoint'] = 1
    orders = {}
    first_orders = None
    shared_cnt = {}

    class Source:
        def __init__(self, i):
            self.i = i

        def __iter__(self):
            for row in copy.deepcopy(tables[self.i]):
                shared_cnt['pulled'] = shared_cnt.get('pulled', 0) + 1
                yield row

    def build(cnt):
        """fresh flow: source, seg0, cp0, seg1, cp1, ... seg_ncp ; counters per segment."""
        def source(i):
            def g():
                for row in copy.deepcopy(tables[i]):
                    cnt['pulled'] += 1
                    yield row
            return g()
        desc = {'resources': [{'name': 'res%d' % i, 'path': 'res%d.csv' % i,
                               'schema': {'fields': copy.deepcopy(fields)}} for i in range(nres)]}
        if reuse:
            # a re-runnable source step with the same explicit schema (load() objects cannot be run twice)
            def src(package):
                for r in copy.deepcopy(desc['resources']):
                    package.pkg.add_resource(r)
                yield package.pkg
                yield from package
                for i in range(nres):
                    yield iter(Source(i))
            steps = [src]
        else:
            steps = [d.load((desc, [source(i) for i in range(nres)]), strip=False)]

        def seg(k):
            def f(row):
                cnt['seg%d' % k] += 1
                # non-idempotent in-place edit: a checkpoint that stored the row AFTER a later segment touched it,
                # or a resumed run that re-applies an upstream segment, changes this value
                row['id'] = row['id'] + 1000 * (10 ** k)
            f.__name__ = 'seg%d' % k
            # Flow only accepts plain functions whose single parameter is named row
            return f
        def pseg(k):
            # package-level step: counts the package-definition phase of its segment
            def f(package):
                cnt['pkg%d' % k] += 1
                yield package.pkg
                yield from package
            return f
        for k in range(ncp):
            if nested == 'checkpoint_alone':
                # the checkpoint sits in a nested Flow of its own: grouping must not change what it stands for
                steps += [seg(k), pseg(k), d.Flow(d.checkpoint('cp%d' % k, checkpoint_path=cpdir))]
            elif nested == 'segment_and_checkpoint':
                steps.append(d.Flow(seg(k), pseg(k), d.checkpoint('cp%d' % k, checkpoint_path=cpdir)))
            elif nested == 'two_levels_deep':
                steps.append(d.Flow(d.Flow(seg(k), pseg(k), d.checkpoint('cp%d' % k, checkpoint_path=cpdir))))
            elif nested == 'two_levels_deep_alone':
                steps += [seg(k), d.Flow(pseg(k), d.Flow(d.checkpoint('cp%d' % k, checkpoint_path=cpdir)))]
            elif nested == 'inside_conditional':
                # the checkpoint sits in an always-true conditional: it is chained onto the stream of the steps before it
                steps += [seg(k), pseg(k), d.conditional(lambda dp: True, d.Flow(d.checkpoint('cp%d' % k, checkpoint_path=cpdir)))]
            elif nested == 'steps_argument':
                # the segment is handed to the checkpoint as its `steps`: it runs after the links that precede it
                steps.append(d.checkpoint('cp%d' % k, checkpoint_path=cpdir, steps=[seg(k), pseg(k)]))
            else:
                steps.append(seg(k))
                steps.append(pseg(k))
                steps.append(d.checkpoint('cp%d' % k, checkpoint_path=cpdir))
        steps.append(seg(ncp))
        steps.append(pseg(ncp))
        if early_stop:
            import itertools

            def first_two(rows):
                # a step after the last checkpoint that stops reading each resource early
                return itertools.islice(rows, 2)
            steps.append(first_two)

        if skip_mid:
            def skip_middle(package):
                yield package.pkg
                for i_, res_ in enumerate(package):
                    yield iter(()) if i_ == 1 else res_
            steps.append(skip_middle)

        def order_probe(package):
            # what a step placed after the last checkpoint can see of the ORDER of row keys / object-cell keys
            yield package.pkg
            for ri, res in enumerate(package):
                def it(ri=ri, res=res):
                    for n, row in enumerate(res):
                        if n < 3:
                            orders.setdefault(ri, []).append(
                                (list(row), {k: key_orders(v) for k, v in row.items() if isinstance(v, (dict, list))}))
                        yield row
                yield it()
        steps.append(order_probe)
        return steps

    def add(kind, msg, mech):
        viol.append({'kind': kind, 'mech': mech, 'msg': '%r: %s' % (cfg, msg), 'config': cfg})
    first = None
    exists = [False] * ncp
    run_no = 0
    nontrivial = False
    for h in hist:
        if h.startswith('delete'):
            which = range(ncp) if h == 'delete_all' else [int(h.split(':')[1])]
            for k in which:
                shutil.rmtree(os.path.join(cpdir, 'cp%d' % k), ignore_errors=True)
                exists[k] = False
            continue
        run_no += 1
        if reuse:
            cnt = shared_cnt
            cnt.clear()
            cnt['pulled'] = 0
        else:
            cnt = {'pulled': 0}
        for k in range(ncp + 1):
            cnt['seg%d' % k] = 0
            cnt['pkg%d' % k] = 0
        if reuse:
            if run_no == 1:
                the_flow = d.Flow(*build(cnt))
            try:
                with boot.quiet() as cap:
                    results, dp, stats = the_flow.results()
                out = lab.Outcome(True, results, copy.deepcopy(dp.descriptor), stats, logged=cap.records)
            except Exception as e:
                out = lab.Outcome(False, exc=e)
        else:
            out = lab.run(build(cnt), validate=True)
        if not out.ok:
            add('run_failed', 'run %d failed: %s' % (run_no, out.errstr()), 'run_failed/' + '+'.join(sorted(classes)))
            break
        if out.swallowed:
            add('run_swallowed_error', 'run %d logged: %s' % (run_no, out.swallowed[0][:200]), 'swallowed')
            break
        # model: the last existing checkpoint p: segments <= p and the source do not execute
        last = max([k for k in range(ncp) if exists[k]], default=None)
        want = {'pulled': 0 if last is not None else total_rows}
        for k in range(ncp + 1):
            want['seg%d' % k] = total_rows if (last is None or k > last) else 0
            want['pkg%d' % k] = 1 if (last is None or k > last) else 0
        if nested == 'inside_conditional':
            # a conditional looks at the package the steps before it describe: their package phase runs in every run (their
            # rows are not pulled once the checkpoint exists)
            for k in range(ncp + 1):
                want['pkg%d' % k] = 1
        if early_stop:
            # the checkpoints still capture everything; the segment after the last checkpoint sees what was asked for
            want['seg%d' % ncp] = sum(min(2, len(t)) for t in tables)
        if skip_mid:
            want['seg%d' % ncp] = total_rows - len(tables[1])
        if cnt != want:
            add('upstream_executed', 'run %d with checkpoints existing=%r: counters %r expected %r'
                % (run_no, exists, cnt, want), 'counters')
        if last is not None:
            counters['resumed_runs'] += 1
            if total_rows:
                nontrivial = True
        # after a run every checkpoint after `last` has been (re)written
        for k in range(ncp):
            if last is None or k > last:
                exists[k] = True
        for k in range(ncp):
            on_disk = os.path.exists(os.path.join(cpdir, 'cp%d' % k, 'stream.ndjson'))
            if on_disk != exists[k]:
                add('checkpoint_presence', 'after run %d checkpoint cp%d on disk=%s, model=%s'
                    % (run_no, k, on_disk, exists[k]), 'presence')
        if first is None:
            first = out
            first_orders = copy.deepcopy(orders)
            orders.clear()
            # sanity (not judged as C07): run 1 equals the input
            continue
        for ri_ in sorted(first_orders):
            bad = None
            for a_, b_ in zip(first_orders[ri_], orders.get(ri_, [])):
                if a_[0] != b_[0]:
                    bad = ('row', a_[0], b_[0])
                else:
                    # object cells that are still objects in both runs (a changed VALUE is reported as such below)
                    bad = next((('object_cell', a_[1][k_], b_[1][k_]) for k_ in a_[1] if k_ in b_[1] and a_[1][k_] != b_[1][k_]
                                and classes[int(k_[1:])] != 'tag_like_object'),
                               None)
                if bad:
                    break
            if bad:
                add('key_order', 'run %d resource %d: a step after the checkpoint sees %s keys in another order than in run 1: '
                    '%r vs %r' % (run_no, ri_, bad[0], bad[2], bad[1]), 'key_order/' + bad[0])
                break
        orders.clear()
        if out.dp != first.dp:
            add('descriptor', 'run %d descriptor differs from run 1' % run_no, 'descriptor')
        for ri, (a, b) in enumerate(zip(first.results, out.results)):
            counters['rows_compared'] += len(a)
            if len(a) != len(b):
                add('row_count', 'run %d resource %d: %d rows, run 1 had %d' % (run_no, ri, len(b), len(a)), 'row_count')
                continue
            for x, y in zip(a, b):
                if not val_eq(x, y):
                    badk = next(k for k in x if k not in y or not val_eq(x[k], y.get(k)))
                    ci = int(badk[1:]) if badk != 'id' else None
                    cls = classes[ci] if ci is not None and ci < len(classes) else 'id'
                    mech = 'value/' + cls
                    if cls == 'tuple' and isinstance(x[badk], tuple) and isinstance(y.get(badk), list) and \
                            val_eq(list(x[badk]), y.get(badk)):
                        mech = 'tuple_cell_becomes_list'        # exactly the JSON array the tuple was written as
                    if cls == 'tag_like_object':
                        # alternative model: an object cell with a key equal to one of the encoding's type tags is decoded
                        # as that typed scalar - reproduced on the cell alone through the library's extended JSON
                        ej = boot.module('dataflows.helpers.extended_json').ejson
                        try:
                            if val_eq(ej.loads(ej.dumps(x[badk])), y.get(badk)):
                                mech = 'ejson_tag_collision'
                        except Exception:
                            pass
                    add('value', 'run %d resource %d row id %r field %s (%s): resumed %r, first run %r'
                        % (run_no, ri, x.get('id'), badk, cls, y.get(badk), x[badk]), mech)
                    break
        if len(first.results) != len(out.results):
            add('resource_count', 'run %d: %d resources, run 1 had %d' % (run_no, len(out.results), len(first.results)),
                'resource_count')
    sample = {'config': cfg, 'rows': gen.render(tables[0][:2], 500)}
    return dict(nontrivial=nontrivial, violations=viol, cov=cov, counters=counters, sample=sample)
