"""C02 Emitted rows always agree with the emitted descriptor.

Monitor: boundary probes (vlib/probes.py) after EVERY link of every generated pipeline check the
stream invariant (streams <-> descriptors, unique names, row keys subset of schema, every non-null
value accepted by the declared field) as rows stream by; at the end results() with its default
validating policy must not raise and datapackage.Package(descriptor).valid must hold.
"""
import copy
import os
import datetime
import decimal

import datapackage

from vlib import boot, dsl, gen, lab, probes

PROPERTY = 'C02'
LEVEL = 'exploration'
RULE = ('families: (program) typed random walks over the built-in processors with a probe after every link; '
        '(matrix) every schema-changing operation x every field type it accepts: add_computed_field ops x '
        '(integer, number, string, mixed), join aggregates x source field type (avg/median over integer, sum over '
        'string, min/max over date ...), concatenate of equal-typed fields, unpivot with typed value field, set_type '
        'to every type from castable text, find_replace on typed fields; (iterable) inference over python values '
        'of every type the loader infers; (autoname) sources appended after deletions; distinct = case hash; '
        'non-trivial = >=1 schema-changing step and >=1 row reaching a probe')
ASSUMPTIONS = [
    'a pipeline whose user-supplied names collide or that maps differently typed fields onto one concatenate '
    'target is ill-typed and not generated',
    'missing keys are allowed (the statement forbids undeclared fields, not absent ones)',
    '"valid for the declared type" = tableschema Field.cast_value accepts the value (native-type mismatches that '
    'still cast are reported in the evidence, not judged)',
    'probes are pass-through steps; a program whose result changes when probes are inserted is discarded',
]
REQUIRED_COUNTERS = ['boundaries_probed', 'cells_cast']
D = decimal.Decimal
FAMILIES = ['program', 'program', 'matrix_computed', 'matrix_join', 'matrix_misc', 'iterable', 'autoname']
CASE_TIMEOUT = 180


def gen_cases(tier, seed):
    n = {'quick': 560, 'thorough': 14000}[tier]
    for i in range(n):
        yield {'family': FAMILIES[i % len(FAMILIES)], 'idx': i, 'seed': seed}
    # every type pairing of 'join into a field the target already has', and the non-adjacent concatenate selection forms
    for k in range(4):
        yield {'family': 'matrix_misc', 'idx': 10 ** 6 + k, 'seed': seed, 'force_kind': 'join_into_existing_field', 'combo': k}
    for k in range(3):
        yield {'family': 'matrix_misc', 'idx': 10 ** 6 + 10 + k, 'seed': seed, 'force_kind': 'concatenate_nonadjacent', 'combo': k}


TYPED = {
    'integer': [1, 2, 3, -4, 10, None],
    'number': [D('1.5'), D('2'), 2.5, D('-0.25'), None],
    'string': ['a', 'b', 'ab', 'é', None],
    'date': [datetime.date(2020, 1, 1), datetime.date(1999, 12, 31), None],
    'boolean': [True, False, None],
    'datetime': [datetime.datetime(2020, 1, 1, 10, 0, 0), None],
    'time': [datetime.time(1, 2, 3), None],
    'year': [2020, 1999, None],
    'array': [[1, 2], [], None],
    'object': [{'a': 1}, {}, None],
    'duration': [datetime.timedelta(days=1), datetime.timedelta(hours=2, minutes=30), datetime.timedelta(seconds=5), None],
}


def typed_table(rng, fields, n):
    return [dict({'id': i}, **{f: rng.choice(TYPED[t]) for f, t in fields}) for i in range(n)]


def run_case(case):
    fam = case['family']
    rng = boot.rng(case['seed'], 'C02', case['idx'])
    d = lab.df()
    counters = {'boundaries_probed': 0, 'cells_cast': 0, 'probe_transparency_checked': 0}
    cov = {'op_x_type': {}, 'nonnative_values_seen': {}}
    viol = []
    env = dsl.Env('p')
    label = None
    schema_changing = True
    may_refuse = False
    if fam == 'program':
        tables, specs, _ = dsl.gen_program(rng, allow=lambda o: o.name != 'user')
        mk = lambda e: dsl.build_all(tables, specs, e)   # noqa: E731
        prog = dsl.render(tables, specs)
        for s in specs:
            cov['op_x_type']['program/' + s['op']] = 1
        schema_changing = any(s['op'] in ('add_field', 'delete_fields', 'select_fields', 'rename_fields',
                                          'add_computed_field', 'set_type', 'unpivot', 'concatenate', 'duplicate',
                                          'delete_resource', 'join', 'append_iterable', 'append_load')
                              for s in specs)
    elif fam == 'matrix_computed':
        op_ = rng.choice(['sum', 'avg', 'max', 'min', 'multiply', 'join', 'format', 'constant'])
        ftyp = rng.choice(['integer', 'number', 'mixed', 'string'] if op_ in ('join', 'format', 'constant', 'max', 'min')
                          else ['integer', 'number', 'mixed'])
        fl = {'integer': [('x', 'integer'), ('y', 'integer')], 'number': [('x', 'number'), ('y', 'number')],
              'mixed': [('x', 'integer'), ('y', 'number')], 'string': [('x', 'string'), ('y', 'string')]}[ftyp]
        rows = typed_table(rng, fl, rng.choice([1, 5, 30]))
        if ftyp in ('number', 'mixed'):
            for r in rows:      # Decimal and float do not mix in python arithmetic: keep one family per table
                for k in ('x', 'y'):
                    if isinstance(r[k], float):
                        r[k] = D(str(r[k]))
        if op_ in ('max', 'min') and ftyp == 'mixed':
            pass
        spec = {'target': 'out', 'operation': op_, 'source': ['x', 'y']}
        if op_ in ('constant', 'format'):
            del spec['source']      # documented as not required; a source list would only mis-type the target
        if op_ == 'join':
            spec['with'] = '-'
        if op_ == 'format':
            spec['with'] = '{x}/{y}'
        if op_ == 'constant':
            spec['with'] = rng.choice(['c', 5, 2.5, True])
        label = 'add_computed_field/%s/%s' % (op_, ftyp)
        fields = [{'name': 'id', 'type': 'integer'}] + [{'name': f, 'type': t} for f, t in fl]
        variant = rng.choice(['single', 'single', 'two_resources', 'chained'])
        if variant == 'two_resources' and op_ in ('sum', 'avg', 'max', 'min', 'multiply'):
            # one step over two resources whose source columns have DIFFERENT types: the new field must be typed
            # per resource
            fl2 = [('x', 'number'), ('y', 'number')] if ftyp == 'integer' else [('x', 'integer'), ('y', 'integer')]
            rows2 = typed_table(rng, fl2, 4)
            for r in rows2:
                for k in ('x', 'y'):
                    if isinstance(r[k], float):
                        r[k] = D(str(r[k]))
                    if r[k] is None:
                        r[k] = D('2.5') if fl2[0][1] == 'number' else 3
            fields2 = [{'name': 'id', 'type': 'integer'}] + [{'name': f, 'type': t} for f, t in fl2]
            order = rng.random() < 0.5
            mk = lambda e: ([lab.source('t', fields, rows), lab.source('u', fields2, rows2)] if order else   # noqa
                            [lab.source('u', fields2, rows2), lab.source('t', fields, rows)]) + \
                [d.add_computed_field([copy.deepcopy(spec)])]
            label += '/two_resources'
        elif variant == 'chained' and op_ in ('sum', 'max', 'min', 'multiply') and ftyp == 'integer':
            # a second computed field of the SAME call uses the first one as a source
            first = {'target': 'half', 'operation': 'avg', 'source': ['x', 'y']}
            if rng.random() < 0.5:
                # ... the first one declared with an explicit target descriptor (its type is what the second one builds on)
                first = {'target': {'name': 'half', 'type': 'number', 'title': 'Half'}, 'operation': 'avg', 'source': ['x', 'y']}
                label += '/explicit_target'
            for r in rows:
                if r['x'] is None and r['y'] is None:
                    r['x'] = 1
            second = {'target': 'out', 'operation': op_, 'source': ['half', 'x']}
            mk = lambda e: [lab.source('t', fields, rows), d.add_computed_field([copy.deepcopy(first), copy.deepcopy(second)])]  # noqa
            spec = [first, second]
            label += '/chained'
        else:
            mk = lambda e: [lab.source('t', fields, rows), d.add_computed_field([copy.deepcopy(spec)])]   # noqa
        prog = {'table': fl, 'step': spec, 'variant': variant}
    elif fam == 'matrix_join':
        agg = rng.choice(['sum', 'avg', 'median', 'min', 'max', 'first', 'last', 'count', 'counters', 'set',
                          'array', 'any'])
        allowed = {'sum': ['integer', 'number', 'string', 'duration'], 'avg': ['integer', 'number', 'duration'],
                   'median': ['integer', 'number', 'duration'], 'min': ['integer', 'number', 'string', 'date', 'duration'],
                   'max': ['integer', 'number', 'string', 'date', 'duration']}.get(
            agg, ['integer', 'number', 'string', 'date', 'boolean', 'datetime', 'year', 'duration'])
        ftyp = rng.choice(allowed)
        src = typed_table(rng, [('k', 'integer'), ('v', ftyp)], rng.choice([1, 4, 12]))
        for r in src:
            r['k'] = rng.choice([1, 2, 3])
            if isinstance(r['v'], float):
                r['v'] = D(str(r['v']))
        tgt = [{'id': i, 'k': rng.choice([1, 2, 3, 4])} for i in range(rng.choice([1, 5]))]
        mode = rng.choice(['inner', 'half-outer', 'full-outer', 'dedup'])
        label = 'join/%s/%s' % (agg, ftyp)
        sf = [{'name': 'id', 'type': 'integer'}, {'name': 'k', 'type': 'integer'}, {'name': 'v', 'type': ftyp}]
        tf = [{'name': 'id', 'type': 'integer'}, {'name': 'k', 'type': 'integer'}]
        if rng.random() < 0.3:
            # the source field is declared required (and has no nulls): target rows without a match still get null
            for r in src:
                if r['v'] is None:
                    r['v'] = next(x for x in TYPED[ftyp] if x is not None)
                    if isinstance(r['v'], float):
                        r['v'] = D(str(r['v']))
            sf[2]['constraints'] = {'required': True}
            label += '/required_source_field'
        if mode != 'dedup' and boot.rng(case['seed'], 'C02', 'rownum', case['idx']).random() < 0.2:
            # positional join: the row number '#' as key (format string or field list); with full-outer and a source that
            # is longer than the target the extra source rows become target rows
            keyform = rng.choice(['{#}', ['#']])
            mk = lambda e: [lab.source('src', sf, src), lab.source('tgt', tf, tgt),           # noqa: E731
                            d.join('src', copy.deepcopy(keyform), 'tgt', copy.deepcopy(keyform),
                                   {'o': {'name': 'v', 'aggregate': agg}}, mode=mode)]
            label += '/row_number_key'
        elif mode == 'dedup':
            mk = lambda e: [lab.source('src', sf, src),                                        # noqa: E731
                            d.join_with_self('src', ['k'], {'k': None, 'o': {'name': 'v', 'aggregate': agg}})]
        else:
            mk = lambda e: [lab.source('src', sf, src), lab.source('tgt', tf, tgt),           # noqa: E731
                            d.join('src', ['k'], 'tgt', ['k'], {'o': {'name': 'v', 'aggregate': agg}}, mode=mode)]
        prog = {'join': agg, 'source_type': ftyp, 'mode': mode}
    elif fam == 'matrix_misc':
        kind = rng.choice(['concatenate', 'unpivot', 'set_type', 'find_replace', 'duplicate_alias', 'load_csv',
                           'twin_isolation', 'twin_isolation', 'rename_chain', 'multi_then_single',
                           'multi_then_single', 'pk_then_field_op', 'load_package_extract_missing',
                           'set_type_two_positions', 'computed_chain_explicit_target', 'concatenate_nonadjacent',
                           'join_into_existing_field'])
        kind = case.get('force_kind') or kind
        if kind == 'concatenate' and rng.random() < 0.4:
            # a required field that only ONE of the concatenated resources has
            a = [{'id': i, 'v': 'x%d' % i} for i in range(3)]
            b = [{'id': 10 + i} for i in range(2)]
            fa = [{'name': 'id', 'type': 'integer'}, {'name': 'v', 'type': 'string', 'constraints': {'required': True}}]
            fb = [{'name': 'id', 'type': 'integer'}]
            order = rng.random() < 0.5
            mk = lambda e: ([lab.source('a', fa, a), lab.source('b', fb, b)] if order else                  # noqa: E731
                            [lab.source('b', fb, b), lab.source('a', fa, a)]) + \
                [d.concatenate({'id': [], 'v': []}, target={'name': 'c', 'path': 'c.csv'})]
            label = 'concatenate/required_in_one_source'
        elif kind == 'concatenate':
            ftyp = rng.choice(sorted(TYPED))
            a = typed_table(rng, [('v', ftyp)], 3)
            b = typed_table(rng, [('w', ftyp)], 4)
            fa = [{'name': 'id', 'type': 'integer'}, {'name': 'v', 'type': ftyp}]
            fb = [{'name': 'id', 'type': 'integer'}, {'name': 'w', 'type': ftyp}]
            mk = lambda e: [lab.source('a', fa, a), lab.source('b', fb, b),                    # noqa: E731
                            d.concatenate({'id': [], 'v': ['w'], 'extra': []}, target={'name': 'c', 'path': 'c.csv'})]
            label = 'concatenate/' + ftyp
        elif kind == 'concatenate_nonadjacent':
            # the selected resources are not neighbours: refused (documented), or every emitted row still fits the resource
            # it is emitted under
            a = [{'id': i, 'v': 'x%d' % i} for i in range(3)]
            b = [{'bid': 100 + i, 'when': datetime.date(2020, 1, 1 + i)} for i in range(4)]
            c_ = [{'id': 10 + i, 'v': 'y%d' % i} for i in range(2)]
            fa = [{'name': 'id', 'type': 'integer'}, {'name': 'v', 'type': 'string'}]
            fb = [{'name': 'bid', 'type': 'integer'}, {'name': 'when', 'type': 'date'}]
            selr = [['a', 'c'], 'a|c', '[ac]'][case['combo']] if 'combo' in case else rng.choice([['a', 'c'], 'a|c', '[ac]'])
            mk = lambda e: [lab.source('a', fa, a), lab.source('b', fb, b), lab.source('c', fa, c_),     # noqa: E731
                            d.concatenate({'id': [], 'v': []}, target={'name': 'cat', 'path': 'cat.csv'}, resources=copy.deepcopy(selr))]
            label = 'concatenate/nonadjacent_selection'
            may_refuse = True
        elif kind == 'join_into_existing_field':
            # the joined values go into a field the target already has, declared with ANOTHER type: refused, or the rows fit
            pairs_ = [('integer', 'number'), ('number', 'integer'), ('string', 'integer'), ('integer', 'integer')]
            t_have, t_src = pairs_[case['combo']] if 'combo' in case else rng.choice(pairs_)
            srcr = [{'k': i % 3, 'v': {'number': D('%d.5' % i), 'integer': i}[t_src]} for i in range(6)]
            tgtr = [{'id': i, 'k': i % 4, 'have': {'integer': 7, 'number': D('7.25'), 'string': 'seven'}[t_have]} for i in range(5)]
            sf_ = [{'name': 'k', 'type': 'integer'}, {'name': 'v', 'type': t_src}]
            tf_ = [{'name': 'id', 'type': 'integer'}, {'name': 'k', 'type': 'integer'}, {'name': 'have', 'type': t_have}]
            agg_ = rng.choice(['max', 'first', 'last', 'sum'])
            mk = lambda e: [lab.source('src', sf_, srcr), lab.source('tgt', tf_, tgtr),                 # noqa: E731
                            d.join('src', ['k'], 'tgt', ['k'], {'have': {'name': 'v', 'aggregate': agg_}})]
            label = 'join/into_existing_field/%s<-%s' % (t_have, t_src)
            may_refuse = t_have != t_src
        elif kind == 'computed_chain_explicit_target':
            # two computed fields of one call: the first declared with an explicit descriptor (number), the second computed
            # from it and an integer column
            op2 = rng.choice(['sum', 'max', 'min', 'multiply'])
            rows = [{'id': i, 'x': rng.choice([1, 2, 3, 8]), 'y': rng.choice([2, 5, 7])} for i in range(5)]
            fl = [{'name': 'id', 'type': 'integer'}, {'name': 'x', 'type': 'integer'}, {'name': 'y', 'type': 'integer'}]
            specs_ = [{'target': {'name': 'half', 'type': 'number', 'title': 'Half'}, 'operation': 'avg', 'source': ['x', 'y']},
                      {'target': 'out', 'operation': op2, 'source': ['half', 'x']}]
            mk = lambda e: [lab.source('t', fl, rows), d.add_computed_field(copy.deepcopy(specs_))]   # noqa: E731
            label = 'computed_chain_explicit_target/' + op2
        elif kind == 'set_type_two_positions':
            # ONE set_type object (default resources = the last one) used after each of two sources
            ftyp, vals = rng.choice([('integer', ['1', '22']), ('number', ['1.5', '2']), ('date', ['2020-01-31'])])
            # (rows whose value does not conform are dropped by the step's policy: they must not come out)
            a = [{'id': i, 'v': rng.choice(vals + [None, 'n/a'])} for i in range(5)] + [{'id': 5, 'v': 'n/a'}]
            b = [{'id': 10 + i, 'v': rng.choice(vals + [None, 'n/a'])} for i in range(3)]
            fl = [{'name': 'id', 'type': 'integer'}, {'name': 'v', 'type': 'string'}]

            drop_ = d.schema_validator.drop

            def mk(e):
                one = d.set_type('v', type=ftyp, on_error=drop_)
                return [lab.source('a', fl, a), one, lab.source('b', fl, b), one]
            label = 'set_type_two_positions/' + ftyp
        elif kind == 'unpivot':
            ftyp = rng.choice(['integer', 'number', 'string', 'date', 'boolean'])
            rows = typed_table(rng, [('c1', ftyp), ('c2', ftyp)], 5)
            fl = [{'name': 'id', 'type': 'integer'}, {'name': 'c1', 'type': ftyp}, {'name': 'c2', 'type': ftyp}]
            mk = lambda e: [lab.source('t', fl, rows),                                          # noqa: E731
                            d.unpivot([{'name': 'c([12])', 'keys': {'which': r'\1'}}],
                                      [{'name': 'which', 'type': 'string'}], {'name': 'val', 'type': ftyp})]
            label = 'unpivot/' + ftyp
        elif kind == 'set_type':
            ftyp, vals = rng.choice([('integer', ['1', '22']), ('number', ['1.5', '2']), ('boolean', ['true', 'false']),
                                     ('date', ['2020-01-31']), ('year', ['2020']), ('array', ['[1]']),
                                     ('object', ['{"a":1}']), ('datetime', ['2020-01-01T10:00:00Z']),
                                     ('time', ['10:00:00']), ('string', ['x'])])
            rows = [{'id': i, 'v': rng.choice(vals + [None])} for i in range(6)]
            fl = [{'name': 'id', 'type': 'integer'}, {'name': 'v', 'type': 'string'}]
            mk = lambda e: [lab.source('t', fl, rows), d.set_type('v', type=ftyp, resources=None)]   # noqa: E731
            label = 'set_type/' + ftyp
        elif kind == 'find_replace':
            ftyp = rng.choice(['integer', 'string', 'number'])
            rows = typed_table(rng, [('v', ftyp)], 6)
            fl = [{'name': 'id', 'type': 'integer'}, {'name': 'v', 'type': ftyp}]
            mk = lambda e: [lab.source('t', fl, rows),                                          # noqa: E731
                            d.find_replace([{'name': 'v', 'patterns': [{'find': '1', 'replace': '9'}]}])]
            label = 'find_replace/' + ftyp
        elif kind == 'twin_isolation':
            # duplicate, then a schema-changing step restricted to ONE of the twins: the other twin's descriptor
            # and rows must stay in agreement (shared schema objects would edit both descriptors)
            rows = typed_table(rng, [('v', 'integer'), ('w', 'string'), ('x', 'integer')], rng.choice([1, 5, 30]))
            fl = [{'name': 'id', 'type': 'integer'}, {'name': 'v', 'type': 'integer'}, {'name': 'w', 'type': 'string'},
                  {'name': 'x', 'type': 'integer'}]
            which = rng.choice(['t', 't2'])
            opk = rng.choice(['delete_fields', 'rename_fields', 'select_fields', 'set_type', 'add_field',
                              'add_computed_field', 'update_schema', 'set_primary_key', 'unpivot'])
            to_end = rng.random() < 0.5

            def twin_step():
                return {'delete_fields': lambda: d.delete_fields(['w'], resources=which),
                        'rename_fields': lambda: d.rename_fields({'w': 'w2'}, resources=which),
                        'select_fields': lambda: d.select_fields(['id', 'x'], resources=which),
                        'set_type': lambda: d.set_type('x', type='string', transform=lambda v: None if v is None else str(v),
                                                       resources=which),
                        'add_field': lambda: d.add_field('c', 'integer', 5, resources=which),
                        'add_computed_field': lambda: d.add_computed_field(
                            [{'target': 'c2', 'operation': 'sum', 'source': ['v', 'x']}], resources=which),
                        'update_schema': lambda: d.update_schema(which, missingValues=['', 'NA']),
                        'set_primary_key': lambda: d.set_primary_key(['id'], resources=which),
                        'unpivot': lambda: d.unpivot([{'name': 'v', 'keys': {'k': 'V'}}, {'name': 'x', 'keys': {'k': 'X'}}],
                                                     [{'name': 'k', 'type': 'string'}], {'name': 'val', 'type': 'integer'},
                                                     regex=False, resources=which)}[opk]()
            mk = lambda e: [lab.source('t', fl, rows), d.duplicate('t', 't2', duplicate_to_end=to_end), twin_step()]  # noqa
            label = 'twin_isolation/%s/%s' % (opk, 'copy' if which == 't2' else 'original')
        elif kind == 'load_package_extract_missing':
            # extract_missing_values on a data package source: the extra field is declared like for any other source
            with boot.quiet():
                d.Flow([{'a': 1, 'b': 'x'}, {'a': None, 'b': 'y'}, {'a': 3, 'b': None}], d.dump_to_path('emv')).process()
            opt = rng.choice([True, {'values': ['']}, {'target': 'mv'}])
            taken_ = rng.random() < 0.5
            # ... also when the flow already has a resource of that name (the loaded one gets a free name)
            pre_ = lambda: [lab.source('res_1', [{'name': 'z', 'type': 'integer'}], [{'z': 1}])] if taken_ else []     # noqa: E731
            mk = lambda e: pre_() + [d.load('emv/datapackage.json', extract_missing_values=copy.deepcopy(opt)), d.validate()]   # noqa
            label = 'load_package/extract_missing_values' + ('/name_taken' if taken_ else '')
        elif kind == 'pk_then_field_op':
            # a field-level step touches a primary-key field: the emitted primaryKey must keep naming declared fields
            rows = [{'id': i, 'v': i % 3, 'w': 'abc'[i % 3], 'x': i * 2} for i in range(rng.choice([1, 6, 30]))]
            fl = [{'name': 'id', 'type': 'integer'}, {'name': 'v', 'type': 'integer'}, {'name': 'w', 'type': 'string'},
                  {'name': 'x', 'type': 'integer'}]
            pk = rng.choice([['id'], ['id', 'v'], ['v', 'id'], ['w', 'id']])
            opk = rng.choice(['rename_fields', 'delete_fields', 'select_fields', 'unpivot', 'rename_other'])
            tail = rng.choice(['none', 'deduplicate'])
            kf = pk[0] if pk[0] != 'id' else (pk[-1] if len(pk) > 1 else 'id')

            def pk_step():
                return {'rename_fields': lambda: d.rename_fields({kf: 'KEY'}, regex=False),
                        'rename_other': lambda: d.rename_fields({'x': 'X'}, regex=False),
                        'delete_fields': lambda: d.delete_fields([kf], regex=False),
                        'select_fields': lambda: d.select_fields([n for n in ('id', 'v', 'w', 'x') if n != kf] if kf != 'id'
                                                                 else ['v', 'w', 'x'], regex=False),
                        'unpivot': lambda: d.unpivot([{'name': 'v', 'keys': {'k': 'V'}}, {'name': 'x', 'keys': {'k': 'X'}}],
                                                     [{'name': 'k', 'type': 'string'}], {'name': 'val', 'type': 'integer'},
                                                     regex=False)}[opk]()
            fk = rng.random() < 0.5
            fk_steps = [d.update_schema('t', foreignKeys=[{'fields': [kf], 'reference': {'resource': '', 'fields': ['id']}}])] \
                if fk else []
            mk = lambda e: [lab.source('t', fl, rows), d.set_primary_key(list(pk))] + copy.deepcopy(fk_steps) + [pk_step()] + \
                ([d.deduplicate()] if tail == 'deduplicate' else [])                               # noqa: E731
            label = 'pk_then_field_op/%s/%s%s' % (opk, tail, '/foreign_key' if fk else '')
        elif kind == 'rename_chain':
            rows = typed_table(rng, [('a', 'integer'), ('b', 'string'), ('c', 'number')], 6)
            fl = [{'name': 'id', 'type': 'integer'}, {'name': 'a', 'type': 'integer'}, {'name': 'b', 'type': 'string'},
                  {'name': 'c', 'type': 'number'}]
            mapping, rx = rng.choice([({'a': 'b', 'b': 'a'}, False), ({'a': 'b', 'b': 'c', 'c': 'a'}, False),
                                      ({'a': 'b', 'b': 'z'}, False), ({'b': 'z', 'a': 'b'}, True),
                                      ({'(a)': r'b', 'b': 'zz'}, True)])
            mk = lambda e: [lab.source('t', fl, rows), d.rename_fields(dict(mapping), regex=rx)]   # noqa: E731
            label = 'rename_chain/%d' % len(mapping)
        elif kind == 'multi_then_single':
            # one step edits several resources at once, a later step edits only one of them
            rows1 = typed_table(rng, [('v', 'integer')], 4)
            rows2 = typed_table(rng, [('v', 'integer')], 3)
            fl = [{'name': 'id', 'type': 'integer'}, {'name': 'v', 'type': 'integer'}]
            first = rng.choice(['add_field', 'add_computed_dict', 'add_computed_name', 'set_type_all', 'update_schema',
                                'unpivot_all', 'unpivot_all', 'add_field_options'])
            second = rng.choice(['set_type', 'rename_fields', 'delete_fields'])
            tgt = rng.choice(['r1', 'r2'])
            newf = 'd' if first.startswith('add') else 'v'
            if first == 'unpivot_all':
                newf = rng.choice(['val', 'k'])
                if newf == 'k' and second == 'set_type':
                    second = 'rename_fields'

            def s1():
                return {'add_field': lambda: d.add_field('d', 'integer', 5),
                        'add_computed_dict': lambda: d.add_computed_field(
                            [{'target': {'name': 'd', 'type': 'integer'}, 'operation': 'sum', 'source': ['v', 'id']}]),
                        'add_computed_name': lambda: d.add_computed_field(
                            [{'target': 'd', 'operation': 'sum', 'source': ['v', 'id']}]),
                        'unpivot_all': lambda: d.unpivot([{'name': 'v', 'keys': {'k': 'V'}}], [{'name': 'k', 'type': 'string'}],
                                                         {'name': 'val', 'type': 'integer'}, regex=False, resources=None),
                        'add_field_options': lambda: d.add_field('d', 'integer', 5, title='T', constraints={'minimum': 0}),
                        'set_type_all': lambda: d.set_type('v', type='number', resources=None),
                        'update_schema': lambda: d.update_schema(None, missingValues=['', 'NA'])}[first]()

            def s2():
                return {'set_type': lambda: d.set_type(newf, type='string', resources=tgt,
                                                       transform=lambda v: None if v is None else str(v)),
                        'rename_fields': lambda: d.rename_fields({newf: 'renamed'}, resources=tgt, regex=False),
                        'delete_fields': lambda: d.delete_fields([newf], resources=tgt, regex=False)}[second]()
            mk = lambda e: [lab.source('r1', fl, rows1), lab.source('r2', fl, rows2), s1(), s2()]   # noqa: E731
            label = 'multi_then_single/%s/%s' % (first, second)
        elif kind == 'duplicate_alias':
            rows = typed_table(rng, [('v', 'integer')], 5)
            fl = [{'name': 'id', 'type': 'integer'}, {'name': 'v', 'type': 'integer'}]
            mk = lambda e: [lab.source('t', fl, rows), d.duplicate('t', 't2'),                  # noqa: E731
                            d.add_field('c', 'integer', 5, resources='t')]
            label = 'duplicate+add_field'
        else:
            import csv
            path = 'c02_%d.csv' % case['idx']
            with open(path, 'w', newline='') as f:
                w = csv.writer(f)
                w.writerow(['a', 'b', 'c', 'd'])
                for i in range(rng.choice([1, 5, 120])):
                    w.writerow([i, rng.choice(['1.5', '2', '']), rng.choice(['2020-01-01', '1999-12-31']),
                                rng.choice(['x', 'y z', ''])])
            strat = rng.choice(['full', 'strings', 'pytypes'])
            cast = rng.choice(['nothing', 'schema', 'strings'])
            mk = lambda e: [d.load(path, infer_strategy=strat, cast_strategy=cast)]            # noqa: E731
            label = 'load_csv/%s/%s' % (strat, cast)
        prog = {'kind': label}
    elif fam == 'iterable':
        fl = rng.sample(sorted(TYPED), rng.randint(1, 5))
        n = rng.choice([1, 3, 99, 100, 101, 250])
        rows = [{'f_' + t: rng.choice(TYPED[t]) for t in fl} for _ in range(n)]
        mixed = rng.random() < 0.3
        if mixed:
            for r in rows:
                r['mix'] = rng.choice([1, 2.5, 'x', None, True])
        gen_form = rng.random() < 0.5
        mk = lambda e: [((dict(r) for r in rows) if gen_form else [dict(r) for r in rows])]   # noqa: E731
        label = 'iterable/' + '+'.join(fl) + ('/mixed' if mixed else '')
        prog = {'iterable_types': fl, 'rows': n, 'mixed': mixed}
    elif rng.random() < 0.5:
        # autoname: several sources whose automatic names coincide (files with the same base name in different
        # directories; sources(...) of several iterables, also after earlier resources) - with DIFFERENT schemas
        variant = rng.choice(['load_same_basename', 'load_same_file_twice', 'sources_iterables', 'sources_after_iterables',
                              'sources_mixed', 'load_package_same_name', 'load_tuple_same_name', 'concatenate_twice',
                              'duplicate_twice', 'load_tuple_suffixed_name_first', 'load_json_python_types'])
        its = [[{'id': i, 'v%d' % j: 'x' * (j + 1)} for i in range(2 + j)] for j in range(4)]

        def csv_at(dirname, j):
            os.makedirs(dirname, exist_ok=True)
            path = os.path.join(dirname, 'data.csv')
            with open(path, 'w') as f:
                f.write('id,w%d\n' % j + ''.join('%d,%s\n' % (i, 'abc'[j % 3]) for i in range(3 + j)))
            return path
        if variant == 'concatenate_twice':
            # two concatenate() steps that both use the default target name
            mk = lambda e: [copy.deepcopy(x) for x in its[:4]] + [                                  # noqa: E731
                d.concatenate({'id': []}, resources=['res_1', 'res_2']), d.concatenate({'id': []}, resources=['res_3', 'res_4']),
                d.validate()]
        elif variant == 'duplicate_twice':
            mk = lambda e: [copy.deepcopy(its[0]), d.duplicate(), d.duplicate(), d.validate()]      # noqa: E731
        elif variant == 'load_package_same_name':
            # a package saved by an earlier flow (its resource was auto-named res_1) is loaded after an iterable of this flow
            with boot.quiet():
                d.Flow([{'c': 1.5}, {'c': 2.5}], d.dump_to_path('saved')).process()
            mk = lambda e: [copy.deepcopy(its[0]), d.load('saved/datapackage.json'), d.validate()]   # noqa: E731
        elif variant == 'load_tuple_same_name':
            desc_ = {'resources': [{'name': 'res_1', 'path': 'res_1.csv',
                                    'schema': {'fields': [{'name': 'c', 'type': 'number'}]}}]}
            mk = lambda e: [copy.deepcopy(its[0]),                                                 # noqa: E731
                            d.load((copy.deepcopy(desc_), [iter([{'c': D('1.5')}, {'c': D('2.5')}])]), strip=False),
                            d.validate()]
        elif variant == 'load_tuple_suffixed_name_first':
            # the flow holds 'res_1'; the loaded package lists 'res_1_2' BEFORE its own 'res_1': the free name picked for the
            # second one must not be the first one's
            desc_ = {'resources': [{'name': 'res_1_2', 'path': 'a.csv', 'schema': {'fields': [{'name': 'c', 'type': 'number'}]}},
                                   {'name': 'res_1', 'path': 'b.csv', 'schema': {'fields': [{'name': 'e', 'type': 'string'}]}}]}
            mk = lambda e: [copy.deepcopy(its[0]),                                                 # noqa: E731
                            d.load((copy.deepcopy(desc_), [iter([{'c': D('1.5')}]), iter([{'e': 'x'}, {'e': 'y'}])]),
                                   strip=False), d.validate()]
        elif variant == 'load_json_python_types':
            # a JSON file hands over native values; INFER_PYTHON_TYPES declares what it finds (a boolean is not an integer)
            import json as json_
            with open('native.json', 'w') as f_:
                json_.dump([{'id': i, 'active': bool(i % 2), 'name': 'n%d' % i, 'score': i + 0.5} for i in range(4)], f_)
            mk = lambda e: [d.load('native.json', infer_strategy=d.load.INFER_PYTHON_TYPES,          # noqa: E731
                                   cast_strategy=d.load.CAST_DO_NOTHING)]
        elif variant == 'load_same_basename':
            mk = lambda e: [d.load(csv_at('y2019', 0)), d.load(csv_at('y2020', 1)), d.validate()]   # noqa: E731
        elif variant == 'load_same_file_twice':
            mk = lambda e: [d.load(csv_at('y2019', 0)), d.load(csv_at('y2019', 0)), d.validate()]   # noqa: E731
        elif variant == 'sources_iterables':
            mk = lambda e: [d.sources(*copy.deepcopy(its[:3])), d.validate()]                       # noqa: E731
        elif variant == 'sources_after_iterables':
            mk = lambda e: copy.deepcopy(its[:2]) + [d.sources(*copy.deepcopy(its[2:])), d.validate()]   # noqa: E731
        else:
            mk = lambda e: [copy.deepcopy(its[0]), d.sources(copy.deepcopy(its[1]), d.load(csv_at('y2019', 0)),  # noqa
                                                            copy.deepcopy(its[2])), d.validate()]
        label = 'autoname/' + variant
        prog = {'variant': variant}
    else:   # autoname: iterables appended after deletions / renames
        k = rng.choice([2, 3])
        its = [[{'id': i, 'v': j} for i in range(2)] for j in range(k + 1)]
        victim = rng.choice(['res_%d' % (i + 1) for i in range(k)])
        mk = lambda e: [copy.deepcopy(x) for x in its[:k]] + [d.delete_resource(victim), copy.deepcopy(its[k])]  # noqa
        label = 'autoname/delete_%s_of_%d' % (victim, k)
        prog = {'iterables': k, 'delete': victim, 'then_append': 1}
    if label:
        cov['op_x_type'][label] = 1

    def add(kind, msg, mech, **kw):
        viol.append(dict({'kind': kind, 'mech': mech, 'msg': '%s; pipeline %s' % (msg, gen.render(prog, 1200)),
                          'pipeline': prog}, **kw))
    # second use: a first pipeline is built from the specification objects and run; the pipelines examined below are
    # then built from the SAME objects (a step must neither depend on nor corrupt its caller's arguments)
    if boot.rng(case['seed'], 'C02', 'reuse', case['idx']).random() < 0.25:
        with lab.arg_reuse('record'):
            first_use = lab.run(mk(dsl.Env('r')))
        if first_use.ok:
            mk_fresh = mk

            def mk(e):
                with lab.arg_reuse('replay'):
                    return mk_fresh(e)
            label = (label or 'program') + '/second_use'
            cov['op_x_type']['second_use_of_the_same_specification_objects'] = 1
            counters['second_use_cases'] = 1
    # plain run (raw) and probed run
    plain = lab.run(mk(dsl.Env('a')))
    log = probes.Log()
    probed = lab.run(probes.interleave(mk(dsl.Env('b')), log))
    if not plain.ok and may_refuse and isinstance(getattr(plain.exc, 'cause', plain.exc), (AssertionError, ValueError, TypeError)):
        cov['op_x_type'][(label or 'program') + '/refused'] = 1
        counters['boundaries_probed'] += 1
        return dict(nontrivial=True, violations=viol, cov=cov, counters=counters, sample={'program': label})
    if not plain.ok:
        c = getattr(plain.exc, 'cause', plain.exc)
        add('pipeline_failed', 'well-typed pipeline failed: %s: %s' % (type(c).__name__, str(c)[:300]),
            '%s/%s' % (label or 'program', type(c).__name__))
        return dict(nontrivial=False, violations=viol, cov=cov, counters=counters)
    if plain.swallowed:
        add('pipeline_swallowed_error', 'run returned normally but logged: %s' % plain.swallowed[0][:300],
            '%s/swallowed' % (label or 'program'))
    # probe transparency (C05's differential as the probe's own soundness test)
    counters['probe_transparency_checked'] += 1
    if not probed.ok or probed.names != plain.names or any(
            lab.rows_diff(a, b, 1) for a, b in zip(plain.results, probed.results)):
        return dict(nontrivial=False, violations=viol, cov=cov, counters=counters,
                    inconclusive='probes changed the outcome of %r: %s' % (prog, probed.errstr() if not probed.ok else 'rows differ'))
    counters['boundaries_probed'] += len(log.boundaries)
    counters['cells_cast'] += log.cells_cast
    for k, v in log.nonnative.items():
        cov['nonnative_values_seen'][k] = cov['nonnative_values_seen'].get(k, 0) + v
    seen = set()
    for v in log.violations:
        mech = '%s/%s' % (label or 'program', v['kind'])
        if v['kind'] == 'invalid_value':
            mech += '/%s<-%s' % (v.get('ftype'), v.get('pytype'))
        if mech in seen:
            continue
        seen.add(mech)
        add(v['kind'], 'boundary %d: %s' % (v['boundary'], v['msg']), mech)
    # end of pipeline: validating results() and descriptor validity
    final = lab.run(mk(dsl.Env('c')), validate=True)
    if not final.ok:
        c = getattr(final.exc, 'cause', final.exc)
        if not log.violations:
            add('results_validation', 'results() failed validation: %s: %s' % (type(c).__name__, str(c)[:300]),
                '%s/results/%s' % (label or 'program', type(c).__name__))
    else:
        try:
            pk = datapackage.Package(final.dp)
            if not pk.valid:
                add('invalid_package', 'descriptor is not a valid Data Package: %s' % [str(e)[:150] for e in pk.errors][:3],
                    '%s/invalid_package' % (label or 'program'))
        except Exception as e:
            add('invalid_package', 'descriptor cannot be loaded as a Data Package: %s' % e,
                '%s/invalid_package' % (label or 'program'))
    rows_seen = sum(log.rows.values())
    return dict(nontrivial=bool(schema_changing and rows_seen), violations=viol, cov=cov, counters=counters,
                sample={'pipeline': prog, 'boundaries': len(log.boundaries), 'rows_at_probes': rows_seen})
