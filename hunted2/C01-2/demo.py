"""C01: what a dumper records in the descriptor (count_of_rows / bytes / hash, and the resource path
when add_filehash_to_path=True) is written during its ROW phase, after the package phase of every later
step has already copied the descriptor.  So Flow(data, dump_to_path(...), <any step>) ends with a
descriptor that differs from the one obtained by running the steps one at a time on the materialised
output of the previous one - a no-op step after the dumper changes the outcome."""
import os
import shutil
import sys
import tempfile

from dataflows import Flow, dump_to_path, DataStream, ResourceWrapper
from datapackage import Package


def noop(row):
    pass


def data():
    return [{'a': 1}, {'a': 2}, {'a': 3}]


def materialise(datastream):
    rows = [list(resource) for resource in datastream.res_iter]
    return datastream.dp.descriptor, rows


def feed(descriptor, rows):
    dp = Package(descriptor)
    return DataStream(dp, [ResourceWrapper(res, iter(r)) for res, r in zip(dp.resources, rows)])


def summary(descriptor):
    res = descriptor['resources'][0]
    return dict(
        package=dict((k, descriptor.get(k)) for k in ('count_of_rows', 'bytes', 'hash')),
        resource=dict((k, res.get(k)) for k in ('path', 'count_of_rows', 'bytes', 'hash')),
    )


def main():
    workdir = tempfile.mkdtemp()
    cwd = os.getcwd()
    os.chdir(workdir)
    try:
        # one step at a time, each on the fully materialised output of the previous one
        descriptor, rows = materialise(Flow(data()).datastream())
        descriptor, rows = materialise(Flow(dump_to_path('out1', add_filehash_to_path=True))
                                       .datastream(feed(descriptor, rows)))
        descriptor, rows_expected = materialise(Flow(noop).datastream(feed(descriptor, rows)))
        expected = summary(descriptor)

        # the same three steps chained
        rows_observed, dp, _ = Flow(data(), dump_to_path('out2', add_filehash_to_path=True), noop).results()
        observed = summary(dp.descriptor)

        # for reference: what the dumper wrote to disk
        on_disk = summary(Package('out2/datapackage.json').descriptor)
    finally:
        os.chdir(cwd)
        shutil.rmtree(workdir, ignore_errors=True)

    # bytes/hash of the package include the descriptor file itself: compare what is comparable
    for s in (expected, observed, on_disk):
        s['package'].pop('bytes'), s['package'].pop('hash')
    print('steps: [{a:1},{a:2},{a:3}], dump_to_path(dir, add_filehash_to_path=True), noop row function')
    print('rows equal                     :', rows_expected == rows_observed)
    print('expected (one step at a time)  :', expected)
    print('written datapackage.json       :', on_disk)
    print('observed (chained Flow)        :', observed)
    if observed == expected:
        print('OK: same descriptor')
        return 0
    print('VIOLATION: the chained flow ends with a descriptor without the row count / bytes / hash the '
          'dumper recorded, and with a resource path under which no file was written')
    return 1


if __name__ == '__main__':
    sys.exit(main())
