"""C07: Table Schema yearmonth / geopoint cells (and tuple cells in general) come back from a
checkpoint as plain lists, so the steps after the checkpoint see other rows on the resumed run."""
import contextlib
import io
import os
import shutil
import sys
import tempfile

from dataflows import Flow, checkpoint, deduplicate, filter_rows, load, set_primary_key, set_type


def pipeline(kind):
    steps = [
        load('months.csv', name='months'),
        set_type('month', type='yearmonth'),
        set_type('place', type='geopoint'),
        set_primary_key(['month']),
        checkpoint('typed'),
    ]
    if kind == 'deduplicate':
        steps.append(deduplicate())
    elif kind == 'filter':
        steps.append(filter_rows(equals=[{'month': (2020, 5)}]))
    elif kind == 'types':
        seen = []

        def look(row):
            seen.append((type(row['month']).__name__, type(row['place']).__name__))
        steps.append(look)
        return Flow(*steps), seen
    return Flow(*steps), None


def run(kind):
    if kind == 'tuple cell':
        # no step after the checkpoint at all: the result of the pipeline itself differs
        flow, seen = Flow([{'id': 1, 'pair': ('a', 'b')}], checkpoint('tuples')), None
    else:
        flow, seen = pipeline(kind)
    with contextlib.redirect_stdout(io.StringIO()):
        try:
            rows = flow.results()[0][0]
        except Exception as e:
            return 'EXCEPTION %r' % (e,)
    if seen is not None:
        return repr(sorted(set(seen)))
    if kind == 'tuple cell':
        return repr(rows)
    return repr([dict(id=r['id'], month=tuple(r['month'])) for r in rows])


def main():
    failed = False
    with tempfile.TemporaryDirectory() as tmp:
        os.chdir(tmp)
        try:
            with open('months.csv', 'w') as f:
                f.write('id,month,place\n1,2020-05,"10.5,20"\n2,1999-12,"-1.5,3"\n3,2020-05,"0,0"\n')
            for kind in ('types', 'deduplicate', 'filter', 'tuple cell'):
                shutil.rmtree('.checkpoints', ignore_errors=True)
                first = run(kind)      # computes from the source and saves the checkpoint
                resumed = run(kind)    # same pipeline again: resumes from the checkpoint
                print('--- after the checkpoint:', kind)
                print('expected (first run)  :', first)
                print('observed (resumed run):', resumed)
                if first != resumed:
                    failed = True
        finally:
            os.chdir('/')
    if failed:
        print('VIOLATION: the resumed run does not hand the same typed rows to the steps after the checkpoint')
        sys.exit(1)
    print('ok')


if __name__ == '__main__':
    main()
