#!/bin/bash
# fixguard.sh [slug...] : for every repaired defect recorded in known_findings.json, revert its fix commit on a scratch
# worktree of /repo HEAD and run the property's check there: the check must report a violation (the defect is guarded).
# Prints one line per fix: GUARDED / NOT-GUARDED / REVERT-CONFLICT.
set -u
V=${VERIF_HOME:-/verif}
python3 - "$@" <<'PY' > /tmp/fixguard-list.txt
import json, sys
kf = json.load(open('/verif/known_findings.json'))['findings']
want = set(sys.argv[1:])
for f in kf:
    if f['status'] == 'fixed' and f.get('commit') and (not want or f['slug'] in want):
        print(f['property'], f['commit'], f['slug'])
PY
while read prop commit slug; do
  wt=/tmp/fg-$$-$slug
  git -C /repo worktree add -q --detach $wt HEAD || continue
  if git -C $wt -c user.name=x -c user.email=x@x revert -n $commit >/dev/null 2>&1; then
    out=$(cd /tmp && VERIF_REPO=$wt VERIF_EVIDENCE_DIR=/tmp/fg-$$-ev /venv/bin/python $V/vcheck $prop --tier ${TIER:-quick} --jobs ${JOBS:-6} 2>/dev/null)
    if echo "$out" | grep -q '^VIOLATION'; then
      echo "$prop $commit $slug GUARDED: $(echo "$out" | grep -m1 -o 'kind=[^ ]* mech=[^ ]*')"
    else
      echo "$prop $commit $slug NOT-GUARDED"
    fi
  else
    echo "$prop $commit $slug REVERT-CONFLICT"
  fi
  git -C /repo worktree remove --force $wt 2>/dev/null; rm -rf $wt /tmp/fg-$$-ev
done < /tmp/fixguard-list.txt
