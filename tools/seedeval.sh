#!/bin/bash
# seedeval.sh <seed dir with patch.diff demo.py meta.json> [extra check ids...]
# Confirms the change (tests still pass, demo passes on original and fails on patched) and runs the property's check.
set -u
dir=$(readlink -f $1); shift
prop=$(python3 -c "import json;print(json.load(open('$dir/meta.json'))['property'])")
checks="$prop $*"
wt=/tmp/se-$$-$(basename $(dirname $dir))-$(basename $dir)
git -C /repo worktree add -q --detach $wt ${BASE:-HEAD} || exit 3
trap 'git -C /repo worktree remove --force '$wt' 2>/dev/null; rm -rf '$wt' /tmp/se-demo-$$' EXIT
git -C $wt apply $dir/patch.diff || { echo "PATCH DOES NOT APPLY"; exit 3; }
echo "== $dir ($prop): $(git -C $wt diff --stat | tail -1)"
mkdir -p /tmp/se-demo-$$/a /tmp/se-demo-$$/b
(cd /tmp/se-demo-$$/a && PYTHONPATH=/repo timeout 120 /venv/bin/python $dir/demo.py > /tmp/se-demo-$$/a.out 2>&1); ra=$?
(cd /tmp/se-demo-$$/b && PYTHONPATH=$wt timeout 120 /venv/bin/python $dir/demo.py > /tmp/se-demo-$$/b.out 2>&1); rb=$?
echo "demo: original exit=$ra patched exit=$rb : $(tail -1 /tmp/se-demo-$$/b.out | cut -c1-200)"
if [ "${SKIPTESTS:-0}" != "1" ]; then
  t=$(cd $wt && PYTHONPATH=$wt /venv/bin/python -m pytest -q -p no:cacheprovider -n 8 --timeout=900 tests 2>&1 | tail -1)
  echo "tests: $t"
fi
for c in $checks; do
  VERIF_REPO=$wt /venv/bin/python /verif/vcheck $c --tier ${TIER:-quick} > /tmp/se-$$-$c.log 2>&1; rc=$?
  echo "check $c tier=${TIER:-quick} exit=$rc: $(grep -m1 'kind=' /tmp/se-$$-$c.log | cut -c1-260)"
  rm -f /tmp/se-$$-$c.log
done
git -C /verif checkout -- evidence 2>/dev/null
