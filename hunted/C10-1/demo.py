"""C10: a string selector is documented as 'a regular expression matching resource names'.
A regular expression that starts with an inline global flag -- e.g. '(?i)res' -- is a perfectly
valid pattern (re.fullmatch('(?i)res', 'RES') matches), but every selector-taking step
raises on it instead of selecting the names it fully matches."""
import re
import sys
import io
import contextlib

from dataflows import (Flow, update_resource, add_field, filter_rows, delete_resource,
                       set_type, printer, validate)

NAMES = ['RES', 'res', 'res_1']          # 'res' is a prefix of 'res_1'
SELECTOR = '(?i)res'                      # valid regex: case-insensitive 'res'


def source():
    steps = []
    for j, name in enumerate(NAMES):
        steps.append([dict(a=i + 10 * j) for i in range(3)])
        steps.append(update_resource(-1, name=name, path=name + '.csv'))
    return steps


def run(*extra):
    with contextlib.redirect_stdout(io.StringIO()):
        rows, dp, _ = Flow(*source(), *extra).results()
    return {r['name']: ([f['name'] for f in r['schema']['fields']], rs)
            for r, rs in zip(dp.descriptor['resources'], rows)}


expected_names = [n for n in NAMES if re.fullmatch(SELECTOR, n)]
print('selector            :', repr(SELECTOR))
print('re.fullmatch selects:', expected_names)
assert expected_names == ['RES', 'res']

steps = {
    'add_field': lambda sel: add_field('d', 'integer', 7, resources=sel),
    'filter_rows': lambda sel: filter_rows(lambda row: row['a'] % 10 == 0, resources=sel),
    'delete_resource': lambda sel: delete_resource(sel),
    'set_type': lambda sel: set_type('a', type='number', resources=sel),
    'printer': lambda sel: printer(resources=sel),
    'validate': lambda sel: validate(resources=sel),
}

failed = False
for name, make in steps.items():
    # the reference: the same step with the list form of the same selection
    expected = run(make(list(expected_names)))
    try:
        observed = run(make(SELECTOR))
    except Exception as e:
        observed = 'raised %s: %s' % (type(e).__name__, str(e).splitlines()[0][:120])
    ok = observed == expected
    failed = failed or not ok
    print('%-16s expected: same result as resources=%r' % (name, expected_names))
    print('%-16s observed: %s' % ('', 'same result' if ok else observed))

# for contrast: the scoped spelling of the same pattern works
assert run(add_field('d', 'integer', 7, resources='(?i:res)')) == \
    run(add_field('d', 'integer', 7, resources=expected_names))

if failed:
    print('VIOLATION: a valid regular expression selector is rejected instead of selecting the '
          'names it fully matches')
    sys.exit(1)
print('ok')
