"""C15 - rename_fields(regex=False): the *new* name is still expanded as a regex replacement
template, so a literal new name containing a backslash is mangled or crashes the flow."""
import io
import sys
import contextlib
from dataflows import Flow, rename_fields

CASES = [
    # (old name, new literal name)
    ('price', 'price\\net'),       # '\n' in the template -> newline
    ('path',  'dir\\base'),        # '\b' -> backspace character
    ('a',     'a\\1'),             # looks like a group reference
    ('w',     'c:\\data\\w'),      # '\d' -> "bad escape"
    ('q',     'q\\\\z'),           # two backslashes collapse into one
]

failed = False
for old, new in CASES:
    data = [{old: 1, 'other': 'x'}, {old: 2, 'other': 'y'}]
    exp_fields = [new, 'other']
    exp_rows = [{new: 1, 'other': 'x'}, {new: 2, 'other': 'y'}]
    print('rename_fields({%r: %r}, regex=False)' % (old, new))
    print('   expected fields %r rows %r' % (exp_fields, exp_rows))
    try:
        with contextlib.redirect_stdout(io.StringIO()):
            res, dp, _ = Flow(data, rename_fields({old: new}, regex=False)).results()
        fields = [f['name'] for f in dp.descriptor['resources'][0]['schema']['fields']]
        rows = res[0]
        ok = fields == exp_fields and rows == exp_rows
        print('   observed fields %r rows %r  %s' % (fields, rows, 'ok' if ok else 'MISMATCH'))
        failed |= not ok
    except Exception as e:
        failed = True
        cause = getattr(e, 'cause', e)
        print('   observed: flow aborted with %s: %s' % (type(cause).__name__, cause))

if failed:
    print('VIOLATION: with regex=False the literal new field name is not used as given')
    sys.exit(1)
print('OK')
