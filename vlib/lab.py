"""pipeline-lab helpers: build sources, run flows, compare results type-strictly."""
import copy
import datetime
import decimal

from . import boot


class _DF:
    """The dataflows module as seen by the harness. Normally transparent. In 'record' mode every processor
    constructor call (except Flow / load, whose iterators are one-shot) is recorded with its argument OBJECTS; in
    'replay' mode the k-th constructor call receives the argument objects recorded for the k-th call of the record
    pass - i.e. a second pipeline is built from the very same specification objects a first pipeline was built from
    (and has possibly run on). This is how 'a step must not depend on / corrupt its caller's arguments' is observed
    with every existing oracle, without a per-processor harness."""
    mode = None
    calls = []
    pos = 0
    FRESH = ('Flow', 'load', 'checkpoint', 'ResourceWrapper', 'PackageWrapper', 'DataStream', 'DataStreamProcessor')

    def __getattr__(self, name):
        import dataflows
        real = getattr(dataflows, name)
        if _DF.mode is None or name in _DF.FRESH or not callable(real) or name[:1].isupper() or name.startswith('_'):
            return real

        def ctor(*a, **kw):
            if _DF.mode == 'record':
                _DF.calls.append((name, a, kw))
                return real(*a, **kw)
            k = _DF.pos
            _DF.pos += 1
            if k >= len(_DF.calls) or _DF.calls[k][0] != name:
                raise AssertionError('arg-reuse replay out of step at call %d (%s)' % (k, name))
            if not _plain_data((a, kw)):
                return real(*a, **kw)       # one-shot arguments (iterators, processor objects) are never re-used
            return real(*_DF.calls[k][1], **_DF.calls[k][2])
        for attr in dir(real):      # class-level constants such as load.INFER_STRINGS
            if attr.isupper():
                setattr(ctor, attr, getattr(real, attr))
        return ctor


def _plain_data(o, depth=0):
    import types
    if o is None or isinstance(o, (bool, int, float, str, bytes, decimal.Decimal, datetime.date, datetime.time,
                                   datetime.timedelta, types.FunctionType, types.BuiltinFunctionType, type)):
        return True
    if depth > 6:
        return False
    if isinstance(o, (list, tuple, set, frozenset)):
        return all(_plain_data(x, depth + 1) for x in o)
    if isinstance(o, dict):
        return all(_plain_data(k, depth + 1) and _plain_data(v, depth + 1) for k, v in o.items())
    return False


_df = _DF()


def df():
    return _df


class arg_reuse:
    """with arg_reuse('record'): build + run pipeline 1;  with arg_reuse('replay'): build pipeline 2 (same arg objects)."""

    def __init__(self, mode):
        self.mode = mode

    def __enter__(self):
        _DF.mode = self.mode
        if self.mode == 'record':
            _DF.calls = []
        _DF.pos = 0
        return self

    def __exit__(self, *a):
        _DF.mode = None
        return False


SECOND_RUN = {'on': False, 'reset': None, 'done': 0}


def second_run(on, reset=None):
    """When on, run() executes the SAME Flow object twice and reports the second execution (sources become re-runnable
    function steps; reset() clears harness-side logs between the two executions)."""
    SECOND_RUN.update(on=bool(on), reset=reset, done=0)


def source(name, fields, rows):
    """A source step with an explicit descriptor (no inference): load((descriptor, iterators))."""
    d = df()
    if SECOND_RUN['on']:
        rd = {'name': name, 'path': name + '.csv', 'profile': 'tabular-data-resource',
              'schema': {'fields': copy.deepcopy(fields)}}
        keep = copy.deepcopy(rows)

        def rerunnable_source(package):
            package.pkg.add_resource(copy.deepcopy(rd))
            yield package.pkg
            yield from package
            yield (copy.deepcopy(r) for r in keep)
        return rerunnable_source
    desc = {'resources': [{'name': name, 'path': name + '.csv', 'profile': 'tabular-data-resource',
                           'schema': {'fields': copy.deepcopy(fields)}}]}
    return d.load((desc, [iter(copy.deepcopy(rows))]), strip=False)


def shared_source(names, fields, tables):
    """ONE load((descriptor, iterators)) step whose resources are all described by the same schema dict OBJECT (what a
    caller gets from `schema = {...}; resources = [dict(name=n, schema=schema) for n in names]`)."""
    d = df()
    one_schema = {'fields': copy.deepcopy(fields)}
    desc = {'resources': [{'name': n, 'path': n + '.csv', 'profile': 'tabular-data-resource', 'schema': one_schema}
                          for n in names]}
    return d.load((desc, [iter(copy.deepcopy(tables[n])) for n in names]), strip=False)


class Outcome:
    """Result of running a flow: ok (results, descriptor, stats) or err (exception)."""

    def __init__(self, ok, results=None, dp=None, stats=None, exc=None, logged=()):
        self.ok, self.results, self.dp, self.stats, self.exc = ok, results, dp, stats, exc
        self.logged = list(logged)       # (level, message) log records emitted during the run

    @property
    def swallowed(self):
        """Error log lines of a run that returned normally (safe_process logs and swallows CastError)."""
        return [m for lvl, m in self.logged if lvl in ('ERROR', 'CRITICAL')]

    @property
    def names(self):
        return [r['name'] for r in self.dp.get('resources', [])]

    def by_name(self):
        return {r['name']: (r, rows) for r, rows in zip(self.dp.get('resources', []), self.results)}

    def errstr(self):
        e = self.exc
        c = getattr(e, 'cause', None)
        return '%s: %s' % (type(c or e).__name__, str(c or e)[:300])


def run(steps, validate=False, via='results'):
    """Run Flow(*steps). validate=False -> results(on_error=None): the raw emitted rows."""
    d = df()
    cap = None
    try:
        with boot.quiet() as cap:
            flow = d.Flow(*steps)
            if SECOND_RUN['on'] and via == 'results':
                try:
                    flow.results(on_error=None)
                except Exception:
                    pass
                SECOND_RUN['done'] += 1
                if SECOND_RUN['reset']:
                    SECOND_RUN['reset']()
            if via == 'results':
                if validate:
                    results, dp, stats = flow.results()
                else:
                    results, dp, stats = flow.results(on_error=None)
            elif via == 'datastream':
                ds = flow.datastream()
                results = [list(r) for r in ds.res_iter]
                dp, stats = ds.dp, ds.merge_stats()
            else:
                raise ValueError(via)
        return Outcome(True, results, copy.deepcopy(dp.descriptor), stats, logged=cap.records)
    except Exception as e:
        return Outcome(False, exc=e, logged=cap.records if cap else ())


NUM = (int, float, decimal.Decimal)


EXACT_DECIMALS = [False]


class exact_decimals:
    """with lab.exact_decimals(): Decimal('2.5') and Decimal('2.50') are different cells ("rows pass unchanged")."""
    def __enter__(self):
        self.old = EXACT_DECIMALS[0]
        EXACT_DECIMALS[0] = True

    def __exit__(self, *a):
        EXACT_DECIMALS[0] = self.old


def strict_eq(a, b):
    """Type-strict deep equality: 1 != True, 1 != 1.0, Decimal('1.0') != 1.0; dict key order ignored."""
    if type(a) is not type(b):
        return False
    if isinstance(a, decimal.Decimal) and a.is_nan():
        return b.is_nan()
    if isinstance(a, decimal.Decimal) and EXACT_DECIMALS[0]:
        return str(a) == str(b)
    if isinstance(a, dict):
        return a.keys() == b.keys() and all(strict_eq(a[k], b[k]) for k in a)
    if isinstance(a, (list, tuple)):
        return len(a) == len(b) and all(strict_eq(x, y) for x, y in zip(a, b))
    if isinstance(a, float):
        return a == b or (a != a and b != b)
    if isinstance(a, datetime.datetime):
        return a == b and a.utcoffset() == b.utcoffset() if (a.tzinfo and b.tzinfo) else \
            (a.tzinfo is None) == (b.tzinfo is None) and a == b
    return a == b


def value_eq(a, b):
    """Equality that does not demand Python-type preservation of numbers (float 0.5 == Decimal('0.5'),
    Decimal('1E+300') == 1e300 because both denote the same double); everything else strict."""
    if isinstance(a, bool) or isinstance(b, bool):
        return type(a) is type(b) and a == b
    if isinstance(a, NUM) and isinstance(b, NUM):
        if a != a or b != b:        # NaN (float or Decimal) equals NaN here
            return a != a and b != b
        if isinstance(a, float) or isinstance(b, float):
            try:
                return float(a) == float(b)
            except OverflowError:
                return False
        return a == b
    if isinstance(a, dict) and isinstance(b, dict):
        return a.keys() == b.keys() and all(value_eq(a[k], b[k]) for k in a)
    if isinstance(a, (list, tuple)) and isinstance(b, (list, tuple)):
        return len(a) == len(b) and all(value_eq(x, y) for x, y in zip(a, b))
    return strict_eq(a, b)


def rows_diff(exp, got, limit=3, keyorder=False):
    """-> list of short difference descriptions (empty if equal)."""
    out = []
    if len(exp) != len(got):
        out.append('row count expected %d got %d' % (len(exp), len(got)))
    for i, (e, g) in enumerate(zip(exp, got)):
        if not strict_eq(e, g) or (keyorder and list(e) != list(g)):
            out.append('row %d expected %r got %r' % (i, e, g))
            if len(out) >= limit:
                break
    return out


def fields_of(res_desc):
    return [(f['name'], f.get('type')) for f in res_desc.get('schema', {}).get('fields', [])]
