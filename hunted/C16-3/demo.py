"""C16: concatenate emits ALL rows of the selected resources, mapped onto the target fields with nulls
for absent ones; no row is lost.

A perfectly valid row whose mapped cells are all null (e.g. the only column kept by the field mapping is
null in that row, or the row is entirely null) makes concatenate abort the whole flow with
"Got an empty row after concatenation" instead of emitting the row with nulls.
"""
import sys
from dataflows import Flow, concatenate

failures = []


def check(title, resources, fields, expected):
    print('---', title)
    print('expected :', expected)
    try:
        results, dp, _ = Flow(*resources, concatenate(fields, {'name': 'all', 'path': 'all.csv'})).results()
        observed = results[0]
        print('observed :', observed)
        if observed != expected:
            failures.append(title)
    except Exception as e:
        print('observed : flow failed with %s: %s' % (type(e).__name__, e))
        failures.append(title)


# 1. The mapping keeps the columns 'id' and 'name'; the second resource has no 'id' and one null name.
check('row whose mapped cells are all null',
      [[{'id': 1, 'name': 'x'}],
       [{'name': 'y', 'extra': 1}, {'name': None, 'extra': 2}, {'name': 'z', 'extra': 3}]],
      {'id': [], 'name': []},
      [{'id': 1, 'name': 'x'}, {'id': None, 'name': 'y'}, {'id': None, 'name': None}, {'id': None, 'name': 'z'}])

# 2. A row that is null in every column.
check('entirely null row',
      [[{'a': 1, 'b': 'x'}, {'a': None, 'b': None}], [{'a': 3, 'b': 'y'}]],
      {'a': [], 'b': []},
      [{'a': 1, 'b': 'x'}, {'a': None, 'b': None}, {'a': 3, 'b': 'y'}])

if failures:
    print('VIOLATION: concatenate did not pass on rows whose mapped cells are all null:', failures)
    sys.exit(1)
print('OK')
