"""C17: unpivot keeps a primary key made of kept fields although it multiplies every key value,
so unpivot -> deduplicate (both C17 steps) silently loses cells.

A wide table keyed by `id` is unpivoted into (id, year, value).  Every source row now appears once
per unpivoted field, so `id` alone no longer identifies a row - but unpivot leaves
`primaryKey: ['id']` in the schema it declares (it only drops the key when one of its fields was
unpivoted).  deduplicate(), doing exactly what it is documented to do with the declared key, then
discards all but the first cell of every source row; the dumped package cannot be load()ed either.
"""
import os
import shutil
import sys
import tempfile

from dataflows import Flow, set_primary_key, unpivot, deduplicate, dump_to_path, load

data = [
    {'id': 1, '2000': 'a1', '2001': 'b1', '2002': 'c1'},
    {'id': 2, '2000': 'a2', '2001': 'b2', '2002': 'c2'},
]


def unpivot_step():
    # the example of PROCESSORS.md
    return unpivot([{'name': '([0-9]{4})', 'keys': {'year': r'\1'}}],
                   [{'name': 'year', 'type': 'year'}],
                   {'name': 'value', 'type': 'string'})


failed = False

# what unpivot alone emits (correct rows) and the key it declares for them
rows, dp, _ = Flow(data, set_primary_key(['id']), unpivot_step()).results()
rows = rows[0]
pk = dp.descriptor['resources'][0]['schema'].get('primaryKey')
key_values = [tuple(r[k] for k in pk) for r in rows] if pk else []
print('unpivot emitted %d rows, declared primaryKey = %r' % (len(rows), pk))
print('expected: the declared key (if any) identifies the emitted rows, e.g. none or [id, year]')
print('observed: key values of the emitted rows:', key_values)
if pk and len(set(key_values)) != len(key_values):
    print('VIOLATION: the schema unpivot declares has a primary key that its own rows violate')
    failed = True

# consequence 1: the two C17 steps composed lose cells
cells_in = sorted(v for r in data for k, v in r.items() if k != 'id')
out = Flow(data, set_primary_key(['id']), unpivot_step(), deduplicate()).results()[0][0]
cells_out = sorted(r['value'] for r in out)
print('--- unpivot -> deduplicate')
print('expected cells:', cells_in)
print('observed cells:', cells_out)
if cells_in != cells_out:
    print('VIOLATION: %d of %d cells lost' % (len(cells_in) - len(cells_out), len(cells_in)))
    failed = True

# consequence 2: the package written from unpivot's output cannot be read back
tmp = tempfile.mkdtemp(prefix='c17-unpivot-pk-')
try:
    Flow(data, set_primary_key(['id']), unpivot_step(), dump_to_path(os.path.join(tmp, 'out'))).process()
    print('--- unpivot -> dump_to_path -> load')
    print('expected: %d rows read back' % len(rows))
    try:
        back = Flow(load(os.path.join(tmp, 'out', 'datapackage.json'))).results()[0][0]
        print('observed: %d rows' % len(back))
        if len(back) != len(rows):
            failed = True
    except Exception as e:
        print('observed: exception %r' % (e,))
        print('VIOLATION')
        failed = True
finally:
    shutil.rmtree(tmp, ignore_errors=True)

sys.exit(1 if failed else 0)
