"""C15: add_computed_field 'avg' over integer fields is computed in binary floating point.

'avg' is documented as "average value from given columns in a row" and declares a 'number'
field.  Table Schema integers / numbers are arbitrary precision (python int / Decimal), and
'avg' over number (Decimal) fields is exact.  Over integer fields, however, the value is
sum(values) / len(values) with python's true division, i.e. a float:
  1. integers beyond 2**53 give an average that is not the average of the row (the average of
     n and n is not n),
  2. integers beyond the float range make the flow fail with OverflowError,
  3. the float cell cannot be combined with any other 'number' cell (Decimal) by a later
     'sum' / 'avg' / 'multiply' of the same processor: TypeError.
"""
import sys
import decimal
import fractions

from dataflows import Flow, add_computed_field


def run(rows, *steps):
    seen = []

    def capture(row):
        seen.append(dict(row))

    dp, _ = Flow(rows, *steps, capture).process()
    types = dict((f['name'], f['type']) for f in dp.descriptor['resources'][0]['schema']['fields'])
    return types, seen


def attempt(rows, *steps):
    try:
        return run(rows, *steps)
    except Exception as e:
        return 'raised %r (cause: %r)' % (e, e.__cause__), None


failed = False

# 1 + 2: the value is not the average of the row
for n in (2 ** 53 + 1, 12345678901234567890123, 10 ** 400):
    rows = [{'a': n, 'b': n}]
    exact = fractions.Fraction(n + n, 2)       # = n
    types, seen = attempt(rows, add_computed_field(target='mean', operation='avg', source=['a', 'b']))
    label = str(n) if n < 10 ** 30 else '10**400'
    print('avg(n, n) for n = %s' % label)
    print('  expected: a number equal to n')
    if seen is None:
        print('  observed:', types[:160], '<-- VIOLATION')
        failed = True
    else:
        got = seen[0]['mean']
        ok = fractions.Fraction(got) == exact
        print('  observed: %r (%s), off by %s %s'
              % (got, types['mean'], fractions.Fraction(got) - exact, '' if ok else '<-- VIOLATION'))
        failed = failed or not ok

# control: the same over number (Decimal) fields is exact
n = decimal.Decimal(2 ** 53 + 1)
with decimal.localcontext() as ctx:
    ctx.prec = 60
    types, seen = attempt([{'a': n, 'b': n}],
                          add_computed_field(target='mean', operation='avg', source=['a', 'b']))
print('control, Decimal cells: avg(n, n) =', seen[0]['mean'], '(exact: %s)' % (seen[0]['mean'] == n))

# 3: the computed 'number' cannot be used with another 'number'
rows = [{'a': 1, 'b': 2, 'weight': decimal.Decimal('2.5')}]
types, seen = attempt(
    rows,
    add_computed_field([
        dict(target='mean', operation='avg', source=['a', 'b']),
        dict(target='weighted', operation='multiply', source=['mean', 'weight']),
    ]))
print("avg(a, b) -> 'mean' (number), then multiply(mean, weight) with weight a number (Decimal) field")
print('  expected: weighted == 3.75')
if seen is None:
    print('  observed:', types[:200], '<-- VIOLATION')
    failed = True
else:
    print('  observed:', seen[0])
    failed = failed or seen[0]['weighted'] != decimal.Decimal('3.75')

if failed:
    print("\nVIOLATION: the computed 'avg' does not equal the average of the row's integer cells / "
          "is a float that other number cells cannot be combined with")
    sys.exit(1)
print('no violation')
