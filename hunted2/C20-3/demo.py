"""C20: the updated / updated-id columns are put into the rows but not declared in the schema,
so the rows that continue downstream no longer match their resource and later steps break."""
import os
import shutil
import sys
import tempfile

from dataflows import Flow, dump_to_path, dump_to_sql, update_resource

tmp = tempfile.mkdtemp()
engine = 'sqlite:///' + os.path.join(tmp, 'a.db')
tables = {'t': {'resource-name': 'res', 'mode': 'update', 'update_keys': ['k']}}


def sql_dump():
    return dump_to_sql(dict((k, dict(v)) for k, v in tables.items()), engine=engine,
                       updated_column='was_updated', updated_id_column='updated_id')


violated = False
try:
    Flow([{'k': 1, 'v': 'old'}], update_resource(-1, name='res'), sql_dump()).process()

    rows, dp, _ = Flow([{'k': 1, 'v': 'new'}, {'k': 2, 'v': 'new'}],
                       update_resource(-1, name='res'), sql_dump()).results()
    declared = [f['name'] for f in dp.descriptor['resources'][0]['schema']['fields']]
    print('rows after dump_to_sql :', rows[0])
    print('fields declared        :', declared)
    undeclared = sorted(set(rows[0][0]) - set(declared))
    print('expected: every key of the rows is a declared field (the flags are "added to the output data")')
    print('observed: undeclared keys', undeclared)
    violated |= bool(undeclared)

    print('expected: a later dump_to_path writes the rows including the flags')
    try:
        Flow([{'k': 1, 'v': 'newer'}, {'k': 3, 'v': 'newer'}],
             update_resource(-1, name='res'), sql_dump(),
             dump_to_path(os.path.join(tmp, 'out'))).process()
        text = open(os.path.join(tmp, 'out', 'res.csv')).read()
        print('observed: res.csv =', repr(text))
        violated |= 'was_updated' not in text
    except Exception as e:
        violated = True
        print('observed: %s: %s' % (type(e).__name__, str(e).splitlines()[0]))
finally:
    shutil.rmtree(tmp, ignore_errors=True)

sys.exit(1 if violated else 0)
