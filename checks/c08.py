"""C08 An interrupted checkpoint is never used.

crash-lab: every I/O event (makedirs, open, each write, each flush, each blank-line write, close,
rename, and the point after the last event) of one checkpoint-writing run is a crash point, in two
modes: the process is killed there (os._exit(137): user-space buffers lost) or an OSError is raised
there; plus a downstream step failing at row k. Post-crash monitor: any stream.ndjson found must be
complete (independent ndjson reader vs the uninterrupted baseline); then a recovery run in a fresh
process must equal the baseline and must recompute from the sources iff no complete checkpoint exists.
"""
import copy
import os
import shutil

from vlib import boot, crashlab, gen, iolab, lab

PROPERTY = 'C08'
LEVEL = 'fault_enumeration'
EXHAUSTIVE = None
RULE = ('configurations: 1..3 resources x {0,1,2,5,101} rows x one / two chained checkpoints x stale .active file '
        'present or not; for each configuration EVERY event index of the recorded I/O trace (+ the point after the '
        'last event) is used as a kill point and as an OSError point, and a downstream failing step is placed at '
        'first/middle/last row and at exhaustion; distinct = (configuration, event index, mode); non-trivial = the '
        'interruption really happened at that event (exit status 137 / error raised) and the post-crash monitor and '
        'the recovery run both ran')
ASSUMPTIONS = [
    'kill = SIGKILL semantics: bytes already written to the OS survive, user-space buffers are lost; durability '
    'across power loss (no fsync) is outside "the process dies"',
    'events are Python-level I/O calls of dataflows.processors.stream (quick); syscall-level kills via strace in '
    'the thorough tier',
]
REQUIRED_COUNTERS = ['crash_points_executed', 'recoveries_compared']
CASE_TIMEOUT = 900
F = [{'name': 'id', 'type': 'integer'}, {'name': 't', 'type': 'string'}]


def gen_cases(tier, seed):
    i = 0
    sizes = [[0], [1], [2], [5], [101], [2, 0], [0, 3], [5, 1, 2], [1, 101]] if tier == 'quick' else \
        [[0], [1], [2], [5], [101], [2, 0], [0, 3], [5, 1, 2], [1, 101], [0, 0, 0], [3, 3, 3], [101, 5], [1, 1, 1]]
    for sz in sizes:
        for ncp in (1, 2):
            for stale in (False, True):
                if tier == 'quick' and stale and (len(sz) > 1 or ncp == 2):
                    continue
                for mode in ('kill', 'raise', 'downstream', 'retry', 'swallowed'):
                    i += 1
                    yield {'family': 'cp%d/%s' % (ncp, mode), 'sizes': sz, 'ncp': ncp, 'stale': stale, 'idx': i,
                           'seed': seed, 'tier': tier, 'mode': mode}
    # the first resource has no fields left when it reaches the checkpoint (its rows are empty mappings)
    for sz in ([5, 1, 2], [2, 3]):
        for mode in ('kill', 'downstream'):
            i += 1
            yield {'family': 'cp1/%s/fieldless' % mode, 'sizes': sz, 'ncp': 1, 'stale': False, 'idx': i, 'seed': seed,
                   'tier': tier, 'mode': mode, 'fieldless': True}
    for sz in sizes:
        if sum(sz):
            for rep in range(1 if tier == 'quick' else 4):
                i += 1
                yield {'family': 'stream_path/retry', 'sizes': sz, 'ncp': 1, 'stale': False, 'idx': i, 'seed': seed,
                       'tier': tier, 'mode': 'stream_retry'}


def tables_for(sizes):
    return [[{'id': r * 1000 + i, 't': 'row-%d-%d é' % (r, i)} for i in range(n)] for r, n in enumerate(sizes)]


FIELDLESS = [False]


def make_flow(tables, ncp, cpdir, cnt, fail_at=None, src_fail=None, up_fail=None, early_stop=False):
    d = lab.df()

    def source(i):
        def g():
            for n, row in enumerate(copy.deepcopy(tables[i])):
                if src_fail is not None and src_fail[:2] == (i, n):
                    if len(src_fail) == 3:
                        # not the source, the WRITER fails: a cell the stream encoding refuses
                        row = dict(row, t=b'\x00 raw bytes')
                    else:
                        raise IOError('source failed (connection reset)')
                cnt['pulled'] += 1
                yield row
        return g()
    desc = {'resources': [{'name': 'res%d' % i, 'path': 'res%d.csv' % i, 'schema': {'fields': copy.deepcopy(F)}}
                          for i in range(len(tables))]}
    steps = [d.load((desc, [source(i) for i in range(len(tables))]), strip=False),
             d.add_field('a', 'integer', 1)]
    if isinstance(up_fail, tuple) and up_fail[0] == 'row_fn_stop_iteration':
        # a ROW FUNCTION in front of the checkpoints that lets a StopIteration escape (a bare next() on an exhausted
        # iterator) at some row: a failure like any other - it must not look like the end of the resource
        seen_ = {'n': 0}

        def lookup(row):
            seen_['n'] += 1
            if seen_['n'] == up_fail[1] + 1:
                next(iter(()))
        steps.append(lookup)
    elif up_fail is not None:
        # a step IN FRONT of the checkpoints whose end-of-stream work fails: after the last row of the last resource
        # ('res_end') or after the last resource ('pkg_end') - every row has passed the checkpoint writer by then
        def finishing(package):
            yield package.pkg
            last = len(tables) - 1
            for j, res in enumerate(package):
                def it(res=res, j=j):
                    yield from res
                    if up_fail == 'res_end' and j == last:
                        raise RuntimeError('upstream step failed in its end-of-stream work')
                yield it()
            if up_fail == 'pkg_end':
                raise RuntimeError('upstream step failed after its last resource')
        steps.append(finishing)
    if FIELDLESS[0]:
        steps.append(d.delete_fields(['id', 't', 'a'], resources='res0'))
    steps.append(d.checkpoint('c0', checkpoint_path=cpdir))
    if ncp == 2:
        steps += [d.add_field('b', 'string', 'x'), d.checkpoint('c1', checkpoint_path=cpdir)]
    if fail_at is not None:
        res_j, row_k = fail_at

        def failing(package):
            yield package.pkg
            for j, res in enumerate(package):
                def it(res=res, j=j):
                    n = 0
                    for row in res:
                        if j == res_j and n == row_k:
                            raise RuntimeError('downstream step failed')
                        n += 1
                        yield row
                    if j == res_j and row_k == 'end':
                        raise RuntimeError('downstream step failed at exhaustion')
                yield it()
        steps.append(failing)
    if src_fail is not None:
        def tolerant(rows):
            # a fault-tolerant consumer after the checkpoint: gives up on the resource whose source broke, goes on
            try:
                yield from rows
            except Exception:
                pass
        steps.append(tolerant)
    if early_stop == 'close':
        def first_row_then_close(rows):
            # ... and, being a good citizen, closes the row iterator it was handed when it is done with it
            it = iter(rows)
            try:
                yield next(it)
            except StopIteration:
                return
            finally:
                if hasattr(it, 'close'):
                    it.close()
        steps.append(first_row_then_close)
    elif early_stop:
        import itertools

        def first_row_only(rows):
            # a later step that stops reading every resource after its first row - during the SAVING run
            return itertools.islice(rows, 1)
        steps.append(first_row_only)
    steps.append(d.add_field('z', 'integer', 9))
    return steps


def run_stream_retry(case):
    """stream('<path>') - the step behind checkpoint - used directly: ONE Flow object is run, fails while the stream file is
    being written (a step upstream or downstream fails once), and is simply run again. The committed file must hold exactly
    the stream of the successful run."""
    d = lab.df()
    rng = boot.rng(case['seed'], 'C08', 'stream_retry', case['idx'])
    sizes = case['sizes']
    tables = tables_for(sizes)
    nz = [j for j, n in enumerate(sizes) if n]
    fj = rng.choice(nz)
    fk = rng.choice(sorted({0, sizes[fj] // 2, sizes[fj] - 1}))
    where = rng.choice(['upstream', 'downstream'])
    # the retry: the same Flow object again, or a FRESH flow while the failed attempt (its exception, hence its suspended
    # generators) is let go of only during the retry's saving
    retry_with = boot.rng(case['seed'], 'C08', 'stream_retry/with', case['idx']).choice(['same_flow', 'fresh_flow_old_attempt_released_meanwhile'])
    cfg = {'sizes': sizes, 'fails_once_at': [fj, fk], 'failing_step': where, 'retry': retry_with}
    state = {'armed': True, 'held': None}

    def src(package):
        for i in range(len(tables)):
            package.pkg.add_resource({'name': 'res%d' % i, 'path': 'res%d.csv' % i, 'schema': {'fields': copy.deepcopy(F)}})
        yield package.pkg
        yield from package
        for t in tables:
            yield (copy.deepcopy(r) for r in t)

    def failing_once(package):
        yield package.pkg
        for j, res in enumerate(package):
            def it(res=res, j=j):
                for n, row in enumerate(res):
                    if state['armed'] and j == fj and n == fk:
                        state['armed'] = False
                        raise RuntimeError('step failed (first attempt only)')
                    yield row
            yield it()

    def release_old(package):
        # the caller lets go of the failed attempt's exception while this run is streaming
        yield package.pkg
        for res in package:
            def it(res=res):
                for n, row in enumerate(res):
                    if n == 0 and state['held'] is not None:
                        import gc
                        state['held'] = None
                        gc.collect()
                    yield row
            yield it()

    def build(path, failing, releasing=False):
        mid = [d.stream(path)]
        if failing:
            mid = [failing_once] + mid if where == 'upstream' else mid + [failing_once]
        if releasing:
            mid = mid + [release_old]
        return d.Flow(src, *mid, d.add_field('z', 'integer', 9))
    counters = {'crash_points_executed': 1, 'recoveries_compared': 0, 'unshimmed_events': 0,
                'complete_checkpoints_found': 0, 'partial_files_found': 0}
    viol = []
    with boot.quiet():
        build('clean/s.ndjson', False).process()
    want = open('clean/s.ndjson').read()
    flow = build('retry/s.ndjson', True)
    first_failed = False
    try:
        with boot.quiet():
            flow.process()
    except Exception as e0:
        first_failed = True
        if retry_with != 'same_flow':
            state['held'] = e0
    if not first_failed:
        return dict(nontrivial=False, violations=[], cov={'crash_event_kind': {}, 'mode': {}}, counters=counters,
                    inconclusive='the failing first attempt did not fail')
    if os.path.exists('retry/s.ndjson'):
        viol.append({'kind': 'checkpoint_committed_on_failure', 'mech': 'stream_path/committed_on_failure', 'config': cfg,
                     'msg': '%r: the failed attempt left a committed stream file' % cfg})
    err = None
    if retry_with != 'same_flow':
        flow = build('retry/s.ndjson', False, releasing=True)
    try:
        with boot.quiet():
            flow.process()
    except Exception as e:
        err = e
    counters['recoveries_compared'] += 1
    if err is not None:
        viol.append({'kind': 'recovery_failed', 'mech': 'stream_path/retry_failed', 'config': cfg,
                     'msg': '%r: the retry of the same Flow failed: %s' % (cfg, str(getattr(err, 'cause', err))[:200])})
    else:
        got = open('retry/s.ndjson').read() if os.path.exists('retry/s.ndjson') else None
        if got != want:
            sdesc, sres, complete, problems = iolab.parse_ndjson(got or '')
            viol.append({'kind': 'checkpoint_content', 'mech': 'stream_path/retry_content', 'config': cfg,
                         'msg': '%r: after the retry the committed stream file differs from the stream of a clean run: '
                         '%d vs %d bytes, complete=%s %s' % (cfg, len(got or ''), len(want), complete, problems[:2])})
    return dict(nontrivial=True, violations=viol, counters=counters,
                cov={'crash_event_kind': {}, 'mode': {'stream_path_retry_%s/%s' % (retry_with, where): 1}}, sample={'config': cfg})


def run_case(case):
    if case['mode'] == 'stream_retry':
        return run_stream_retry(case)
    d = lab.df()
    counters = {'crash_points_executed': 0, 'recoveries_compared': 0, 'unshimmed_events': 0,
                'complete_checkpoints_found': 0, 'partial_files_found': 0}
    cov = {'crash_event_kind': {}, 'mode': {}}
    viol = []
    tables = tables_for(case['sizes'])
    total = sum(case['sizes'])
    ncp = case['ncp']
    FIELDLESS[0] = bool(case.get('fieldless'))
    scratch = os.getcwd()
    cfg = {'sizes': case['sizes'], 'checkpoints': ncp, 'stale_active': case['stale']}
    seen = set()

    def add(kind, msg, mech):
        if mech in seen:
            return
        seen.add(mech)
        viol.append({'kind': kind, 'mech': mech, 'msg': '%r: %s' % (cfg, msg), 'config': cfg})

    def summarize(results, dp):
        return {'names': [r['name'] for r in dp['resources']],
                'fields': [[f['name'] for f in r['schema']['fields']] for r in dp['resources']],
                'rows': [[sorted(row.items()) for row in res] for res in results]}

    def run_plain(cpdir, fail_at=None, src_fail=None, up_fail=None, early_stop=False):
        cnt = {'pulled': 0}
        out = lab.run(make_flow(tables, ncp, cpdir, cnt, fail_at, src_fail, up_fail, early_stop), validate=True)
        rep = {'ok': out.ok, 'pulled': cnt['pulled']}
        if out.ok:
            rep['summary'] = summarize(out.results, out.dp)
        else:
            rep['error'] = out.errstr()
        return rep

    # baseline (uninterrupted), in a child so that it shares nothing with later runs
    code, base = crashlab.in_child(lambda: run_plain('base'), os.path.join(scratch, 'rep.json'))
    assert code == 0 and base and base['ok'], (code, base)
    base_rows_at = {}       # checkpoint name -> expected rows per resource (from the complete baseline files)
    for k in range(ncp):
        text = open(os.path.join('base', 'c%d' % k, 'stream.ndjson')).read()
        sdesc, sres, complete, problems = iolab.parse_ndjson(text)
        assert complete, problems
        base_rows_at['c%d' % k] = sres

    # recording pass
    def record():
        plan = crashlab.Plan('record')
        crashlab.install(plan, scratch)
        rep = run_plain('rec')
        rep['trace'] = list(plan.trace)
        rep['unshimmed'] = list(plan.unshimmed)     # snapshot: the harness' own report file is opened later
        return rep
    code, rec = crashlab.in_child(record, os.path.join(scratch, 'rep.json'))
    assert code == 0 and rec and rec['ok'], (code, rec)
    trace = rec['trace']
    K = len(trace)
    counters['unshimmed_events'] += len(rec['unshimmed'])     # audit-level events (also crash points)

    def post_crash(cpdir, what):
        """-> set of checkpoints that are complete on disk; reports partial/incomplete stream.ndjson."""
        complete_ones = set()
        for k in range(ncp):
            fn = os.path.join(cpdir, 'c%d' % k, 'stream.ndjson')
            if os.path.exists(fn + '.active'):
                counters['partial_files_found'] += 1
            if not os.path.exists(fn):
                continue
            sdesc, sres, complete, problems = iolab.parse_ndjson(open(fn).read())
            if not complete:
                add('incomplete_checkpoint_visible', '%s: c%d/stream.ndjson exists but is incomplete: %s'
                    % (what, k, problems), 'incomplete_visible')
            elif sres != base_rows_at['c%d' % k]:
                add('checkpoint_content', '%s: c%d/stream.ndjson is well-formed but holds %r rows, baseline %r'
                    % (what, k, [len(x) for x in sres], [len(x) for x in base_rows_at['c%d' % k]]), 'content')
            else:
                complete_ones.add(k)
                counters['complete_checkpoints_found'] += 1
        return complete_ones

    def reader_flow(cpdir):
        # the documented idiom of a second flow that starts from the checkpoint: Flow(checkpoint(name), ...)
        d_ = lab.df()
        # (also with the documented resources= option: it selects among what the checkpoint holds)
        kw_ = boot.rng(case['seed'], 'C08', 'reader_kw', cpdir).choice([{}, {}, {'resources': ['res0']}, {'resources': 'res0'}])
        out = lab.run([d_.checkpoint('c%d' % (ncp - 1), checkpoint_path=cpdir, **kw_), d_.update_package(title='reader')])
        return {'ok': out.ok, 'rows': [len(r) for r in out.results] if out.ok else None}

    def recover(cpdir, complete_before, what):
        if (ncp - 1) not in complete_before and boot.rng(case['seed'], 'C08', 'reader', what).random() < 0.5:
            # no usable last checkpoint: a reader flow must not create one out of nothing
            crashlab.in_child(lambda: reader_flow(cpdir), os.path.join(scratch, 'rep.json'))
            cov['mode']['reader_flow_after_interruption'] = cov['mode'].get('reader_flow_after_interruption', 0) + 1
            now = post_crash(cpdir, what + ', then a reader flow Flow(checkpoint(name), ...)')
            complete_before = set(complete_before) | now
        code, rep = crashlab.in_child(lambda: run_plain(cpdir), os.path.join(scratch, 'rep.json'))
        counters['recoveries_compared'] += 1
        if code != 0 or not rep or not rep.get('ok'):
            add('recovery_failed', '%s: the next run failed: %s' % (what, (rep or {}).get('error', code)), 'recovery_failed')
            return
        if rep['summary'] != base['summary']:
            add('recovery_differs', '%s: the next run differs from an uninterrupted run: rows %r vs %r'
                % (what, [len(r) for r in rep['summary']['rows']], [len(r) for r in base['summary']['rows']]),
                'recovery_differs')
        want = 0 if complete_before else total
        if rep['pulled'] != want:
            add('recovery_source_use', '%s: the next run pulled %d source rows, expected %d (complete checkpoints '
                'before it: %r)' % (what, rep['pulled'], want, sorted(complete_before)), 'recovery_source_use')

    def prepare(cpdir):
        shutil.rmtree(cpdir, ignore_errors=True)
        if case['stale']:
            os.makedirs(os.path.join(cpdir, 'c0'), exist_ok=True)
            with open(os.path.join(cpdir, 'c0', 'stream.ndjson.active'), 'w') as f:
                f.write('{"stale": true}\n{"id": 1}\n')

    # enumerate every event index, two modes
    ks = list(range(1, K + 2))
    if case['tier'] == 'quick' and K > 60:
        # quick tier: long traces are sampled (first/last 12 events and every 9th); thorough enumerates all
        ks = sorted(set(ks[:12] + ks[-12:] + ks[::9]))
        cov['mode']['sampled_long_trace'] = 1
    for mode in ([case['mode']] if case['mode'] in ('kill', 'raise') else []):
        for k in ks:
            cpdir = 'x_%s_%d' % (mode, k)
            prepare(cpdir)

            def crash(mode=mode, k=k, cpdir=cpdir):
                plan = crashlab.Plan(mode, at=k)
                crashlab.install(plan, scratch)
                rep = run_plain(cpdir)
                rep['fired'] = plan.fired
                return rep
            code, rep = crashlab.in_child(crash, os.path.join(scratch, 'rep.json'))
            ev = trace[k - 1][0] if k <= K else 'after_last'
            what = '%s before event %d/%d (%s %s)' % (mode, k, K, ev, trace[k - 1][1] if k <= K else '')
            if k <= K:
                happened = (code == 137) if mode == 'kill' else bool(rep and rep.get('fired'))
                if not happened:
                    shutil.rmtree(cpdir, ignore_errors=True)
                    return dict(nontrivial=False, violations=viol, cov=cov, counters=counters,
                                inconclusive='crash point %s did not fire (code %r)' % (what, code))
                if mode == 'raise' and rep.get('ok'):
                    add('error_swallowed', '%s: an I/O error while saving the checkpoint did not fail the run' % what,
                        'io_error_swallowed')
            counters['crash_points_executed'] += 1
            cov['crash_event_kind'][ev] = cov['crash_event_kind'].get(ev, 0) + 1
            cov['mode'][mode] = cov['mode'].get(mode, 0) + 1
            complete = post_crash(cpdir, what)
            if k <= K and ev != 'after_last':
                # a checkpoint whose rename had not happened yet cannot be complete
                pass
            recover(cpdir, complete, what)
            shutil.rmtree(cpdir, ignore_errors=True)
    # downstream step failure at row k
    points = []
    for j, n in enumerate(case['sizes']):
        points += [(j, r) for r in sorted({0, n // 2, n - 1}) if n] + [(j, 'end')]
    for (j, r) in (points if case['mode'] == 'downstream' else []):
        cpdir = 'd_%d_%s' % (j, r)
        prepare(cpdir)
        code, rep = crashlab.in_child(lambda: run_plain(cpdir, fail_at=(j, r)), os.path.join(scratch, 'rep.json'))
        what = 'downstream step fails at resource %d row %s' % (j, r)
        if not rep or rep.get('ok'):
            add('error_swallowed', '%s: run did not fail (%r)' % (what, rep), 'downstream_error_swallowed')
        counters['crash_points_executed'] += 1
        cov['mode']['downstream_failure'] = cov['mode'].get('downstream_failure', 0) + 1
        complete = post_crash(cpdir, what)
        # the LAST checkpoint sits right before the failing step: it cannot have completed unless every row had
        # passed (failure at exhaustion of the last resource happens after the writer finished the rows but
        # before it renamed: still not complete)
        if (ncp - 1) in complete:
            add('checkpoint_committed_on_failure', '%s: checkpoint c%d was committed although the run failed'
                % (what, ncp - 1), 'committed_on_failure')
        recover(cpdir, complete, what)
        shutil.rmtree(cpdir, ignore_errors=True)
    # the saving run has a later step that stops reading early: what it saves is complete all the same
    for es_ in ((True, 'close') if case['mode'] == 'downstream' and total else ()):
        cpdir = 'e_stop_%s' % es_
        prepare(cpdir)
        code, rep = crashlab.in_child(lambda: run_plain(cpdir, early_stop=es_), os.path.join(scratch, 'rep.json'))
        what = 'a later step stops reading every resource after one row%s while the checkpoints are being saved' % (
            ' and closes the iterator it was given' if es_ == 'close' else '')
        counters['crash_points_executed'] += 1
        cov['mode']['later_step_stops_early_during_saving_run'] = 1
        if not rep or not rep.get('ok'):
            add('recovery_failed', '%s: the run failed: %s' % (what, (rep or {}).get('error', code)), 'early_stop_run_failed')
        else:
            complete = post_crash(cpdir, what)
            if set(range(ncp)) - set(complete):
                add('checkpoint_content', '%s: checkpoints %r are missing or incomplete after the run'
                    % (what, sorted(set(range(ncp)) - set(complete))), 'early_stop_checkpoint_incomplete')
            recover(cpdir, complete, what)
            # ... and the run that RESUMES from them, with the same early-stopping step, returns what the saving run returned
            code2, rep2 = crashlab.in_child(lambda: run_plain(cpdir, early_stop=es_), os.path.join(scratch, 'rep.json'))
            counters['recoveries_compared'] += 1
            cov['mode']['later_step_stops_early_during_resuming_run'] = 1
            if not rep2 or not rep2.get('ok'):
                add('recovery_failed', '%s, then the same flow again (resuming): the run failed: %s'
                    % (what, (rep2 or {}).get('error', code2)), 'early_stop_resume_failed')
            elif rep2['summary'] != rep['summary']:
                add('recovery_differs', '%s, then the same flow again (resuming): it returns %r, the saving run returned %r'
                    % (what, str(rep2['summary'])[:200], str(rep['summary'])[:200]), 'early_stop_resume_differs')
        shutil.rmtree(cpdir, ignore_errors=True)
    # a step in front of the checkpoints fails in its end-of-stream work (all rows have been written by then)
    for up in (('res_end', 'pkg_end') + tuple(('row_fn_stop_iteration', k_) for k_ in sorted({0, total // 2, max(total - 1, 0)}) if total)
               if case['mode'] == 'downstream' else ()):
        cpdir = 'u_%s' % (up if isinstance(up, str) else '%s_%d' % up)
        prepare(cpdir)
        code, rep = crashlab.in_child(lambda: run_plain(cpdir, up_fail=up), os.path.join(scratch, 'rep.json'))
        what = 'a step before the checkpoints fails at the end of its stream (%s)' % up if isinstance(up, str) else \
            'a row function before the checkpoints lets a StopIteration escape at row %d' % up[1]
        if not rep or rep.get('ok'):
            add('error_swallowed', '%s: run did not fail (%r)' % (what, rep), 'upstream_end_error_swallowed')
        counters['crash_points_executed'] += 1
        cov['mode']['upstream_end_of_stream_failure'] = cov['mode'].get('upstream_end_of_stream_failure', 0) + 1
        complete = post_crash(cpdir, what)
        if complete:
            add('checkpoint_committed_on_failure', '%s: checkpoints %r were committed although the run failed'
                % (what, sorted(complete)), 'committed_on_failure')
        recover(cpdir, complete, what)
        shutil.rmtree(cpdir, ignore_errors=True)
    # the SOURCE fails while the checkpoints are being written and a step after them swallows the error: whatever the
    # run returns, no checkpoint may be usable afterwards (none saw the complete stream)
    for (j, r, wf) in ([p_ + (w_,) for p_ in points if p_[1] != 'end' for w_ in (False, True)] if case['mode'] == 'swallowed' else []):
        cpdir = 's_%d_%s%s' % (j, r, '_w' if wf else '')
        prepare(cpdir)
        sf_ = (j, r, 'unwritable_cell') if wf else (j, r)
        code, rep = crashlab.in_child(lambda: run_plain(cpdir, src_fail=sf_), os.path.join(scratch, 'rep.json'))
        what = ('the checkpoint writer fails at resource %d row %s (a cell its encoding refuses), a later step swallows the error' if wf else
                'source fails at resource %d row %s, a later step swallows the error') % (j, r)
        counters['crash_points_executed'] += 1
        mk_ = 'writer_failure_swallowed_downstream' if wf else 'source_failure_swallowed_downstream'
        cov['mode'][mk_] = cov['mode'].get(mk_, 0) + 1
        complete = post_crash(cpdir, what)
        if complete:
            add('checkpoint_committed_on_failure', '%s: checkpoints %r were committed' % (what, sorted(complete)),
                'committed_on_failure')
        recover(cpdir, complete, what)
        shutil.rmtree(cpdir, ignore_errors=True)
    # in-process retry: the SAME Flow object is run again after a run that failed while the checkpoint was being
    # saved (a step downstream fails once): the retry must recompute from the sources and equal the baseline
    if case['mode'] == 'retry':
        for (j, r, where) in [(j_, r_, w_) for (j_, r_) in points for w_ in ('downstream', 'upstream')]:
            cpdir = 'r_%d_%s_%s' % (j, r, where)
            prepare(cpdir)

            flaky_text = (j + (0 if r == 'end' else r)) % 2 == 0 or where == 'upstream'

            def retry(cpdir=cpdir, j=j, r=r, flaky_text=flaky_text, where=where):
                cnt = {'pulled': 0}
                state = {'armed': True}
                desc = {'resources': [{'name': 'res%d' % i, 'path': 'res%d.csv' % i, 'schema': {'fields': copy.deepcopy(F)}}
                                      for i in range(len(tables))]}

                def src(package):
                    for rd in copy.deepcopy(desc['resources']):
                        package.pkg.add_resource(rd)
                    yield package.pkg
                    yield from package
                    for t in tables:
                        def it(t=t):
                            for row in copy.deepcopy(t):
                                cnt['pulled'] += 1
                                if state['armed'] and flaky_text:
                                    row['t'] = 'x'      # the first attempt sees other (shorter) data than the retry
                                yield row
                        yield it()

                def failing_once(package):
                    yield package.pkg
                    for jj, res in enumerate(package):
                        def it(res=res, jj=jj):
                            n = 0
                            for row in res:
                                if state['armed'] and jj == j and n == r:
                                    state['armed'] = False
                                    raise RuntimeError('downstream step failed (first attempt)')
                                n += 1
                                yield row
                            if state['armed'] and jj == j and r == 'end':
                                state['armed'] = False
                                raise RuntimeError('downstream step failed at exhaustion (first attempt)')
                        yield it()
                steps = [src, d.add_field('a', 'integer', 1)] + ([failing_once] if where == 'upstream' else []) + \
                    [d.checkpoint('c0', checkpoint_path=cpdir)]
                if ncp == 2:
                    steps += [d.add_field('b', 'string', 'x'), d.checkpoint('c1', checkpoint_path=cpdir)]
                steps += ([failing_once] if where == 'downstream' else []) + [d.add_field('z', 'integer', 9)]
                flow = d.Flow(*steps)
                rep = {'first_failed': False}
                kept = []
                try:
                    with boot.quiet():
                        flow.results()
                except Exception as e:
                    rep['first_failed'] = True
                    kept.append(e)      # a retry loop that reports the errors of failed attempts at the end
                rep['complete_after_failure'] = [k for k in range(ncp)
                                                 if os.path.exists(os.path.join(cpdir, 'c%d' % k, 'stream.ndjson'))]
                cnt['pulled'] = 0
                try:
                    with boot.quiet():
                        results, dp, _ = flow.results()
                    rep.update(ok=True, summary=summarize(results, dp.descriptor), pulled=cnt['pulled'])
                except Exception as e:
                    rep.update(ok=False, error='%s: %s' % (type(getattr(e, 'cause', e)).__name__, str(e)[:200]))
                rep['errors_of_failed_attempts'] = [type(x).__name__ for x in kept]
                # what a normal interpreter exit does (the lab's children leave through os._exit): drop the failed
                # attempt's objects and collect them, so that file objects they still hold are flushed and closed
                import gc
                del kept[:]
                gc.collect()
                return rep
            code, rep = crashlab.in_child(retry, os.path.join(scratch, 'rep.json'))
            what = 'same Flow object retried after a failure %s of the checkpoint at resource %d row %s' % (where, j, r)
            counters['crash_points_executed'] += 1
            cov['mode']['retry_same_object'] = cov['mode'].get('retry_same_object', 0) + 1
            if code != 0 or not rep or rep.get('child_exception'):
                add('retry_harness', '%s: child failed: %r' % (what, rep), 'retry_child')
                continue
            if not rep['first_failed']:
                continue
            counters['recoveries_compared'] += 1
            if rep['complete_after_failure'] and (ncp - 1) in rep['complete_after_failure']:
                add('checkpoint_committed_on_failure', '%s: checkpoint c%d committed by the failed attempt' % (what, ncp - 1),
                    'committed_on_failure')
            if not rep.get('ok'):
                add('retry_failed', '%s: the retry failed: %s' % (what, rep.get('error')), 'retry_failed')
            elif rep['summary'] != base['summary']:
                add('retry_differs', '%s: the retry returned rows %r, an uninterrupted run %r'
                    % (what, [len(x) for x in rep['summary']['rows']], [len(x) for x in base['summary']['rows']]),
                    'retry_differs')
            elif not rep['complete_after_failure'] and rep['pulled'] != total:
                add('retry_source_use', '%s: the retry pulled %d source rows, expected %d' % (what, rep['pulled'], total),
                    'retry_source_use')
            # after the process that retried has exited (all its file objects flushed / collected): the checkpoints the
            # retry committed must be complete, and a later run that picks them up equals an uninterrupted run
            complete = post_crash(cpdir, what + ' (after process exit)')
            recover(cpdir, complete, what + ' (after process exit)')
            shutil.rmtree(cpdir, ignore_errors=True)
    shutil.rmtree('base', ignore_errors=True)
    shutil.rmtree('rec', ignore_errors=True)
    sample = {'config': cfg, 'events': K, 'trace_head': trace[:12], 'trace_tail': trace[-4:]}
    return dict(nontrivial=counters['crash_points_executed'] > 0, violations=viol, cov=cov, counters=counters,
                sample=sample)


def finalize(agg):
    # exhaustive over the event indices of every explored configuration unless a long trace was sampled (quick)
    agg.extra['exhaustive'] = not agg.cov.get('mode', {}).get('sampled_long_trace')
