"""C04 A failing step never yields a successful run.

fault-lab: a faulty step raising a chosen exception INSTANCE is inserted at every position of
representative pipelines, at every phase (package definition / row first, middle, last of each
resource / exhaustion of each resource / after the last resource), in four step shapes, with every
exception class; plus failing sources / handlers / callbacks, plus source-free failpoints at line
events inside the built-in processors. Outcome is classified by object identity of the injected
exception (err.cause is inj); artifacts of observers positioned after the fault must be absent.
"""
import copy
import csv
import os
import zipfile

from vlib import boot, faultlab, gen, lab

PROPERTY = 'C04'
LEVEL = 'fault_enumeration'
EXHAUSTIVE = False
RULE = ('six representative pipelines containing every built-in processor; fault points = every insertion '
        'position x {package, row first/middle/last of each resource, exhaustion of each resource, after last} x '
        'step shape (package fn, rows fn, row fn, DataStreamProcessor subclass) with exception classes rotating over '
        'the points (thorough: full product); special faults: failing iterable / load iterator / on_error handler / '
        'finalizer callback; failpoints: the exception is raised at the n-th LINE event inside '
        'dataflows/processors|helpers (quick: seeded sample per pipeline, thorough: every n); each point is run '
        'through process() or results(); distinct = (pipeline, position, phase, shape, class, path); non-trivial = '
        'the fault actually fired')
ASSUMPTIONS = [
    'a fault point that is never reached (e.g. row 3 of an empty resource) is excluded, never counted as held',
    'processor_name / processor_position are recorded but not judged',
    'accepted as cause: the injected instance itself, or reachable from err.cause through __cause__/__context__ '
    '(<=3 hops) - e.g. load wraps package-phase errors in SourceLoadError',
    'failpoints lexically inside a try statement of the library are not used (the library may handle them itself); '
    'parallelize.py is excluded from failpoints (covered by the dedicated subprocess family)',
    'BaseException-only classes (KeyboardInterrupt, SystemExit, GeneratorExit) are outside "a step raises an error"; '
    'StopIteration IS injected (PEP 479 wraps it into a RuntimeError inside generators: accepted as wrapped cause)',
]
REQUIRED_COUNTERS = ['faults_fired']
CASE_TIMEOUT = 300
PIPELINES = ['P1', 'P2', 'P3', 'P4', 'P5', 'P6']


# ------------------------------------------------------------------------------------------------
# pipelines: build(tag) -> (steps, observers) ; observers: [(position index in steps, kind, location)]

def rows3(base, n, extra=None):
    return [dict({'id': base + i, 'n': (i * 7) % 5, 's': ['a', 'b', 'hello'][i % 3]}, **(extra or {})) for i in range(n)]


F3 = [{'name': 'id', 'type': 'integer'}, {'name': 'n', 'type': 'integer'}, {'name': 's', 'type': 'string'}]


def build(pid, tag):
    d = lab.df()
    obs = []
    st = []

    def add(step, kind=None, loc=None):
        st.append(step)
        if kind:
            obs.append((len(st) - 1, kind, loc))
    if pid == 'P1':
        add([dict(r) for r in rows3(0, 120)])
        add(d.add_field('z', 'integer', 3))
        add(d.filter_rows(condition=lambda row: row['n'] != 4))
        add(d.dump_to_path('A_' + tag), 'dump', 'A_' + tag)
        add(d.set_type('n', type='number', resources=None))
        add(d.sort_rows('{n}{id}'))
        add(d.dump_to_path('B_' + tag, format='json'), 'dump', 'B_' + tag)
    elif pid == 'P2':
        path = 'src_%s.csv' % tag
        with open(path, 'w', newline='') as f:
            w = csv.writer(f)
            w.writerow(['id', 'n', 's'])
            for r in rows3(0, 40):
                w.writerow([r['id'], r['n'], r['s']])
        add(d.load(path, name='csvres'))
        add(d.rename_fields({'s': 'text'}, regex=False))
        add(d.find_replace([{'name': 'text', 'patterns': [{'find': 'l+', 'replace': 'L'}]}]))
        add(d.stream('S_%s/out.ndjson' % tag), 'stream', 'S_%s/out.ndjson' % tag)
        add(d.add_computed_field([{'target': 'c', 'operation': 'format', 'with': '{id}-{text}'}]))
        add(d.dump_to_zip('Z_%s.zip' % tag), 'zip', 'Z_%s.zip' % tag)
    elif pid == 'P3':
        add(lab.source('left', F3, rows3(0, 30)))
        add(lab.source('right', F3 + [{'name': 'm', 'type': 'integer'}], rows3(100, 12, {'m': 2})))
        add(d.join('left', ['n'], 'right', ['n'], {'cnt': {'aggregate': 'count'}, 'mx': {'name': 'id', 'aggregate': 'max'}},
                   source_delete=False))
        add(d.checkpoint('C', checkpoint_path='cp_' + tag), 'checkpoint', 'cp_%s/C/stream.ndjson' % tag)
        add(d.unpivot([{'name': 'n', 'keys': {'k': 'N'}}, {'name': 'm', 'keys': {'k': 'M'}}],
                      [{'name': 'k', 'type': 'string'}], {'name': 'v', 'type': 'integer'}, regex=False, resources='right'))
        add(d.printer(header_print=lambda *a: None, table_print=lambda *a: None))
        add(d.dump_to_path('D_' + tag), 'dump', 'D_' + tag)
    elif pid == 'P4':
        add(lab.source('a', F3, rows3(0, 5)))
        add(lab.source('b', F3, rows3(10, 7)))
        add(lab.source('c', F3, rows3(20, 150)))
        add(d.concatenate({'id': [], 'n': [], 's': []}, target={'name': 'ab', 'path': 'ab.csv'}, resources=['a', 'b']))
        add(d.duplicate('ab', 'ab2'))
        add(d.delete_resource('ab2'))
        add(d.set_primary_key(['n'], resources='c'))
        add(d.deduplicate(resources='c'))
        add(d.dump_to_sql({'t_ab': {'resource-name': 'ab'}}, engine='sqlite:///' + os.path.abspath('db_%s.sqlite' % tag)))
        add(d.update_resource('c', title='C'))
        add(d.dump_to_path('E_' + tag), 'dump', 'E_' + tag)
    elif pid == 'P5':
        pk = 'pre_' + tag
        with boot.quiet():
            d.Flow(lab.source('x', F3, rows3(0, 9)), lab.source('y', F3, rows3(50, 101)), d.dump_to_path(pk)).process()
        add(d.load(pk + '/datapackage.json'))
        add(d.select_fields(['id', 's', 'n'], regex=False))
        add(d.delete_fields(['s'], resources='x', regex=False))
        add(d.validate())
        add(d.set_primary_key(['id']))
        add(d.update_package(title='T'))
        add(d.update_schema('y', missingValues=['', 'NA']))
        add(d.dump_to_path('F_' + tag), 'dump', 'F_' + tag)
        add(d.finalizer(lambda: None))
        add(d.update_stats({'k': 1}))
    elif pid == 'P6':
        add(d.sources([dict(r) for r in rows3(0, 101)], lab.source('second', F3, rows3(500, 3))))
        add(d.conditional(lambda dp: True, d.Flow(d.add_field('k', 'string', 'v'))))
        add(d.Flow(d.add_computed_field([{'target': 't', 'operation': 'sum', 'source': ['id', 'n']}]),
                   d.filter_rows(condition=lambda row: row['id'] % 10 != 9)))
        add(d.stream('T_%s/s.ndjson' % tag), 'stream', 'T_%s/s.ndjson' % tag)
        add(d.checkpoint('K', checkpoint_path='cq_' + tag), 'checkpoint', 'cq_%s/K/stream.ndjson' % tag)
    return st, obs


def artifact_committed(kind, loc):
    if kind == 'dump':
        return os.path.exists(os.path.join(loc, 'datapackage.json'))
    if kind == 'zip':
        try:
            return os.path.exists(loc) and zipfile.is_zipfile(loc) and 'datapackage.json' in zipfile.ZipFile(loc).namelist()
        except Exception:
            return False
    return os.path.exists(loc)


def shape_at(pid, pos):
    """rows per resource right before position `pos` of the pipeline (baseline run with a counting probe)."""
    d = lab.df()
    st, _ = build(pid, 'shape%d' % pos)
    counts = []

    def probe(package):
        yield package.pkg
        for res in package:
            counts.append(0)

            def it(res=res, k=len(counts) - 1):
                for row in res:
                    counts[k] += 1
                    yield row
            yield it()
    with boot.quiet():
        d.Flow(*(st[:pos] + [probe])).process()
    return counts


def gen_cases(tier, seed):
    # one case per (pipeline, position): the case enumerates phases x shapes itself (shares the shape run)
    for pid in PIPELINES:
        st, _ = build_len(pid)
        for pos in range(st + 1):
            yield {'family': 'inserted', 'pipeline': pid, 'pos': pos, 'seed': seed, 'tier': tier}
        yield {'family': 'special', 'pipeline': pid, 'pos': 0, 'seed': seed, 'tier': tier}
        nfp = {'quick': 4, 'thorough': 40}[tier]
        for k in range(nfp):
            yield {'family': 'failpoint', 'pipeline': pid, 'pos': k, 'nshards': nfp, 'seed': seed, 'tier': tier}
    for k in range({'quick': 6, 'thorough': 24}[tier]):
        yield {'family': 'parallelize', 'pipeline': 'PAR', 'pos': k, 'seed': seed, 'tier': tier}
    # the failing step is a SOURCE given as a plain iterable / generator (rows before, at and after the 100-row
    # inference sample, and at exhaustion)
    for k in range({'quick': 2, 'thorough': 8}[tier]):
        yield {'family': 'source_fault', 'pipeline': 'SRC', 'pos': k, 'seed': seed, 'tier': tier}
    for k in range({'quick': 2, 'thorough': 10}[tier]):
        yield {'family': 'callback_fault', 'pipeline': 'CB', 'pos': k, 'seed': seed, 'tier': tier}
    # I/O errors raised by the operating system while an observer writes (disk full, bad path ...): every I/O event
    # of the writers (crash-lab shims) is a fault point
    for pid in ('P1', 'P2', 'P3', 'P5', 'P6'):
        nsh = {'quick': 2, 'thorough': 8}[tier]
        for k in range(nsh):
            yield {'family': 'io_fault', 'pipeline': pid, 'pos': k, 'nshards': nsh, 'seed': seed, 'tier': tier}


_LEN = {'P1': 7, 'P2': 6, 'P3': 7, 'P4': 11, 'P5': 10, 'P6': 5}


def build_len(pid):
    return _LEN[pid], None


def run_point(pid, tag, make_steps, injected, via, fault=None):
    """Run one faulted pipeline; -> (verdict, detail, committed_after) ; verdict 'not_reached' if not fired."""
    d = lab.df()
    steps, obs_after = make_steps(tag)
    err = None
    try:
        with boot.quiet() as cap:
            if via == 'process':
                d.Flow(*steps).process()
            else:
                d.Flow(*steps).results()
    except Exception as e:
        err = e
    fired = fault.fired if fault is not None else True
    if not fired:
        return 'not_reached', '', []
    committed = [(k, loc) for k, loc in obs_after if artifact_committed(k, loc)]
    if err is None:
        logged = [m for lvl, m in cap.records if lvl == 'ERROR']
        return 'returned_normally', 'logged: %s' % (logged[:1] or ['nothing']), committed
    v, detail = faultlab.classify(err, injected)
    return v, detail, committed


def run_case(case):
    fam, pid = case['family'], case['pipeline']
    rng = boot.rng(case['seed'], 'C04', fam, pid, case['pos'])
    counters = {'faults_armed': 0, 'faults_fired': 0, 'artifact_checks': 0}
    cov = {'class_x_phase': {}, 'fault_sites': {}, 'outcome': {}}
    viol = []
    seen_mech = set()

    def add(kind, msg, mech, **kw):
        if mech in seen_mech:
            return
        seen_mech.add(mech)
        viol.append(dict({'kind': kind, 'mech': mech, 'msg': msg, 'pipeline': pid}, **kw))

    def judge(verdict, detail, committed, where, cls, phase_label):
        counters['faults_fired'] += 1
        cov['outcome'][verdict] = cov['outcome'].get(verdict, 0) + 1
        cov['class_x_phase']['%s/%s' % (cls, phase_label)] = 1
        base = 'CastError' if cls.startswith('CastError') else cls
        if verdict == 'returned_normally':
            add('returned_normally', '%s: injected %s raised, but the run returned normally (%s)' % (where, cls, detail),
                'returned_normally/%s/%s' % (base, phase_label.split(':')[0]), exc_class=base)
        elif verdict == 'not_processor_error':
            add('not_processor_error', '%s: injected %s surfaced as %s' % (where, cls, detail),
                'not_processor_error/%s' % phase_label.split(':')[0], exc_class=base)
        elif verdict == 'ok_wrapped' and not (base == 'StopIteration' and detail == 'RuntimeError'):
            # (a StopIteration raised inside a generator is turned into a RuntimeError by Python itself: PEP 479)
            # the original exception is only reachable through __cause__/__context__ of another exception that the run
            # reports as the cause
            add('wrong_cause', '%s: injected %s but ProcessorError.cause is a %s wrapping it' % (where, cls, detail),
                'cause_wrapped_in/%s/%s' % (detail, phase_label.split(':')[0]), exc_class=base)
        elif verdict == 'wrong_cause':
            add('wrong_cause', '%s: injected %s but ProcessorError.cause is %s' % (where, cls, detail),
                'wrong_cause/%s' % phase_label.split(':')[0], exc_class=base)
        counters['artifact_checks'] += 1
        for k, loc in committed:
            add('artifact_committed', '%s: %s at %s positioned after the fault was committed' % (where, k, loc),
                'artifact_committed/%s/%s' % (k, phase_label.split(':')[0]), exc_class=base)

    if fam == 'callback_fault':
        # the failing code is a USER CALLBACK handed to a built-in step (transform, condition, computed value, finalizer
        # callback ...), raising exception classes the step itself catches for its own purposes around that call
        d = lab.df()
        rows_ = [{'id': i, 'v': str(i), 'n': i} for i in range(12)]
        sv = d.schema_validator
        sites = ['set_type_transform/default', 'set_type_transform/drop', 'set_type_transform/clear', 'set_type_transform/ignore',
                 'add_field_callable', 'add_computed_callable', 'filter_condition', 'validate_field_fn', 'sort_key_callable',
                 'finalizer_callback', 'finalizer_callback_stats', 'finalizer_callback_stats_optional', 'printer_header_print',
                 'conditional_predicate', 'conditional_flow_factory']
        for site in sites:
            for via in ('process', 'results'):
                cls = rng.choice(['ValueError', 'TypeError', 'KeyError', 'CastError', 'RuntimeError', 'AssertionError',
                                  'ArithmeticError', 'PrivateError', 'IndexError', 'AttributeError'])
                if site.startswith('conditional') and via == 'process':
                    cls = rng.choice(['KeyError', 'IndexError', 'AttributeError', 'TypeError'])
                tag = 'cb%s_%s_%s' % (case['pos'], site.replace('/', '_'), via)
                injected = ArithmeticError('injected ' + tag) if cls == 'ArithmeticError' else faultlab.make_exception(cls, tag)
                at_row = rng.choice([0, 5, 11])

                def boom(row_id, injected=injected, at_row=at_row):
                    if row_id == at_row:
                        raise injected

                def make_steps(tag_, site=site, injected=injected, boom=boom):
                    def transform(v, field_name=None, row=None):
                        boom(row['id'] if row is not None else int(v))
                        return v

                    def add_cb(row):
                        boom(row['id'])
                        return 1

                    def cond(row):
                        boom(row['id'])
                        return True

                    def vfn(v):
                        boom(v)
                        return True

                    def keyfn(row):
                        boom(row['id'])
                        return '%04d' % row['id']

                    def fin():
                        raise injected

                    def fin_stats(stats):
                        raise injected

                    def fin_stats_opt(stats={}):
                        raise injected

                    def header(name, kw=None, **kws):
                        raise injected

                    def pred_raises(dp):
                        raise injected

                    def pred_true(dp):
                        return True

                    def factory_raises(dp):
                        raise injected
                    pol = {'default': {}, 'drop': {'on_error': sv.drop}, 'clear': {'on_error': sv.clear},
                           'ignore': {'on_error': sv.ignore}}
                    step = {
                        'set_type_transform': lambda: d.set_type('v', type='integer', transform=transform,
                                                                 **pol[site.split('/')[1] if '/' in site else 'default']),
                        'add_field_callable': lambda: d.add_field('z', 'integer', add_cb),
                        'add_computed_callable': lambda: d.add_computed_field([{'target': 'z', 'operation': add_cb}]),
                        'filter_condition': lambda: d.filter_rows(condition=cond),
                        'validate_field_fn': lambda: d.validate('n', vfn),
                        'sort_key_callable': lambda: d.sort_rows(keyfn),
                        'finalizer_callback': lambda: d.finalizer(fin),
                        'finalizer_callback_stats': lambda: d.finalizer(fin_stats),
                        'finalizer_callback_stats_optional': lambda: d.finalizer(fin_stats_opt),
                        'printer_header_print': lambda: d.printer(header_print=header, table_print=lambda *a, **k: None),
                        'conditional_predicate': lambda: d.conditional(pred_raises, d.Flow(d.add_field('z', 'integer', 1))),
                        'conditional_flow_factory': lambda: d.conditional(pred_true, factory_raises),
                    }[site.split('/')[0]]()
                    st = [[dict(r) for r in rows_], step, d.dump_to_path('CD_' + tag_),
                          d.checkpoint('CC', checkpoint_path='ccp_' + tag_)]
                    return st, [('dump', 'CD_' + tag_), ('checkpoint', 'ccp_%s/CC/stream.ndjson' % tag_)]
                counters['faults_armed'] += 1
                verdict, detail, committed = run_point('CB', tag, make_steps, injected, via)
                cov['fault_sites']['callback/%s' % site] = 1
                judge(verdict, detail, committed, 'user callback %s raising at row %s (via %s)' % (site, at_row, via),
                      cls, 'callback:%s' % site.split('/')[0])
    if fam == 'callback_fault' and case['pos'] == 0:
        # a failure inside a built-in step that is caused by the DATA: a target row of a join lacks its key cell (an earlier
        # step removed it), or a '{geo[code]}' key points into an object cell without that member - the key cannot be
        # computed, which is not the same as "no match"
        d = lab.df()
        for mode in ('inner', 'half-outer', 'full-outer'):
            for variant in ('missing_key_cell', 'missing_member'):
                tag = 'jk_%s_%s' % (mode, variant)

                def make_steps(tag_, mode=mode, variant=variant):
                    src = [{'k': i, 'geo': {'code': i}, 'v': 'v%d' % i} for i in range(4)]
                    tgt = [{'k': i % 4, 'geo': {'code': i % 4}, 't': i} for i in range(6)]

                    def damage(rows):
                        for i, row in enumerate(rows):
                            if rows.res.name == 'tgt' and i == 3:
                                if variant == 'missing_key_cell':
                                    del row['k']
                                else:
                                    row['geo'] = {}
                            yield row
                    key = ['k'] if variant == 'missing_key_cell' else '{geo[code]}'
                    st = [src, d.update_resource(-1, name='src'), tgt, d.update_resource(-1, name='tgt'), damage,
                          d.join('src', key, 'tgt', key, {'v': {'name': 'v'}}, mode=mode), d.dump_to_path('JD_' + tag_)]
                    return st, [('dump', 'JD_' + tag_)]
                steps_, obs_after = make_steps(tag)
                err = None
                try:
                    with boot.quiet():
                        d.Flow(*steps_).process()
                except Exception as e:
                    err = e
                counters['faults_armed'] += 1
                counters['faults_fired'] += 1
                counters['artifact_checks'] += 1
                cov['fault_sites']['join_target_key/%s/%s' % (variant, mode)] = 1
                cov['class_x_phase']['KeyError/data:join_target_key'] = 1
                committed = [(k, loc) for k, loc in obs_after if artifact_committed(k, loc)]
                if err is None:
                    add('returned_normally', 'join(mode=%s): the key of target row 3 cannot be computed (%s) but the run returned '
                        'normally' % (mode, variant), 'returned_normally/KeyError/data_join_target_key', exc_class='KeyError')
                for k, loc in committed:
                    add('artifact_committed', 'join(mode=%s), key of a target row not computable (%s): %s at %s was committed'
                        % (mode, variant, k, loc), 'artifact_committed/%s/data_join_target_key' % k, exc_class='KeyError')
    if fam == 'source_fault':
        d = lab.df()
        n = 150
        for at in (0, 50, 99, 100, 101, 149, 'end', '__iter__'):
            for via in ('process', 'results'):
                cls = rng.choice(faultlab.CLASSES)
                if cls == 'StopIteration':
                    cls = 'PrivateError'       # a generator cannot raise StopIteration (PEP 479)
                if at in (101, 149) and via == 'results':
                    # after the inference sample the rows pass through the reader library's own error handling
                    cls = ['UnicodeDecodeError', 'UnicodeEncodeError'][case['pos'] % 2]
                tag = 'src%s_%s_%s' % (case['pos'], at, via)
                injected = faultlab.make_exception(cls, tag)
                second = rng.random() < 0.5

                def gen(at=at, injected=injected):
                    for i in range(n):
                        if i == at:
                            raise injected
                        yield {'id': i, 's': 'x%d' % i}
                    if at == 'end':
                        raise injected

                class Table:
                    # a class-based iterable that opens its file / cursor in __iter__ - and fails there
                    def __init__(self, exc):
                        self.exc = exc

                    def __iter__(self):
                        raise self.exc

                def make_steps(tag_, second=second, at=at, injected=injected):
                    src_ = Table(injected) if at == '__iter__' else gen()
                    st = ([[{'q': 1}, {'q': 2}]] if second else []) + [src_, d.add_field('z', 'integer', 1),
                                                                     d.dump_to_path('SD_' + tag_),
                                                                     d.checkpoint('SC', checkpoint_path='scp_' + tag_)]
                    return st, [('dump', 'SD_' + tag_), ('checkpoint', 'scp_%s/SC/stream.ndjson' % tag_)]
                counters['faults_armed'] += 1
                verdict, detail, committed = run_point('SRC', tag, make_steps, injected, via)
                cov['fault_sites']['iterable_source/row_%s' % at] = 1
                judge(verdict, detail, committed, 'iterable source raising at row %s (%s rows, via %s)' % (at, n, via),
                      cls, 'source_iterable:%s' % ('sample' if isinstance(at, int) and at < 100 else 'after_sample'))
        # a dumper that WRITES only some resources (force_format=False, unknown extension = passed on unwritten) between a
        # failing source and a later step that swallows the stream error
        for via in ('process', 'results'):
            for unknown_ext in (True, False):
                cls = rng.choice([c for c in faultlab.CLASSES if c != 'StopIteration'])
                tag = 'ff%s_%s_%s' % (case['pos'], via, unknown_ext)
                injected = faultlab.make_exception(cls, tag)

                def mk_corrupt(injected=injected):
                    def corrupt(rows):
                        # a step (not the source itself) failing in the middle of the first resource
                        for i, row in enumerate(rows):
                            if rows.res.name == 'first' and i == 5:
                                raise injected
                            yield row
                    return corrupt
                corrupt = mk_corrupt()

                def tolerant(rows):
                    try:
                        yield from rows
                    except Exception:
                        pass

                def make_steps(tag_, unknown_ext=unknown_ext, corrupt=corrupt):
                    st = [[{'id': i, 's': 'x%d' % i} for i in range(10)],
                          d.update_resource(-1, name='first', path='data/first.' + ('xyz' if unknown_ext else 'csv')),
                          [{'q': 1}, {'q': 2}], d.update_resource(-1, name='second', path='data/second.csv'),
                          corrupt, d.dump_to_path('FD_' + tag_, force_format=False), tolerant]
                    return st, [('dump', 'FD_' + tag_)]
                counters['faults_armed'] += 1
                verdict, detail, committed = run_point('SRC', tag, make_steps, injected, via)
                cov['fault_sites']['rows_step/then_dump_force_format_false%s/then_swallowing_step'
                                   % ('_unwritten_resource' if unknown_ext else '')] = 1
                judge(verdict, detail, committed, 'a step raising at row 5, dump_to_path(force_format=False) with the '
                      'failing resource %s, then a step that swallows the stream error (via %s)'
                      % ('passed on unwritten (unknown extension)' if unknown_ext else 'written', via),
                      cls, 'source_iterable:swallowed_after_dump')
        # the source is load((descriptor, resources_iterator)) and the resources iterator fails when it is asked for the
        # resource after the last one (e.g. the tail of an inner flow chained through datastream())
        for via in ('process', 'results'):
            cls = rng.choice([c for c in faultlab.CLASSES if c != 'StopIteration'])
            tag = 'tup%s_%s' % (case['pos'], via)
            injected = faultlab.make_exception(cls, tag)
            desc_ = {'resources': [{'name': 't', 'path': 't.csv', 'schema': {'fields': [{'name': 'id', 'type': 'integer'}]}}]}

            def res_iter(injected=injected):
                yield iter([{'id': i} for i in range(5)])
                raise injected

            def make_steps(tag_):
                st = [d.load((copy.deepcopy(desc_), res_iter()), strip=False), d.add_field('z', 'integer', 1),
                      d.dump_to_path('TD_' + tag_), d.checkpoint('TC', checkpoint_path='tcp_' + tag_)]
                return st, [('dump', 'TD_' + tag_), ('checkpoint', 'tcp_%s/TC/stream.ndjson' % tag_)]
            counters['faults_armed'] += 1
            verdict, detail, committed = run_point('SRC', tag, make_steps, injected, via)
            cov['fault_sites']['tuple_source/resources_iterator_exhaustion'] = 1
            judge(verdict, detail, committed, 'resources iterator of load((descriptor, iterator)) raising at its exhaustion '
                  '(via %s)' % via, cls, 'source_tuple:exhaustion')
        return dict(nontrivial=counters['faults_fired'] > 0, violations=viol, cov=cov, counters=counters,
                    sample={'family': fam})
    if fam == 'inserted':
        pos = case['pos']
        counts = shape_at(pid, pos)
        phases = ['package', 'after_last']
        for j, n in enumerate(counts):
            ks = sorted({0, n // 2, n - 1}) if n else []
            phases += [('row', j, k) for k in ks] + [('exhaust', j)]
        full = case['tier'] == 'thorough'
        i = 0
        for ph in phases:
            shapes = faultlab.SHAPES if (full or rng.random() < 0.35) else [rng.choice(faultlab.SHAPES)]
            for shape in shapes:
                if shape == 'row_fn' and not (isinstance(ph, tuple) and ph[0] == 'row'):
                    continue
                if shape == 'rows_fn' and not isinstance(ph, tuple):
                    continue
                classes = faultlab.CLASSES if full else [faultlab.CLASSES[(i + case['pos'] * 3) % len(faultlab.CLASSES)]]
                for cls in classes:
                    i += 1
                    via = 'process' if i % 2 else 'results'
                    tag = 'f%d' % i
                    inj = faultlab.make_exception(cls, tag)
                    fault = faultlab.Fault(inj, ph, shape)

                    def make(tag, fault=fault):
                        st, obs = build(pid, tag)
                        fs = fault.step()
                        after = [(k, loc) for (p, k, loc) in obs if p >= pos]
                        return st[:pos] + fs + st[pos:], after
                    counters['faults_armed'] += 1
                    phl = ph if isinstance(ph, str) else ('row:%s' % ('first' if ph[2] == 0 else 'last' if ph[2] == counts[ph[1]] - 1 else 'middle')
                                                          if ph[0] == 'row' else 'exhaust')
                    v, detail, committed = run_point(pid, tag, make, inj, via, fault)
                    if v == 'not_reached':
                        continue
                    judge(v, detail, committed, '%s pos %d phase %r shape %s via %s()' % (pid, pos, ph, shape, via), cls, phl)
    elif fam == 'special':
        run_special(case, rng, counters, judge)
    elif fam == 'failpoint':
        run_failpoints(case, rng, counters, cov, judge)
    elif fam == 'io_fault':
        run_iofaults(case, rng, counters, cov, judge)
    else:
        return run_parallelize(case, rng, counters, cov, viol, add)
    sample = {'pipeline': pid, 'family': fam, 'position': case['pos'], 'fired': counters['faults_fired']}
    return dict(nontrivial=counters['faults_fired'] > 0, violations=viol, cov=cov, counters=counters, sample=sample)


def run_special(case, rng, counters, judge):
    """failing source iterable / load iterator / on_error handler / finalizer callback / dumper row."""
    d = lab.df()
    pid = case['pipeline']
    i = 0
    for kind in ('iterable_row', 'iterable_sample', 'load_iterator', 'on_error_handler', 'finalizer_cb',
                 'row_fn_plain', 'late_type_contradiction'):
        for cls in (faultlab.CLASSES if case['tier'] == 'thorough' else
                    [faultlab.CLASSES[(i + PIPELINES.index(pid) * 2) % len(faultlab.CLASSES)], 'CastError']):
            i += 1
            tag = 's%d' % i
            inj = faultlab.make_exception(cls, tag)
            fired = {'v': False}

            def boom():
                fired['v'] = True
                raise inj

            def make(tag, kind=kind):
                st, obs = build(pid, tag)
                after = [(k, loc) for (p, k, loc) in obs]
                if kind in ('iterable_row', 'iterable_sample'):
                    at = 150 if kind == 'iterable_row' else 20

                    def g():
                        for n in range(200):
                            if n == at:
                                boom()
                            yield {'id': n, 'n': n % 5, 's': 'x'}
                    extra = [g()]
                elif kind == 'load_iterator':
                    def g():
                        for n in range(30):
                            if n == 17:
                                boom()
                            yield {'id': n, 'n': n % 5, 's': 'x'}
                    extra = [d.load(({'resources': [{'name': 'lz', 'path': 'lz.csv', 'schema': {'fields': copy.deepcopy(F3)}}]},
                                     [g()]))]
                elif kind == 'on_error_handler':
                    def handler(res_name, row, idx, e):
                        boom()
                    extra = [[{'q': '1'}, {'q': 'x'}, {'q': '3'}], d.set_type('q', type='integer', on_error=handler)]
                elif kind == 'finalizer_cb':
                    extra = [d.finalizer(boom)]
                elif kind == 'row_fn_plain':
                    def f(row):
                        boom()
                    extra = [f]
                else:
                    # a row beyond the inference sample contradicts the inferred type: the library itself raises
                    extra = [[{'w': n} for n in range(150)] + [{'w': 'text'}]]
                    fired['v'] = True
                if kind in ('iterable_row', 'iterable_sample', 'load_iterator', 'late_type_contradiction'):
                    return extra + st, after        # the failing source is first: every observer is after it
                return st + extra, []               # appended at the end: no observer is positioned after it
            counters['faults_armed'] += 1
            via = 'process' if i % 2 else 'results'
            v, detail, committed = run_point(pid, tag, make, inj, via, None)
            if not fired['v']:
                continue
            if kind == 'late_type_contradiction':
                # no injected instance: the outcome must still be an error, never a normal return
                if v in ('wrong_cause', 'ok', 'ok_wrapped'):
                    v = 'ok'
                cls = 'library_CastError'
            judge(v, detail, committed, '%s special %s via %s()' % (pid, kind, via), cls, 'special:' + kind)
            if kind == 'late_type_contradiction':
                break


def run_failpoints(case, rng, counters, cov, judge):
    d = lab.df()
    pid = case['pipeline']
    # recording pass
    with faultlab.Failpoints() as fp:
        st, _ = build(pid, 'rec')
        fp.armed = True
        with boot.quiet():
            d.Flow(*st).process()
        fp.armed = False
        total = fp.count
    if not total:
        return
    shard, nsh = case['pos'], case['nshards']
    ns = list(range(1 + shard, total + 1, nsh))
    if case['tier'] == 'quick':
        ns = rng.sample(ns, min(len(ns), 40))
    for i, n in enumerate(sorted(ns)):
        fp_classes = [c for c in faultlab.CLASSES if c != 'StopIteration']   # meaningful in user steps only: at an
        # arbitrary library line (e.g. inside a filter() predicate) python itself reads it as "iterator exhausted"
        cls = fp_classes[(n + i) % len(fp_classes)]
        tag = 'p%d' % n
        inj = faultlab.make_exception(cls, tag)
        with faultlab.Failpoints() as fp:
            st, obs = build(pid, tag)
            fp.target, fp.exc = n, inj
            err = None
            fp.armed = True
            try:
                with boot.quiet() as cap:
                    if i % 2:
                        d.Flow(*st).process()
                    else:
                        d.Flow(*st).results()
            except Exception as e:
                err = e
            fp.armed = False
            site = fp.fired_at
        counters['faults_armed'] += 1
        if site is None:
            continue

        cov['fault_sites']['%s:%s' % (site[0].replace('dataflows/', ''), site[1])] = 1
        # observers positioned after the failing processor cannot be identified for a failpoint: artifacts of ALL
        # observers whose stream had not ended are checked via "descriptor implies run completed" => none may exist
        # unless the fault fired after that observer had finished; conservative: only the LAST observer is judged
        # the failing STEP is identified by the source file of the failpoint site: the last observer is judged only
        # if every step implemented in that file sits before it (a step downstream of an observer, e.g. a finalizer
        # after a dump, legitimately fails after that observer has committed)
        import inspect
        site_file = os.path.join(boot.REPO, site[0])

        def step_file(x):
            try:
                return inspect.getsourcefile(x if inspect.isfunction(x) else type(x))
            except Exception:
                return None
        positions = [i for i, x in enumerate(st) if step_file(x) == site_file]
        after = [(k, loc) for (p, k, loc) in obs[-1:] if positions and max(positions) < p]
        committed = [(k, loc) for k, loc in after if artifact_committed(k, loc)]
        if err is None:
            logged = [m for lvl, m in cap.records if lvl == 'ERROR']
            v, detail = 'returned_normally', 'logged: %s' % (logged[:1] or ['nothing'])
        else:
            v, detail = faultlab.classify(err, inj)
        # a failpoint inside the last observer's own finalisation may fire after it committed: do not judge artifacts
        # when the site is inside a dumper/stream/checkpoint module
        if any(x in site[0] for x in ('dumpers', 'stream.py', 'checkpoint.py')):
            committed = []
        judge(v, detail, committed, '%s failpoint #%d at %s:%s:%d' % (pid, n, site[0], site[1], site[2]), cls,
              'failpoint:' + site[0].split('/')[-1])


def run_parallelize(case, rng, counters, cov, viol, add):
    """parallelize error paths, each in its own process group with a hard watchdog (these paths can hang)."""
    import json
    import signal
    import subprocess
    import sys
    import tempfile
    kinds = ['upstream_before_first', 'upstream_late', 'row_func', 'predicate', 'upstream_late', 'row_func']
    kind = kinds[case['pos'] % len(kinds)]
    workers = [1, 2, 3][case['pos'] % 3]
    out = tempfile.mktemp(prefix='c04par', suffix='.json', dir=os.getcwd())
    script = os.path.join(boot.VERIF, 'checks', 'c04_par_child.py')
    env = dict(os.environ, VERIF_REPO=boot.REPO)
    log = open(out + '.log', 'w')
    p = subprocess.Popen([sys.executable, script, kind, str(workers), out], stdout=log, stderr=subprocess.STDOUT,
                         start_new_session=True, env=env, cwd=os.getcwd())
    timed_out = False
    try:
        p.wait(timeout=60)
    except subprocess.TimeoutExpired:
        timed_out = True
    finally:
        try:
            os.killpg(p.pid, signal.SIGKILL)
        except Exception:
            pass
        log.close()
    counters['faults_armed'] += 1
    res = None
    if os.path.exists(out):
        try:
            res = json.load(open(out))
        except Exception:
            res = None
    cov['class_x_phase']['ValueError/parallelize:' + kind] = 1
    where = 'parallelize(num_processors=%d) fault %s' % (workers, kind)
    if res is None:
        # neither returned nor raised within the wall-clock watchdog: undecided (never a verdict from a timer)
        return dict(nontrivial=False, violations=viol, cov=cov, counters=counters,
                    inconclusive='%s: no outcome within 60 s (%s)' % (where, 'watchdog' if timed_out else 'child died'))
    else:
        counters['faults_fired'] += 1
        v = res['verdict']
        cov['outcome']['parallelize/' + v] = cov['outcome'].get('parallelize/' + v, 0) + 1
        if v == 'returned_normally':
            add('returned_normally', '%s: the run returned normally with %s rows (elapsed %.1fs)'
                % (where, res.get('rows'), res.get('elapsed', 0)), 'parallelize/%s/returned_normally' % kind)
        elif v != 'ok':
            mech = 'parallelize/%s/%s' % (kind, v)
            if v == 'wrong_cause' and kind in ('upstream_late', 'predicate') and \
                    'Cannot close a process while it is still running' in str(res.get('detail')):
                mech = 'parallelize/producer_error/close_while_running'
            add(v, '%s: %s (elapsed %.1fs)' % (where, res.get('detail'), res.get('elapsed', 0)), mech)
        elif timed_out:
            add('hang_at_exit', '%s: outcome correct but the interpreter did not exit within 60 s' % where,
                'parallelize/%s/hang_at_exit' % kind)
    return dict(nontrivial=True, violations=viol, cov=cov, counters=counters,
                sample={'pipeline': 'parallelize', 'fault': kind, 'workers': workers, 'result': res})


def run_iofaults(case, rng, counters, cov, judge):
    """OSError raised right before the k-th I/O event of the writers (stream / file dumpers), in a forked child."""
    from vlib import crashlab
    d = lab.df()
    pid = case['pipeline']
    scratch = os.getcwd()

    def record():
        plan = crashlab.Plan('record')
        crashlab.install(plan, scratch)
        st, _ = build(pid, 'iorec')
        with boot.quiet():
            d.Flow(*st).process()
        return {'trace': list(plan.trace)}
    code, rec = crashlab.in_child(record, os.path.join(scratch, 'rep.json'))
    if code != 0 or not rec:
        return
    trace = rec['trace']
    K = len(trace)
    ks = list(range(1 + case['pos'], K + 1, case['nshards']))
    if case['tier'] == 'quick':
        ks = sorted(rng.sample(ks, min(len(ks), 25)))
    for i, k in enumerate(ks):
        tag = 'io%d' % k

        def faulted(k=k, tag=tag, i=i):
            plan = crashlab.Plan('raise', at=k)
            crashlab.install(plan, scratch)
            st, obs = build(pid, tag)
            err = None
            try:
                with boot.quiet() as cap:
                    if i % 2:
                        d.Flow(*st).process()
                    else:
                        d.Flow(*st).results()
            except Exception as e:
                err = e
            if plan.raised_exc is None or plan.fired_in_chain_build:
                # not reached, or raised while the flow was still being chained (step construction, e.g. checkpoint
                # opening its file): not "a step raises"
                return {'verdict': 'not_reached'}
            if err is None:
                return {'verdict': 'returned_normally', 'detail': 'fault before %r' % (plan.fired,)}
            v, detail = faultlab.classify(err, plan.raised_exc)
            return {'verdict': v, 'detail': detail}
        counters['faults_armed'] += 1
        code, rep = crashlab.in_child(faulted, os.path.join(scratch, 'rep.json'))
        if code != 0 or not rep or rep.get('verdict') in (None, 'not_reached') or rep.get('child_exception'):
            continue
        ev = trace[k - 1]
        cov['fault_sites']['io:%s' % ev[0]] = cov['fault_sites'].get('io:%s' % ev[0], 0) + 1
        judge(rep['verdict'], rep.get('detail', ''), [], '%s OSError before I/O event %d/%d (%s %s) via %s()'
              % (pid, k, K, ev[0], ev[1], 'process' if i % 2 else 'results'), 'OSError', 'io_fault:' + ev[0])
