"""C05: stream(file) closes a file object it did not open (and, with its default, the interpreter's
sys.stdout).  What was captured in a caller-owned buffer can no longer be read, and later steps of the
same pipeline that print or write to that file (finalizer callbacks, the "checkpoint saved" notice of a
checkpoint, a printer of a following flow) fail with "I/O operation on closed file"."""
import io
import os
import subprocess
import sys

from dataflows import Flow, stream

DATA = [{'a': 1}, {'a': 2}]
problems = []

# 1. what the observer persisted must be the stream at its position - in a caller-owned buffer
buf = io.StringIO()
Flow(DATA, stream(buf)).process()
print('1. stream(io.StringIO()): expected the buffer to hold the descriptor line and 2 rows after the run')
try:
    lines = [line for line in buf.getvalue().splitlines() if line]
    print('   observed %d lines' % len(lines))
    if len(lines) != 3:
        problems.append('wrong capture')
except ValueError as e:
    print('   observed: buffer.closed=%r, getvalue() raises ValueError: %s' % (buf.closed, e))
    problems.append('the capture is lost: the observer closed the caller\'s buffer')

# 2. transparency: the same pipeline with and without stream() (default: sys.stdout), in a child process
CHILD = '''
import sys
from dataflows import Flow, stream
steps = [[{'a': 1}, {'a': 2}]]
if sys.argv[1] == 'with':
    steps.append(stream())
steps.append(finalizer(lambda: print('all rows passed')))
try:
    results = Flow(*steps).results()[0]
    sys.stderr.write('rows downstream: %r' % (results,))
except Exception as e:
    sys.stderr.write('FAILED: %s' % str(e).strip().splitlines()[0])
    sys.exit(3)
'''
outcome = {}
for mode in ('without', 'with'):
    child = subprocess.run([sys.executable, '-c', CHILD, mode], env=dict(os.environ),
                           stdout=subprocess.PIPE, stderr=subprocess.PIPE, universal_newlines=True, timeout=50)
    outcome[mode] = (child.returncode, child.stderr.strip().splitlines()[-1] if child.stderr.strip() else '')
print('2. Flow(data, [stream()], finalizer(lambda: print(...))).results()')
print('   expected (without stream): exit code %d, %s' % outcome['without'])
print('   observed (with stream()) : exit code %d, %s' % outcome['with'])
if outcome['with'] != outcome['without']:
    problems.append('inserting stream() made a later step of the pipeline fail')

if problems:
    print('VIOLATION: ' + '; '.join(problems))
    sys.exit(1)
print('ok')
